// c02drv executes the scenarios of spec/Manifest.tla on the real types/manifest, scheme/reg and
// scheme/ocidir code and records facts for spec/ManifestTrace.tla (property C02). All hashes,
// lengths and re-parsed values in the log are computed here with the standard library only.
package main

import (
	"bufio"
	"bytes"
	"context"
	"crypto/sha256"
	"crypto/sha512"
	"encoding/base64"
	"encoding/hex"
	"encoding/json"
	"flag"
	"fmt"
	"io"
	"net/http"
	"os"
	"path/filepath"
	"sort"
	"strings"
	"time"

	"github.com/opencontainers/go-digest"

	"github.com/regclient/regclient"
	"github.com/regclient/regclient/config"
	"github.com/regclient/regclient/scheme/reg"
	"github.com/regclient/regclient/types/descriptor"
	"github.com/regclient/regclient/types/docker/schema1"
	"github.com/regclient/regclient/types/docker/schema2"
	"github.com/regclient/regclient/types/manifest"
	"github.com/regclient/regclient/types/mediatype"
	v1 "github.com/regclient/regclient/types/oci/v1"
	"github.com/regclient/regclient/types/platform"
	"github.com/regclient/regclient/types/ref"
	"github.com/regclient/regclient/zzverif/vtrace"
)

const wrongDigest = "sha256:0000000000000000000000000000000000000000000000000000000000000000"

func h256(b []byte) string { s := sha256.Sum256(b); return hex.EncodeToString(s[:]) }
func h512(b []byte) string { s := sha512.Sum512(b); return hex.EncodeToString(s[:]) }

func blobDesc(mt, content string) descriptor.Descriptor {
	return descriptor.Descriptor{MediaType: mt, Digest: digest.Digest("sha256:" + h256([]byte(content))), Size: int64(len(content))}
}

// ---------------------------------------------------------------- fixtures
func fixtureOrig(kind string, alt bool) any {
	n := "base"
	if alt {
		n = "alt"
	}
	switch kind {
	case "oci_image":
		return v1.Manifest{Versioned: v1.ManifestSchemaVersion, MediaType: mediatype.OCI1Manifest,
			Config:      blobDesc(mediatype.OCI1ImageConfig, n+"-config"),
			Layers:      []descriptor.Descriptor{blobDesc(mediatype.OCI1LayerGzip, n+"-layer-1"), blobDesc(mediatype.OCI1LayerGzip, n+"-layer-2")},
			Annotations: map[string]string{"org.example": n}}
	case "oci_index":
		return v1.Index{Versioned: v1.IndexSchemaVersion, MediaType: mediatype.OCI1ManifestList, Manifests: mlistFixture("m2"),
			Annotations: map[string]string{"org.example": n}}
	case "oci_artifact":
		return v1.ArtifactManifest{MediaType: mediatype.OCI1Artifact, ArtifactType: "application/vnd.example." + n,
			Blobs: []descriptor.Descriptor{blobDesc("application/octet-stream", n+"-blob")}}
	case "d2_image":
		return schema2.Manifest{Versioned: schema2.ManifestSchemaVersion,
			Config: blobDesc(mediatype.Docker2ImageConfig, n+"-config"),
			Layers: []descriptor.Descriptor{blobDesc(mediatype.Docker2LayerGzip, n+"-layer-1")}}
	case "d2_list":
		ml := mlistFixture("m2")
		for i := range ml {
			ml[i].MediaType = mediatype.Docker2Manifest
		}
		return schema2.ManifestList{Versioned: schema2.ManifestListSchemaVersion, Manifests: ml}
	case "d1":
		return schema1.Manifest{Versioned: schema1.ManifestSchemaVersion, Name: "library/" + n, Tag: "1", Architecture: "amd64",
			FSLayers: []schema1.FSLayer{{BlobSum: digest.Digest("sha256:" + h256([]byte(n+"-l1")))}},
			History:  []schema1.History{{V1Compatibility: "{\"id\":\"" + n + "\"}"}}}
	case "d1_signed":
		var sm schema1.SignedManifest
		if err := json.Unmarshal(rawSigned, &sm); err != nil {
			fail(fmt.Errorf("signed fixture: %w", err))
		}
		return sm
	}
	fail(fmt.Errorf("unknown kind %s", kind))
	return nil
}

// the same struct, still carrying the media type of another kind (e.g. after a conversion)
func withForeignMediaType(kind string, o any) any {
	switch v := o.(type) {
	case v1.Manifest:
		v.MediaType = mediatype.Docker2Manifest
		return v
	case v1.Index:
		v.MediaType = mediatype.Docker2ManifestList
		return v
	case v1.ArtifactManifest:
		v.MediaType = mediatype.OCI1Manifest
		return v
	case schema2.Manifest:
		v.MediaType = mediatype.OCI1Manifest
		return v
	case schema2.ManifestList:
		v.MediaType = mediatype.OCI1ManifestList
		return v
	}
	return o
}

func mlistFixture(name string) []descriptor.Descriptor {
	a := blobDesc(mediatype.OCI1Manifest, `{"m":"amd64"}`)
	a.Platform = &platform.Platform{OS: "linux", Architecture: "amd64"}
	b := blobDesc(mediatype.OCI1Manifest, `{"m":"arm64"}`)
	b.Platform = &platform.Platform{OS: "linux", Architecture: "arm64"}
	c := blobDesc(mediatype.OCI1Manifest, `{"m":"other"}`)
	c.Platform = &platform.Platform{OS: "windows", Architecture: "amd64", OSVersion: "10.0.17763.1"}
	switch name {
	case "m1":
		return []descriptor.Descriptor{a, b}
	case "m2":
		return []descriptor.Descriptor{c}
	case "m1data":
		a.Data = []byte(`{"m":"amd64"}`)
		return []descriptor.Descriptor{a, b}
	case "m1plat":
		b.Platform = &platform.Platform{OS: "linux", Architecture: "arm64", Variant: "v8", OSVersion: "1.2.3"}
		return []descriptor.Descriptor{a, b}
	}
	return nil
}

func layersFixture(name string) []descriptor.Descriptor {
	switch name {
	case "l1":
		return []descriptor.Descriptor{blobDesc(mediatype.OCI1LayerGzip, "set-layer-a"), blobDesc(mediatype.OCI1Layer, "set-layer-b")}
	case "l2":
		d := blobDesc(mediatype.OCI1LayerGzip, "set-layer-c")
		d.URLs = []string{"https://example.com/c"}
		return []descriptor.Descriptor{d}
	}
	return []descriptor.Descriptor{}
}

// ---------------------------------------------------------------- canonical strings
func descStr(d descriptor.Descriptor) string {
	ds := ""
	if len(d.Data) > 0 {
		ds = h256(d.Data)
	}
	return fmt.Sprintf("%s|%d|%s|%d|%s", d.Digest, d.Size, d.MediaType, len(d.URLs), ds)
}

func platStr(p *platform.Platform) string {
	if p == nil {
		return "-"
	}
	return p.OS + "/" + p.Architecture + "/" + p.Variant + "/" + p.OSVersion
}

func annStr(m map[string]string) string {
	ks := make([]string, 0, len(m))
	for k := range m {
		ks = append(ks, k)
	}
	sort.Strings(ks)
	out := []string{}
	for _, k := range ks {
		out = append(out, k+"="+m[k])
	}
	return strings.Join(out, ";")
}

func isD1(kind string) bool { return kind == "d1" || kind == "d1_signed" }

// what the getters of the real object return
func getters(kind string, m manifest.Manifest) map[string]string {
	g := map[string]string{"ann": "", "config": "", "layers": "", "mlist": "", "subject": ""}
	if a, ok := m.(manifest.Annotator); ok {
		if an, err := a.GetAnnotations(); err == nil {
			g["ann"] = annStr(an)
		}
	}
	if im, ok := m.(manifest.Imager); ok {
		if c, err := im.GetConfig(); err == nil && c.Digest != "" {
			g["config"] = fmt.Sprintf("%s|%d|%s", c.Digest, c.Size, c.MediaType)
		}
		if dl, err := im.GetLayers(); err == nil {
			out := []string{}
			for _, d := range dl {
				if isD1(kind) {
					out = append(out, string(d.Digest))
				} else {
					out = append(out, descStr(d))
				}
			}
			g["layers"] = strings.Join(out, ";")
		}
	}
	if ix, ok := m.(manifest.Indexer); ok {
		if dl, err := ix.GetManifestList(); err == nil {
			out := []string{}
			for _, d := range dl {
				out = append(out, descStr(d)+"|"+platStr(d.Platform))
			}
			g["mlist"] = strings.Join(out, ";")
		}
	}
	if su, ok := m.(manifest.Subjecter); ok {
		if d, err := su.GetSubject(); err == nil && d != nil {
			g["subject"] = fmt.Sprintf("%s|%d|%s", d.Digest, d.Size, d.MediaType)
		}
	}
	return g
}

// the same values read back from the serialisation with plain encoding/json
func reparse(kind string, raw []byte) map[string]string {
	r := map[string]string{"ann": "", "config": "", "layers": "", "mlist": "", "subject": ""}
	var top map[string]json.RawMessage
	if json.Unmarshal(raw, &top) != nil {
		r["ann"] = "unparsable"
		return r
	}
	type jplat struct {
		OS      string `json:"os"`
		Arch    string `json:"architecture"`
		Variant string `json:"variant"`
		OSVer   string `json:"os.version"`
	}
	type jdesc struct {
		MediaType string   `json:"mediaType"`
		Digest    string   `json:"digest"`
		Size      int64    `json:"size"`
		URLs      []string `json:"urls"`
		Data      string   `json:"data"`
		Platform  *jplat   `json:"platform"`
	}
	dstr := func(d jdesc) string {
		ds := ""
		if d.Data != "" {
			b, err := base64.StdEncoding.DecodeString(d.Data)
			if err != nil {
				return "bad-data"
			}
			ds = h256(b)
		}
		return fmt.Sprintf("%s|%d|%s|%d|%s", d.Digest, d.Size, d.MediaType, len(d.URLs), ds)
	}
	if a, ok := top["annotations"]; ok && !isD1(kind) {
		m := map[string]string{}
		_ = json.Unmarshal(a, &m)
		r["ann"] = annStr(m)
	}
	if c, ok := top["config"]; ok && (kind == "oci_image" || kind == "d2_image") {
		var d jdesc
		_ = json.Unmarshal(c, &d)
		if d.Digest != "" {
			r["config"] = fmt.Sprintf("%s|%d|%s", d.Digest, d.Size, d.MediaType)
		}
	}
	lkey := map[string]string{"oci_image": "layers", "d2_image": "layers", "oci_artifact": "blobs"}[kind]
	if lkey != "" {
		var dl []jdesc
		_ = json.Unmarshal(top[lkey], &dl)
		out := []string{}
		for _, d := range dl {
			out = append(out, dstr(d))
		}
		r["layers"] = strings.Join(out, ";")
	}
	if isD1(kind) {
		var fl []struct {
			BlobSum string `json:"blobSum"`
		}
		_ = json.Unmarshal(top["fsLayers"], &fl)
		out := []string{}
		for _, l := range fl {
			out = append(out, l.BlobSum)
		}
		r["layers"] = strings.Join(out, ";")
	}
	if kind == "oci_index" || kind == "d2_list" {
		var dl []jdesc
		_ = json.Unmarshal(top["manifests"], &dl)
		out := []string{}
		for _, d := range dl {
			ps := "-"
			if d.Platform != nil {
				ps = d.Platform.OS + "/" + d.Platform.Arch + "/" + d.Platform.Variant + "/" + d.Platform.OSVer
			}
			out = append(out, dstr(d)+"|"+ps)
		}
		r["mlist"] = strings.Join(out, ";")
	}
	if s, ok := top["subject"]; ok && (kind == "oci_image" || kind == "oci_index" || kind == "oci_artifact") {
		var d jdesc
		_ = json.Unmarshal(s, &d)
		if d.Digest != "" {
			r["subject"] = fmt.Sprintf("%s|%d|%s", d.Digest, d.Size, d.MediaType)
		}
	}
	return r
}

// the bytes a digest is defined over: raw, except the signed payload of a signed schema1 manifest
// (JWS "protected" header: formatLength / formatTail), extracted without regclient or libtrust
func canonical(kind string, raw []byte) []byte {
	if kind != "d1_signed" {
		return raw
	}
	// formatLength counts from the opening brace of the document
	raw = bytes.TrimLeft(raw, " \t\r\n")
	var s struct {
		Signatures []struct {
			Protected string `json:"protected"`
		} `json:"signatures"`
	}
	if json.Unmarshal(raw, &s) != nil || len(s.Signatures) == 0 {
		return raw
	}
	pb, err := base64.RawURLEncoding.DecodeString(s.Signatures[0].Protected)
	if err != nil {
		return raw
	}
	var p struct {
		FormatLength int    `json:"formatLength"`
		FormatTail   string `json:"formatTail"`
	}
	if json.Unmarshal(pb, &p) != nil || p.FormatLength > len(raw) {
		return raw
	}
	tail, err := base64.RawURLEncoding.DecodeString(p.FormatTail)
	if err != nil {
		return raw
	}
	return append(append([]byte{}, raw[:p.FormatLength]...), tail...)
}

// facts about one observed object state
func observe(ev map[string]any, kind string, m manifest.Manifest) {
	d := m.GetDescriptor()
	raw, _ := m.RawBody()
	mj, _ := m.MarshalJSON()
	c := canonical(kind, raw)
	ev["rep_digest"], ev["rep_size"], ev["rep_mt"] = string(d.Digest), int(d.Size), d.MediaType
	ev["body_mt"] = bodyMT(raw)
	ev["raw_sha256"], ev["mj_sha256"] = h256(canonical(kind, raw)), h256(canonical(kind, mj))
	ev["canon_sha256"], ev["canon_sha512"], ev["canon_len"], ev["raw_len"] = h256(c), h512(c), len(c), len(raw)
	g := getters(kind, m)
	r := reparse(kind, raw)
	for k, v := range g {
		ev["g_"+k] = v
	}
	for k, v := range r {
		ev["r_"+k] = v
	}
}

// ---------------------------------------------------------------- edit side
type editScn struct {
	Kind string     `json:"kind"`
	Algo string     `json:"algo"`
	Prog [][]string `json:"prog"`
}

func runEdit(enc *json.Encoder, sc editScn, id string) {
	orig := fixtureOrig(sc.Kind, false)
	mj, _ := json.Marshal(orig)
	opts := []manifest.Opts{manifest.WithOrig(orig)}
	if sc.Algo == "sha512" && sc.Kind != "d1_signed" {
		opts = append(opts, manifest.WithDesc(descriptor.Descriptor{Digest: digest.Digest("sha512:" + h512(mj))}))
	}
	m, err := manifest.New(opts...)
	if err != nil {
		fail(fmt.Errorf("building %s: %w", sc.Kind, err))
	}
	_ = enc.Encode(map[string]any{"ev": "reset", "trace": id, "kind": sc.Kind, "algo": sc.Algo})
	ev := map[string]any{"ev": "init", "kind": sc.Kind}
	observe(ev, sc.Kind, m)
	_ = enc.Encode(ev)
	for _, op := range sc.Prog {
		ev := map[string]any{"ev": "op", "kind": sc.Kind, "op": op[0], "arg": op[1], "want": ""}
		var err error
		na := false
		switch op[0] {
		case "ann":
			kv := strings.SplitN(op[1], "=", 2)
			if a, ok := m.(manifest.Annotator); ok {
				// expected annotation set: previous plus/minus this key
				prev, _ := a.GetAnnotations()
				exp := map[string]string{}
				for k, v := range prev {
					exp[k] = v
				}
				if kv[1] == "" {
					delete(exp, kv[0])
				} else {
					exp[kv[0]] = kv[1]
				}
				ev["want"] = annStr(exp)
				err = a.SetAnnotation(kv[0], kv[1])
			} else {
				na = true
			}
		case "config":
			d := blobDesc(mediatype.OCI1ImageConfig, "set-config-"+op[1])
			ev["want"] = fmt.Sprintf("%s|%d|%s", d.Digest, d.Size, d.MediaType)
			if im, ok := m.(manifest.Imager); ok {
				err = im.SetConfig(d)
			} else {
				na = true
			}
		case "layers":
			dl := layersFixture(op[1])
			out := []string{}
			for _, d := range dl {
				if isD1(sc.Kind) {
					out = append(out, string(d.Digest))
				} else {
					out = append(out, descStr(d))
				}
			}
			ev["want"] = strings.Join(out, ";")
			if im, ok := m.(manifest.Imager); ok {
				err = im.SetLayers(dl)
			} else {
				na = true
			}
		case "mlist":
			dl := mlistFixture(op[1])
			out := []string{}
			for _, d := range dl {
				out = append(out, descStr(d)+"|"+platStr(d.Platform))
			}
			ev["want"] = strings.Join(out, ";")
			if ix, ok := m.(manifest.Indexer); ok {
				err = ix.SetManifestList(dl)
			} else {
				na = true
			}
		case "subject":
			var d *descriptor.Descriptor
			if op[1] != "none" {
				dd := blobDesc(mediatype.OCI1Manifest, "subject-"+op[1])
				d = &dd
				ev["want"] = fmt.Sprintf("%s|%d|%s", dd.Digest, dd.Size, dd.MediaType)
			}
			if su, ok := m.(manifest.Subjecter); ok {
				err = su.SetSubject(d)
			} else {
				na = true
			}
		case "orig":
			o := fixtureOrig(sc.Kind, true)
			if op[1] == "o1badmt" {
				o = withForeignMediaType(sc.Kind, o)
			}
			err = m.SetOrig(o)
		}
		switch {
		case na:
			ev["err"] = 2
		case err != nil:
			ev["err"] = 1
			ev["errmsg"] = err.Error()
		default:
			ev["err"] = 0
		}
		observe(ev, sc.Kind, m)
		_ = enc.Encode(ev)
	}
}

// ---------------------------------------------------------------- fetch side
type fetchScn struct {
	Kind    string `json:"kind"`
	Variant string `json:"variant"`
	Desc    string `json:"desc"`
	Ref     string `json:"ref"`
	Hdr     string `json:"hdr"`
	HdrMT   string `json:"hdrmt"`
	Via     string `json:"via"`
	Form    string `json:"form"`
}

// body variants: same fields, different bytes
func bodyVariant(kind, variant string) []byte {
	if kind == "d1_signed" {
		return rawSigned
	}
	mj, _ := json.Marshal(fixtureOrig(kind, false))
	if variant == "canon" {
		return mj
	}
	var top map[string]json.RawMessage
	_ = json.Unmarshal(mj, &top)
	if variant == "unknown_field" {
		top["x-unknown-extension"] = json.RawMessage(`{"a":[1,2,3],"b":null}`)
	}
	ks := make([]string, 0, len(top))
	for k := range top {
		ks = append(ks, k)
	}
	sort.Sort(sort.Reverse(sort.StringSlice(ks)))
	var buf bytes.Buffer
	buf.WriteString("{\n")
	for i, k := range ks {
		kb, _ := json.Marshal(k)
		var ind bytes.Buffer
		_ = json.Indent(&ind, top[k], "    ", "\t")
		fmt.Fprintf(&buf, "    %s :  %s", kb, ind.Bytes())
		if i < len(ks)-1 {
			buf.WriteString(",")
		}
		buf.WriteString("\n")
	}
	buf.WriteString("}\n\n")
	return buf.Bytes()
}

func bodyMT(body []byte) string {
	var t struct {
		MediaType string `json:"mediaType"`
	}
	_ = json.Unmarshal(body, &t)
	return t.MediaType
}

func kindMT(kind string) string {
	return map[string]string{"oci_image": mediatype.OCI1Manifest, "oci_index": mediatype.OCI1ManifestList, "oci_artifact": mediatype.OCI1Artifact,
		"d2_image": mediatype.Docker2Manifest, "d2_list": mediatype.Docker2ManifestList, "d1": mediatype.Docker1Manifest,
		"d1_signed": mediatype.Docker1ManifestSigned}[kind]
}

func digestFor(cls string, canon []byte) string {
	switch cls {
	case "right256":
		return "sha256:" + h256(canon)
	case "right512":
		return "sha512:" + h512(canon)
	case "wrong":
		return wrongDigest
	case "malformed":
		// not a digest: truncated, upper-case hex, an algorithm that is not registered, bare hex
		h := h256(canon)
		switch len(canon) % 4 {
		case 0:
			return "sha256:" + h[:40]
		case 1:
			return "sha256:" + strings.ToUpper(h)
		case 2:
			return "blake3:" + h
		}
		return "sha256:" + h[:63] + "g"
	}
	return ""
}

type fakeReg struct {
	index     []byte // when set: served for every manifest path except childPath
	childPath string
	body      []byte
	hdrDig    string
	hdrMT     string
	putBody   []byte
	putPath   string
	store     bool // a push replaces the body that is served
}

func (f *fakeReg) RoundTrip(req *http.Request) (*http.Response, error) {
	mk := func(code int, h http.Header, b []byte) *http.Response {
		if h == nil {
			h = http.Header{}
		}
		h.Set("Content-Length", fmt.Sprint(len(b)))
		var rb io.ReadCloser = io.NopCloser(bytes.NewReader(b))
		if req.Method == http.MethodHead {
			rb = http.NoBody
		}
		return &http.Response{StatusCode: code, Status: http.StatusText(code), Header: h, Body: rb, ContentLength: int64(len(b)), Request: req, Proto: "HTTP/1.1", ProtoMajor: 1, ProtoMinor: 1}
	}
	p := req.URL.Path
	switch {
	case p == "/v2/" || p == "/v2":
		return mk(200, nil, []byte("{}")), nil
	case f.index != nil && strings.Contains(p, "/manifests/") && !strings.HasSuffix(p, f.childPath) &&
		(req.Method == http.MethodGet || req.Method == http.MethodHead):
		h := http.Header{}
		h.Set("Content-Type", mediatype.OCI1ManifestList)
		return mk(200, h, f.index), nil
	case strings.Contains(p, "/manifests/") && (req.Method == http.MethodGet || req.Method == http.MethodHead):
		h := http.Header{}
		if f.hdrMT != "" {
			h.Set("Content-Type", f.hdrMT)
		}
		if f.hdrDig != "" {
			h.Set("Docker-Content-Digest", f.hdrDig)
		}
		return mk(200, h, f.body), nil
	case strings.Contains(p, "/manifests/") && req.Method == http.MethodPut:
		b, _ := io.ReadAll(req.Body)
		f.putBody, f.putPath = b, p
		if f.store {
			f.body = b
		}
		h := http.Header{}
		h.Set("Location", p)
		return mk(201, h, nil), nil
	}
	return mk(404, nil, []byte(`{"errors":[{"code":"NOT_FOUND"}]}`)), nil
}

func runFetch(enc *json.Encoder, sc fetchScn, scratch string, n int) {
	if sc.Kind == "d1_signed" && sc.Variant != "canon" {
		return // a signed payload cannot be re-serialised
	}
	if sc.Via == "ocidir" {
		// a layout has no headers; what announces a digest there is the entry of index.json, used for a
		// pull by tag: that entry's digest is the scenario's `hdr`
		byTag := sc.Desc == "absent" && sc.Ref == "absent"
		if sc.HdrMT != "absent" || (byTag && sc.Hdr == "absent") || (!byTag && sc.Hdr != "absent") {
			return
		}
	}
	if sc.Via == "regplat" && (sc.Ref != "absent" || sc.Desc == "absent" || (sc.Kind != "oci_image" && sc.Kind != "d2_image")) {
		return // the child of an index entry: an image, asked for by the entry's digest
	}
	if sc.Via == "regdata" && (sc.Desc == "absent" || sc.Ref != "absent") {
		return // inline data needs a descriptor
	}
	if sc.Via == "orig" && (sc.Variant != "canon" || sc.Kind == "d1_signed" || sc.Hdr != "absent" || sc.HdrMT != "absent") {
		return // built from a struct: the bytes are the struct's serialisation, there is no response header
	}
	if sc.Via == "regputget" && (sc.Desc != "absent" || sc.Hdr != "absent" || sc.HdrMT != "absent" || sc.Kind == "d1_signed") {
		return // pushed to and pulled from the reference
	}
	body := bodyVariant(sc.Kind, sc.Variant)
	canon := canonical(sc.Kind, body)
	ev := map[string]any{"ev": "fetch", "kind": sc.Kind, "variant": sc.Variant, "desc": sc.Desc, "ref": sc.Ref, "hdr": sc.Hdr,
		"hdrmt": sc.HdrMT, "via": sc.Via, "form": sc.Form, "served_sha256": h256(body), "served_sha512": h512(body),
		"servedp_sha256": h256(canon),
		"canon_sha256":   h256(canon), "canon_sha512": h512(canon), "canon_len": len(canon), "raw_len": len(body), "body_mt": bodyMT(body),
		"put_done": 0, "put_sha256": "", "put_digest": "", "rep_digest": "", "rep_size": 0, "rep_mt": "", "raw_sha256": "", "mj_sha256": ""}
	hdrMT := ""
	switch sc.HdrMT {
	case "right":
		hdrMT = kindMT(sc.Kind)
	case "wrong":
		hdrMT = mediatype.Docker2ManifestList
		if sc.Kind == "d2_list" {
			hdrMT = mediatype.OCI1Manifest
		}
	}
	descDig, refDig, hdrDig := digestFor(sc.Desc, canon), digestFor(sc.Ref, canon), digestFor(sc.Hdr, canon)
	var m manifest.Manifest
	var err error
	var fr2put []byte
	ctx, cancel := context.WithTimeout(context.Background(), 20*time.Second)
	defer cancel()
	switch sc.Via {
	case "new":
		opts := []manifest.Opts{manifest.WithRaw(body)}
		rs := "registry.example/repo:tag"
		if refDig != "" {
			rs = "registry.example/repo@" + refDig
		}
		r, rerr := ref.New(rs)
		if rerr != nil {
			fail(rerr)
		}
		// the descriptor: digest only (std, ref_first), or with media type and size - then also given
		// when it carries no digest (mt_desc, mt_desc_first)
		var descOpt manifest.Opts
		switch sc.Form {
		case "mt_desc", "mt_desc_first":
			descOpt = manifest.WithDesc(descriptor.Descriptor{MediaType: kindMT(sc.Kind), Size: int64(len(body)), Digest: digest.Digest(descDig)})
		case "size_desc":
			descOpt = manifest.WithDesc(descriptor.Descriptor{Size: int64(len(body)) + 7, Digest: digest.Digest(descDig)})
		default:
			if descDig != "" {
				descOpt = manifest.WithDesc(descriptor.Descriptor{Digest: digest.Digest(descDig)})
			}
		}
		refOpt := manifest.WithRef(r)
		switch sc.Form {
		case "ref_first", "mt_desc":
			opts = append(opts, refOpt)
			if descOpt != nil {
				opts = append(opts, descOpt)
			}
		default:
			if descOpt != nil {
				opts = append(opts, descOpt)
			}
			opts = append(opts, refOpt)
		}
		if hdrDig != "" || hdrMT != "" {
			h := http.Header{}
			if hdrDig != "" {
				h.Set("Docker-Content-Digest", hdrDig)
			}
			if hdrMT != "" {
				h.Set("Content-Type", hdrMT)
			}
			h.Set("Content-Length", fmt.Sprint(len(body)))
			opts = append(opts, manifest.WithHeader(h))
		}
		m, err = manifest.New(opts...)
	case "orig":
		// the same request spelled with the struct instead of the bytes
		opts := []manifest.Opts{manifest.WithOrig(fixtureOrig(sc.Kind, false))}
		rs := "registry.example/repo:tag"
		if refDig != "" {
			rs = "registry.example/repo@" + refDig
		}
		r, rerr := ref.New(rs)
		if rerr != nil {
			fail(rerr)
		}
		var descOpt manifest.Opts
		switch sc.Form {
		case "mt_desc", "mt_desc_first":
			descOpt = manifest.WithDesc(descriptor.Descriptor{MediaType: kindMT(sc.Kind), Size: int64(len(body)), Digest: digest.Digest(descDig)})
		case "size_desc":
			descOpt = manifest.WithDesc(descriptor.Descriptor{Size: int64(len(body)) + 7, Digest: digest.Digest(descDig)})
		default:
			if descDig != "" {
				descOpt = manifest.WithDesc(descriptor.Descriptor{Digest: digest.Digest(descDig)})
			}
		}
		refOpt := manifest.WithRef(r)
		switch sc.Form {
		case "ref_first", "mt_desc":
			opts = append(opts, refOpt)
			if descOpt != nil {
				opts = append(opts, descOpt)
			}
		default:
			if descOpt != nil {
				opts = append(opts, descOpt)
			}
			opts = append(opts, refOpt)
		}
		m, err = manifest.New(opts...)
	case "regputget":
		// one client with the response cache on: push the manifest to the reference (this registry, like many
		// proxies, stores what it is sent without comparing it with a digest in the URL), then pull that reference
		fr := &fakeReg{hdrMT: kindMT(sc.Kind), store: true}
		rc := regclient.New(regclient.WithConfigHost(config.Host{Name: "registry.example", Hostname: "registry.example", TLS: config.TLSDisabled}),
			regclient.WithRegOpts(reg.WithHTTPClient(&http.Client{Transport: fr}), reg.WithDelay(time.Millisecond, 5*time.Millisecond), reg.WithRetryLimit(2),
				reg.WithCache(time.Minute, 100)))
		rs := "registry.example/repo:tag"
		if refDig != "" {
			rs = "registry.example/repo@" + refDig
		}
		r, rerr := ref.New(rs)
		if rerr != nil {
			fail(rerr)
		}
		mp, perr := manifest.New(manifest.WithRaw(body))
		if perr != nil {
			fail(perr)
		}
		if perr := rc.ManifestPut(ctx, r, mp); perr != nil {
			err = perr // a client that refuses such a push returns nothing: fine
		} else {
			m, err = rc.ManifestGet(ctx, r)
		}
	case "reg":
		fr := &fakeReg{body: body, hdrDig: hdrDig, hdrMT: hdrMT}
		rc := regclient.New(regclient.WithConfigHost(config.Host{Name: "registry.example", Hostname: "registry.example", TLS: config.TLSDisabled}),
			regclient.WithRegOpts(reg.WithHTTPClient(&http.Client{Transport: fr}), reg.WithDelay(time.Millisecond, 5*time.Millisecond), reg.WithRetryLimit(2)))
		rs := "registry.example/repo:tag"
		if refDig != "" {
			rs = "registry.example/repo@" + refDig
		}
		r, rerr := ref.New(rs)
		if rerr != nil {
			fail(rerr)
		}
		var mo []regclient.ManifestOpts
		if descDig != "" {
			mo = append(mo, regclient.WithManifestDesc(descriptor.Descriptor{Digest: digest.Digest(descDig)}))
		}
		m, err = rc.ManifestGet(ctx, r, mo...)
		if err == nil {
			// O3: re-push what was fetched
			rp, _ := ref.New("registry.example/repo:copy")
			if perr := rc.ManifestPut(ctx, rp, m); perr == nil && fr.putBody != nil {
				fr2put = fr.putBody
				ev["put_done"], ev["put_sha256"] = 1, h256(fr.putBody)
				ev["put_digest"] = string(m.GetDescriptor().Digest)
			}
		}
	case "regplat", "regdata":
		fr := &fakeReg{body: body, hdrDig: hdrDig, hdrMT: hdrMT}
		rc := regclient.New(regclient.WithConfigHost(config.Host{Name: "registry.example", Hostname: "registry.example", TLS: config.TLSDisabled}),
			regclient.WithRegOpts(reg.WithHTTPClient(&http.Client{Transport: fr}), reg.WithDelay(time.Millisecond, 5*time.Millisecond), reg.WithRetryLimit(2)))
		r, rerr := ref.New("registry.example/repo:tag")
		if rerr != nil {
			fail(rerr)
		}
		if sc.Via == "regdata" {
			m, err = rc.ManifestGet(ctx, r, regclient.WithManifestDesc(descriptor.Descriptor{
				MediaType: kindMT(sc.Kind), Digest: digest.Digest(descDig), Size: int64(len(body)), Data: body}))
		} else {
			// the tag is an index with one entry for linux/amd64 whose digest is descDig
			idx := fmt.Sprintf(`{"schemaVersion":2,"mediaType":"application/vnd.oci.image.index.v1+json","manifests":[{"mediaType":%q,"digest":%q,"size":%d,"platform":{"os":"linux","architecture":"amd64"}}]}`,
				kindMT(sc.Kind), descDig, len(body))
			fr.index, fr.childPath = []byte(idx), "/manifests/"+descDig
			m, err = rc.ManifestGet(ctx, r, regclient.WithManifestPlatform(platform.Platform{OS: "linux", Architecture: "amd64"}))
			if err == nil && m != nil && m.IsList() {
				err = fmt.Errorf("platform not resolved")
				m = nil
			}
		}
	case "ocidir":
		dir := filepath.Join(scratch, fmt.Sprintf("layout-%d", n))
		want := descDig
		if want == "" {
			want = refDig
		}
		fileDig := want
		if fileDig == "" {
			fileDig = hdrDig // pull by tag: the digest the index entry announces (right, right sha512, wrong)
		}
		entrySize := len(body)
		if sc.Form == "size_entry" {
			entrySize += 7
		}
		alg, hx, _ := strings.Cut(fileDig, ":")
		_ = os.MkdirAll(filepath.Join(dir, "blobs", alg), 0o755)
		_ = os.WriteFile(filepath.Join(dir, "oci-layout"), []byte(`{"imageLayoutVersion":"1.0.0"}`), 0o644)
		_ = os.WriteFile(filepath.Join(dir, "blobs", alg, hx), body, 0o644)
		idx := fmt.Sprintf(`{"schemaVersion":2,"mediaType":"application/vnd.oci.image.index.v1+json","manifests":[{"mediaType":%q,"digest":%q,"size":%d,"annotations":{"org.opencontainers.image.ref.name":"tag"}}]}`,
			kindMT(sc.Kind), fileDig, entrySize)
		_ = os.WriteFile(filepath.Join(dir, "index.json"), []byte(idx), 0o644)
		rc := regclient.New()
		rs := "ocidir://" + dir + ":tag"
		if refDig != "" {
			rs = "ocidir://" + dir + "@" + refDig
		}
		r, rerr := ref.New(rs)
		if rerr != nil {
			fail(rerr)
		}
		var mo []regclient.ManifestOpts
		if descDig != "" {
			mo = append(mo, regclient.WithManifestDesc(descriptor.Descriptor{Digest: digest.Digest(descDig)}))
		}
		m, err = rc.ManifestGet(ctx, r, mo...)
		_ = rc.Close(ctx, r)
		_ = os.RemoveAll(dir)
		// in a layout the digest asked for is also the file name: the governing source is desc, else ref,
		// else the index entry (the scenario's hdr, so that the model's precedence applies unchanged)
	}
	if err != nil || m == nil {
		ev["ok"] = 0
		if err != nil {
			ev["errmsg"] = err.Error()
		}
	} else {
		ev["ok"] = 1
		d := m.GetDescriptor()
		raw, _ := m.RawBody()
		mj, _ := m.MarshalJSON()
		ev["rep_digest"], ev["rep_size"], ev["rep_mt"] = string(d.Digest), int(d.Size), d.MediaType
		ev["raw_sha256"], ev["mj_sha256"] = h256(canonical(sc.Kind, raw)), h256(canonical(sc.Kind, mj))
		if sc.Kind == "d1_signed" {
			// a signed document is identified by its payload: compare payloads (surrounding white space
			// of the JWS envelope is not part of what the digest names)
			if ev["put_done"] == 1 {
				ev["put_sha256"] = h256(canonical(sc.Kind, fr2put))
			}
		}
	}
	_ = enc.Encode(ev)
}

func main() {
	in := flag.String("in", "", "scenarios (jsonl)")
	out := flag.String("out", "", "ndjson log")
	mode := flag.String("mode", "edit", "edit | fetch")
	scratch := flag.String("scratch", os.TempDir(), "scratch dir for layouts")
	flag.Parse()
	f, err := os.Create(*out)
	if err != nil {
		fail(err)
	}
	w := bufio.NewWriterSize(f, 1<<20)
	enc := json.NewEncoder(w)
	enc.SetEscapeHTML(false)
	n := 0
	err = vtrace.ReadLines(*in, func(line []byte) error {
		n++
		if *mode == "edit" {
			var sc editScn
			if err := json.Unmarshal(line, &sc); err != nil {
				return err
			}
			runEdit(enc, sc, fmt.Sprintf("edit-%d", n))
		} else {
			var sc fetchScn
			if err := json.Unmarshal(line, &sc); err != nil {
				return err
			}
			runFetch(enc, sc, *scratch, n)
		}
		return nil
	})
	if err != nil {
		fail(err)
	}
	if err := w.Flush(); err != nil {
		fail(err)
	}
	_ = f.Close()
}

func fail(err error) {
	fmt.Fprintln(os.Stderr, "c02drv:", err)
	os.Exit(2)
}

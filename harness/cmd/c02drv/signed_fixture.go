package main

// copy of the signed schema1 fixture used by the repository's own tests (types/manifest/manifest_test.go)
var rawSigned = []byte(`
{
   "schemaVersion": 1,
   "name": "library/debian",
   "tag": "6",
   "architecture": "amd64",
   "fsLayers": [
      {
         "blobSum": "sha256:a3ed95caeb02ffe68cdd9fd84406680ae93d633cb16422d00e8a7c22955b46d4"
      },
      {
         "blobSum": "sha256:069873d23334d65630bbe5e303ced0c68181b694c7f5506b54bf5d8115b5af20"
      }
   ],
   "history": [
      {
         "v1Compatibility": "{\"id\":\"ff11dd0897b8ded12196819a787b5bd6d5bf886d9a7836c21b070efb5d9e77e4\",\"parent\":\"4e507d091336a8ec91e1b0fd0e33f11625d8bf3494765d3dbec37ec17387cbf5\",\"created\":\"2016-02-16T21:25:24.035599122Z\",\"container\":\"0fd99658f7a77c1170f8ff325c14437eaced7bab6b3152264cb1946d8d018e2e\",\"container_config\":{\"Hostname\":\"71f62d8ce24c\",\"Domainname\":\"\",\"User\":\"\",\"AttachStdin\":false,\"AttachStdout\":false,\"AttachStderr\":false,\"Tty\":false,\"OpenStdin\":false,\"StdinOnce\":false,\"Env\":null,\"Cmd\":[\"/bin/sh\",\"-c\",\"#(nop) CMD [\\\"/bin/bash\\\"]\"],\"Image\":\"4e507d091336a8ec91e1b0fd0e33f11625d8bf3494765d3dbec37ec17387cbf5\",\"Volumes\":null,\"WorkingDir\":\"\",\"Entrypoint\":null,\"OnBuild\":null,\"Labels\":{}},\"docker_version\":\"1.9.1\",\"config\":{\"Hostname\":\"71f62d8ce24c\",\"Domainname\":\"\",\"User\":\"\",\"AttachStdin\":false,\"AttachStdout\":false,\"AttachStderr\":false,\"Tty\":false,\"OpenStdin\":false,\"StdinOnce\":false,\"Env\":null,\"Cmd\":[\"/bin/bash\"],\"Image\":\"4e507d091336a8ec91e1b0fd0e33f11625d8bf3494765d3dbec37ec17387cbf5\",\"Volumes\":null,\"WorkingDir\":\"\",\"Entrypoint\":null,\"OnBuild\":null,\"Labels\":{}},\"architecture\":\"amd64\",\"os\":\"linux\"}"
      },
      {
         "v1Compatibility": "{\"id\":\"4e507d091336a8ec91e1b0fd0e33f11625d8bf3494765d3dbec37ec17387cbf5\",\"created\":\"2016-02-16T21:25:21.747984969Z\",\"container\":\"71f62d8ce24cd81b2835a2a4457e9e745f775a225cb2e75a5e76fc8b5f44874c\",\"container_config\":{\"Hostname\":\"71f62d8ce24c\",\"Domainname\":\"\",\"User\":\"\",\"AttachStdin\":false,\"AttachStdout\":false,\"AttachStderr\":false,\"Tty\":false,\"OpenStdin\":false,\"StdinOnce\":false,\"Env\":null,\"Cmd\":[\"/bin/sh\",\"-c\",\"#(nop) ADD file:09d717d62608e18d79af6b6cd5aae36f675bd5c4f34452ab1693b56bfbfe2520 in /\"],\"Image\":\"\",\"Volumes\":null,\"WorkingDir\":\"\",\"Entrypoint\":null,\"OnBuild\":null,\"Labels\":null},\"docker_version\":\"1.9.1\",\"config\":{\"Hostname\":\"71f62d8ce24c\",\"Domainname\":\"\",\"User\":\"\",\"AttachStdin\":false,\"AttachStdout\":false,\"AttachStderr\":false,\"Tty\":false,\"OpenStdin\":false,\"StdinOnce\":false,\"Env\":null,\"Cmd\":null,\"Image\":\"\",\"Volumes\":null,\"WorkingDir\":\"\",\"Entrypoint\":null,\"OnBuild\":null,\"Labels\":null},\"architecture\":\"amd64\",\"os\":\"linux\",\"Size\":76534288}"
      }
   ],
   "signatures": [
      {
         "header": {
            "jwk": {
               "crv": "P-256",
               "kid": "FD6K:7VOX:ZVOM:34T7:2ZT5:753N:ZM4C:RJIF:WPOO:NPC2:7VPJ:3TVM",
               "kty": "EC",
               "x": "kHg6ZEbadXH4gC5ggkduHEAeJP40vdudo7tekiigA00",
               "y": "K5r269kJQV1ERenXMuEQbY7_hrbxy1JnTnSOBR0bvTg"
            },
            "alg": "ES256"
         },
         "signature": "mtuG3ORjrX8o7lqyx78tX_JIX-JuiBAWX2sEvf60t4zXzLB61gNecwasp56Mn3LT7fxmJzC3-IcHW-UryDm6uw",
         "protected": "eyJmb3JtYXRMZW5ndGgiOjI3NDYsImZvcm1hdFRhaWwiOiJDbjAiLCJ0aW1lIjoiMjAyMS0xMi0xM1QxMzo0OTozNFoifQ"
      }
   ]
} 
`)

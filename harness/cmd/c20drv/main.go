// c20drv executes scenarios of spec/PathSafe.tla (C20: remote or archive content never causes
// writes outside the chosen directory) on the real code and records facts; it does not judge.
//
// The process is meant to run under strace -f (see tools/props/c20.py).  Per scenario n it
//   - creates the guard directory <root>/g<n> itself (start marker, harness-declared scratch),
//     the designated directory g<n>/out (with an existing file xf and directory xd), a victim
//     file g<n>/victim next to it, a far victim <root>/../nm, and whatever the entry point needs
//     (source layout g<n>/src, tar bytes in memory, a poisoned index.json ...),
//   - lists g<n> recursively and <root> and its parent at top level (type, size, mtime, mode,
//     inode, link count, link target),
//   - issues the marker mkdir("/VERIF-C20-MARK/<n>/op-begin") (fails with ENOENT, visible to strace),
//     runs the operation on the real code (in process, or the real regctl binary as a child),
//     issues the op-end marker,
//   - lists again and writes one JSON line with the differences, the victim check and the error
//     (a "pre" line is written before the operation, so that a crash of the process inside the
//     operation - e.g. a panic in a goroutine of the library - still leaves the declaration).
//
// Entry points: regctl artifact get --output [--strip-dirs] (binary), archive.Extract,
// regclient.ImageImport into ocidir://, and every ocidir operation taking a digest, tag or
// descriptor through regclient.RegClient (Blob{Get,Head,Put,Delete}, Manifest{Get,Head,Put,Delete},
// Tag{Delete,List}, ReferrerList, Close, ImageCopy).
package main

import (
	"archive/tar"
	"bufio"
	"bytes"
	"compress/gzip"
	"context"
	"crypto/sha256"
	"crypto/sha512"
	"encoding/hex"
	"encoding/json"
	"flag"
	"fmt"
	"io"
	"io/fs"
	"os"
	"os/exec"
	"path/filepath"
	"sort"
	"strings"
	"syscall"
	"time"

	"github.com/opencontainers/go-digest"

	"github.com/regclient/regclient"
	"github.com/regclient/regclient/pkg/archive"
	"github.com/regclient/regclient/scheme"
	"github.com/regclient/regclient/types/descriptor"
	"github.com/regclient/regclient/types/manifest"
	"github.com/regclient/regclient/types/mediatype"
	v1 "github.com/regclient/regclient/types/oci/v1"
	"github.com/regclient/regclient/types/platform"
	"github.com/regclient/regclient/types/ref"
	"github.com/regclient/regclient/zzverif/vtrace"
)

type ent struct {
	K  string   `json:"k"`
	N  []string `json:"n"`
	T  []string `json:"t"`
	Tl int      `json:"tl"`
}

type scn struct {
	ID     int      `json:"id"`
	Ep     string   `json:"ep"`
	Segs   []string `json:"segs"`
	Lead   int      `json:"lead"`
	Trail  int      `json:"trail"`
	Unpack int      `json:"unpack"`
	Strip  int      `json:"strip"`
	Ents   []ent    `json:"ents"`
	Op     string   `json:"op"`
	H      string   `json:"h"`
	Place  string   `json:"place"`
	Wm     string   `json:"wm"`
	Chk    int      `json:"chk"`
	Opt    string   `json:"opt"`
	// secondary dimensions (PathSafe!SecondaryDims)
	Odir string `json:"odir"`
	Comp string `json:"comp"`
	Hdr  string `json:"hdr"`
	Pos  string `json:"pos"`
}

type change struct {
	What string `json:"what"`
	Path string `json:"path"`
}

type fact struct {
	ID       int      `json:"id"`
	Guard    string   `json:"guard"`
	Out      string   `json:"out"`
	Allow    []string `json:"allow"`
	Changes  []change `json:"changes"`
	Victim   int      `json:"victim_same"`
	Err      string   `json:"err"`
	Panicked int      `json:"panicked"`
	Input    string   `json:"input"` // the hostile string as used (hex), for reports
	Skipped  string   `json:"skipped,omitempty"`
	Pre      int      `json:"pre,omitempty"` // 1: written before the operation starts (a crash leaves only this line)
}

const (
	annotTitle  = "org.opencontainers.image.title"
	annotUnpack = "io.deis.oras.content.unpack"
	annotRef    = "org.opencontainers.image.ref.name"
	markRoot    = "/VERIF-C20-MARK"
)

var long300 = strings.Repeat("L", 300)

// lexeme of a segment class (see spec/PathSafe.tla)
func lexeme(c, guard string) string {
	switch c {
	case "name":
		return "nm"
	case "dotdot":
		return ".."
	case "dot":
		return "."
	case "empty":
		return ""
	case "long":
		return long300
	case "nul":
		return "nu\x00l"
	case "xfile":
		return "xf"
	case "xdir":
		return "xd"
	case "bslash":
		return `bs\..\..\w`
	case "victim":
		return "victim"
	case "pwn":
		return "pwned.txt"
	case "G":
		return strings.TrimPrefix(guard, "/")
	// siblings of the designated directory "out" whose names have its base name as a string prefix
	case "sib2":
		return "out2"
	case "sibbak":
		return "out.bak"
	case "sibdir":
		return "out-evil"
	case "sibtxt":
		return "output.txt"
	// names that are hostile only after a transformation (prefix stripping, trimming)
	case "whdd":
		return ".wh..."
	case "whdot":
		return ".wh.."
	case "wh":
		return ".wh."
	case "whopq":
		return ".wh..wh..opq"
	case "whxf":
		return ".wh.xf"
	case "ddsp":
		return ".. "
	case "dots3":
		return "..."
	case "tdot":
		return "nm."
	}
	return c // a, b, d, f, ...
}

func nameStr(segs []string, lead, trail int, guard string) string {
	ls := make([]string, len(segs))
	for i, s := range segs {
		ls[i] = lexeme(s, guard)
	}
	s := strings.Join(ls, "/")
	if lead == 1 {
		s = "/" + s
	}
	if trail == 1 {
		s += "/"
	}
	return s
}

func sha(b []byte) string {
	h := sha256.Sum256(b)
	return "sha256:" + hex.EncodeToString(h[:])
}

func must(err error) {
	if err != nil {
		fmt.Fprintln(os.Stderr, "c20drv:", err)
		os.Exit(3)
	}
}

// ---------------------------------------------------------------- listings

func statLine(p string, fi fs.FileInfo) string {
	st, _ := fi.Sys().(*syscall.Stat_t)
	var ino, nlink uint64
	if st != nil {
		ino, nlink = st.Ino, uint64(st.Nlink)
	}
	tgt := ""
	if fi.Mode()&fs.ModeSymlink != 0 {
		tgt, _ = os.Readlink(p)
	}
	size := fi.Size()
	if fi.IsDir() {
		size = 0
	}
	sum := ""
	if fi.Mode().IsRegular() && size <= 1<<16 && hashed(p) {
		if b, err := os.ReadFile(p); err == nil {
			sum = sha(b)[7:23]
		}
	}
	return fmt.Sprintf("%s|%d|%d|%o|%d|%d|%s|%s", fi.Mode().Type().String(), size, fi.ModTime().UnixNano(), fi.Mode().Perm(), ino, nlink, tgt, sum)
}

// hashed: contents are part of the listing for the guard files (everything of a guard directory that is not the designated
// directory, the source layout or regctl's home) - a modification that keeps size and mtime would still show
func hashed(p string) bool {
	for _, d := range []string{"/out/", "/src/", "/home/", "/tpl/"} {
		if strings.Contains(p, d) {
			return false
		}
	}
	return true
}

func listTree(dir string, into map[string]string) {
	_ = filepath.Walk(dir, func(p string, fi fs.FileInfo, err error) error {
		if err != nil {
			into[p] = "error|" + err.Error()
			return nil
		}
		into[p] = statLine(p, fi)
		return nil
	})
}

func listTop(dir string, into map[string]string) {
	des, err := os.ReadDir(dir)
	if err != nil {
		into[dir] = "error|" + err.Error()
		return
	}
	if fi, err := os.Lstat(dir); err == nil {
		into[dir] = statLine(dir, fi)
	}
	for _, de := range des {
		p := filepath.Join(dir, de.Name())
		if fi, err := os.Lstat(p); err == nil {
			into[p] = statLine(p, fi)
		}
	}
}

func snapshot(root, guard string) map[string]string {
	m := map[string]string{}
	listTop(filepath.Dir(root), m)
	listTop(root, m)
	listTree(guard, m)
	return m
}

func diff(a, b map[string]string) []change {
	out := []change{}
	for p, v := range b {
		if w, ok := a[p]; !ok {
			out = append(out, change{"new", p})
		} else if w != v {
			out = append(out, change{"changed", p})
		}
	}
	for p := range a {
		if _, ok := b[p]; !ok {
			out = append(out, change{"gone", p})
		}
	}
	sort.Slice(out, func(i, j int) bool { return out[i].Path < out[j].Path })
	return out
}

func marker(id int, what string) {
	_ = syscall.Mkdir(fmt.Sprintf("%s/%d/%s", markRoot, id, what), 0)
}

// ---------------------------------------------------------------- tar building (arbitrary names)

type tarEnt struct {
	kind   byte // tar.TypeReg, TypeDir, TypeSymlink, TypeLink
	name   string
	target string
	body   []byte
}

// rawHeader writes a ustar header with the name bytes copied verbatim (NUL bearing or otherwise
// unencodable names; at most 100 bytes).
func rawHeader(w io.Writer, e tarEnt) {
	var h [512]byte
	copy(h[0:100], e.name)
	copy(h[100:108], "0000755\x00")
	copy(h[108:116], "0000000\x00")
	copy(h[116:124], "0000000\x00")
	copy(h[124:136], fmt.Sprintf("%011o\x00", len(e.body)))
	copy(h[136:148], "00000000000\x00")
	copy(h[148:156], "        ")
	h[156] = e.kind
	copy(h[157:257], e.target)
	copy(h[257:263], "ustar\x00")
	copy(h[263:265], "00")
	sum := 0
	for _, c := range h {
		sum += int(c)
	}
	copy(h[148:156], fmt.Sprintf("%06o\x00 ", sum))
	_, _ = w.Write(h[:])
	_, _ = w.Write(e.body)
	if pad := (512 - len(e.body)%512) % 512; pad > 0 {
		_, _ = w.Write(make([]byte, pad))
	}
}

func buildTar(ents []tarEnt) []byte { return buildTarF(ents, "pax", "none") }

// buildTarF writes the entries with the requested header format (pax | gnu | ustar; an entry the format cannot carry
// falls back to PAX, then to hand-written header bytes) and compression (none | gzip).
func buildTarF(ents []tarEnt, hdrFmt, comp string) []byte {
	var buf bytes.Buffer
	formats := []tar.Format{tar.FormatPAX}
	switch hdrFmt {
	case "gnu":
		formats = []tar.Format{tar.FormatGNU, tar.FormatPAX}
	case "ustar":
		formats = []tar.Format{tar.FormatUSTAR, tar.FormatPAX}
	}
	for _, e := range ents {
		var one bytes.Buffer
		var err error
		for _, f := range formats {
			one.Reset()
			tw := tar.NewWriter(&one)
			hdr := &tar.Header{Typeflag: e.kind, Name: e.name, Linkname: e.target, Mode: 0o755, Format: f}
			if e.kind == tar.TypeReg {
				hdr.Size = int64(len(e.body))
				hdr.Mode = 0o644
			}
			err = tw.WriteHeader(hdr)
			if err == nil && e.kind == tar.TypeReg {
				_, err = tw.Write(e.body)
			}
			if err == nil {
				err = tw.Flush()
			}
			if err == nil {
				break
			}
		}
		if err != nil || len(e.name) == 0 {
			// the std writer refuses the name (NUL, empty): write the header bytes by hand
			if len(e.name) <= 100 && len(e.target) <= 100 {
				rawHeader(&buf, e)
			}
			continue
		}
		buf.Write(one.Bytes())
	}
	buf.Write(make([]byte, 1024))
	if comp == "gzip" {
		var z bytes.Buffer
		zw := gzip.NewWriter(&z)
		_, _ = zw.Write(buf.Bytes())
		_ = zw.Close()
		return z.Bytes()
	}
	return buf.Bytes()
}

// the fixed layer archive of artifact scenarios (PathSafe!LayerTar)
func layerTar(hdrFmt, comp string) []byte {
	return buildTarF([]tarEnt{
		{tar.TypeDir, "d/", "", nil},
		{tar.TypeReg, "d/f", "", []byte("layer file")},
		{tar.TypeReg, "victim", "", []byte("OVERWRITTEN BY LAYER")},
		{tar.TypeReg, "pwned.txt", "", []byte("pwned")},
		{tar.TypeReg, "../out2", "", []byte("sibling file")},
		{tar.TypeDir, "../out-evil/", "", nil},
		{tar.TypeReg, "../out-evil/f", "", []byte("file in sibling directory")},
		{tar.TypeReg, "d/../../output.txt", "", []byte("sibling file behind d/..")},
		{tar.TypeReg, "../victim", "", []byte("OVERWRITTEN BY LAYER 2")},
		{tar.TypeReg, ".wh...", "", nil},
	}, hdrFmt, comp)
}

// spelling of the designated directory as handed to the code under test (PathSafe!OutSpellings): the spelled path, the
// working directory the operation runs in ("" = leave), further spellings of the same directory for the declaration
type spelled struct {
	path, cwd string
	extra     []string
}

func spellOut(guard, out, odir string) spelled {
	switch odir {
	case "rel":
		return spelled{path: "out", cwd: guard}
	case "dot":
		return spelled{path: ".", cwd: out}
	case "slash":
		return spelled{path: out + "/"}
	case "vialink":
		// a link of the user's own in a PARENT of the designated directory (the directory itself holds no links)
		must(os.Symlink(".", filepath.Join(guard, "lnk")))
		p := filepath.Join(guard, "lnk", "out")
		return spelled{path: p, extra: []string{p}}
	}
	return spelled{path: out}
}

// ---------------------------------------------------------------- hand-written layouts

type layout struct {
	dir   string
	index v1.Index
}

func newLayout(dir string) *layout {
	must(os.MkdirAll(filepath.Join(dir, "blobs", "sha256"), 0o777))
	must(os.WriteFile(filepath.Join(dir, "oci-layout"), []byte(`{"imageLayoutVersion":"1.0.0"}`), 0o666))
	return &layout{dir: dir, index: v1.Index{Versioned: v1.IndexSchemaVersion, MediaType: mediatype.OCI1ManifestList, Manifests: []descriptor.Descriptor{}}}
}

func openLayout(dir string) *layout {
	l := &layout{dir: dir}
	b, err := os.ReadFile(filepath.Join(dir, "index.json"))
	must(err)
	must(json.Unmarshal(b, &l.index))
	return l
}

func (l *layout) blob(b []byte, mt string) descriptor.Descriptor {
	d := sha(b)
	must(os.WriteFile(filepath.Join(l.dir, "blobs", "sha256", strings.TrimPrefix(d, "sha256:")), b, 0o666))
	return descriptor.Descriptor{MediaType: mt, Digest: digest.Digest(d), Size: int64(len(b))}
}

func (l *layout) jsonBlob(v any, mt string) descriptor.Descriptor {
	b, err := json.Marshal(v)
	must(err)
	return l.blob(b, mt)
}

func (l *layout) tag(d descriptor.Descriptor, tag string) {
	if tag != "" {
		d.Annotations = map[string]string{annotRef: tag}
	}
	l.index.Manifests = append(l.index.Manifests, d)
}

func (l *layout) save() {
	b, err := json.Marshal(l.index)
	must(err)
	must(os.WriteFile(filepath.Join(l.dir, "index.json"), b, 0o666))
}

func copyTree(src, dst string) {
	must(filepath.Walk(src, func(p string, fi fs.FileInfo, err error) error {
		if err != nil {
			return err
		}
		rel, _ := filepath.Rel(src, p)
		t := filepath.Join(dst, rel)
		if fi.IsDir() {
			return os.MkdirAll(t, 0o777)
		}
		b, err := os.ReadFile(p)
		if err != nil {
			return err
		}
		return os.WriteFile(t, b, 0o666)
	}))
}

// template layout: image v1 (config, layer), artifact with subject v1 (fallback referrers tag)
type world struct {
	tpl        string
	cfgD, layD descriptor.Descriptor
	m1D, a1D   descriptor.Descriptor
	m1Raw      []byte
	a1Raw      []byte
	layer      []byte
	exportTar  []byte
	regctl     string
}

func buildTemplate(ctx context.Context, dir string, w *world) {
	rc := regclient.New()
	r := ref.Ref{Scheme: "ocidir", Path: dir, Reference: "ocidir://" + dir}
	w.tpl = dir
	w.layer = buildTar([]tarEnt{{tar.TypeReg, "hello.txt", "", []byte("hello")}})
	conf := []byte(`{"architecture":"amd64","os":"linux","config":{},"rootfs":{"type":"layers","diff_ids":["` + sha(w.layer) + `"]}}`)
	var err error
	w.cfgD, err = rc.BlobPut(ctx, r, descriptor.Descriptor{MediaType: mediatype.OCI1ImageConfig}, bytes.NewReader(conf))
	must(err)
	w.cfgD.MediaType = mediatype.OCI1ImageConfig
	w.layD, err = rc.BlobPut(ctx, r, descriptor.Descriptor{MediaType: mediatype.OCI1Layer}, bytes.NewReader(w.layer))
	must(err)
	w.layD.MediaType = mediatype.OCI1Layer
	m1, err := manifest.New(manifest.WithOrig(v1.Manifest{Versioned: v1.ManifestSchemaVersion, MediaType: mediatype.OCI1Manifest,
		Config: w.cfgD, Layers: []descriptor.Descriptor{w.layD}}))
	must(err)
	must(rc.ManifestPut(ctx, r.SetTag("v1"), m1))
	w.m1D = m1.GetDescriptor()
	w.m1Raw, _ = m1.RawBody()
	empty := []byte("{}")
	eD, err := rc.BlobPut(ctx, r, descriptor.Descriptor{MediaType: mediatype.OCI1Empty}, bytes.NewReader(empty))
	must(err)
	eD.MediaType = mediatype.OCI1Empty
	subj := w.m1D
	subj.Annotations = nil
	a1, err := manifest.New(manifest.WithOrig(v1.Manifest{Versioned: v1.ManifestSchemaVersion, MediaType: mediatype.OCI1Manifest,
		ArtifactType: "application/vnd.verif.c20", Config: eD, Layers: []descriptor.Descriptor{eD}, Subject: &subj}))
	must(err)
	must(rc.ManifestPut(ctx, r.SetDigest(a1.GetDescriptor().Digest.String()), a1))
	w.a1D = a1.GetDescriptor()
	w.a1Raw, _ = a1.RawBody()
	var buf bytes.Buffer
	must(rc.ImageExport(ctx, r.SetTag("v1"), &buf))
	w.exportTar = buf.Bytes()
	must(rc.Close(ctx, r))
}

// ---------------------------------------------------------------- hostile digests and tags

func hostileDigest(c, guard string, validFor string) string {
	switch c {
	case "valid":
		return validFor
	case "absent":
		return sha([]byte("no such blob"))
	case "dd_enc":
		return "sha256:../../../victim"
	case "dd_enc5":
		return "sha256:../../../../../nm"
	case "dd_alg":
		return "../..:victim"
	case "slash":
		return "sha256:nm/nm"
	case "emptyalg":
		return ":" + strings.TrimPrefix(validFor, "sha256:")
	case "absenc":
		return "sha256:" + guard + "/victim"
	case "nocolon":
		return guard + "/victim"
	case "long":
		return "sha256:" + strings.Repeat("a", 300)
	case "nul":
		return "sha256:ab\x00cd"
	case "dotenc":
		return "sha256:.."
	case "v512":
		h := sha512.Sum512([]byte("no such blob"))
		return "sha512:" + hex.EncodeToString(h[:])
	case "shortenc":
		return "sha256:abcd"
	}
	return c
}

func hostileTag(c, guard string) string {
	switch strings.TrimPrefix(c, "tag_") {
	case "valid":
		return "v1"
	case "dd":
		return "../../victim"
	case "slash":
		return "nm/nm"
	case "abs":
		return guard + "/victim"
	case "long":
		return strings.Repeat("t", 300)
	case "empty":
		return ""
	case "colon":
		return "x:../../victim"
	}
	return "v1"
}

// a manifest whose descriptor claims a hostile digest (manifest.New refuses to build one, the
// scheme API takes the interface)
type claimed struct {
	manifest.Manifest
	d descriptor.Descriptor
}

func (c claimed) GetDescriptor() descriptor.Descriptor { return c.d }

// ---------------------------------------------------------------- scenario set-up: returns the operation

type prepared struct {
	cwd   string
	op    func(ctx context.Context) error
	allow []string
	input string
	skip  string
}

func artifactManifest(l *layout, layers []descriptor.Descriptor, subject *descriptor.Descriptor) descriptor.Descriptor {
	eD := l.blob([]byte("{}"), mediatype.OCI1Empty)
	return l.jsonBlob(v1.Manifest{Versioned: v1.ManifestSchemaVersion, MediaType: mediatype.OCI1Manifest,
		ArtifactType: "application/vnd.verif.c20", Config: eD, Layers: layers, Subject: subject}, mediatype.OCI1Manifest)
}

func prepArt(s scn, w *world, guard, out string, sp spelled) prepared {
	src := filepath.Join(guard, "src")
	home := filepath.Join(guard, "home")
	must(os.MkdirAll(home, 0o777))
	l := newLayout(src)
	title := nameStr(s.Segs, s.Lead, s.Trail, guard)
	mt := "application/vnd.oci.image.layer.v1.tar"
	if s.Comp == "gzip" {
		mt += "+gzip"
	}
	lay := l.blob(layerTar(s.Hdr, s.Comp), mt)
	if s.Place == "layerdigest" {
		// no title: the file name comes from the layer digest written in the manifest
		lay.Digest = digest.Digest(hostileDigest(s.H, guard, string(lay.Digest)))
		title = string(lay.Digest)
	}
	lay.Annotations = map[string]string{}
	if !(len(s.Segs) == 0 && s.Lead == 0 && s.Trail == 0) {
		lay.Annotations[annotTitle] = title // the empty name = no title annotation at all
	}
	if s.Unpack == 1 {
		lay.Annotations[annotUnpack] = "true"
	}
	layers := []descriptor.Descriptor{lay}
	if s.Pos == "first" || s.Pos == "second" {
		ok := l.blob([]byte("benign layer"), "application/octet-stream")
		ok.Annotations = map[string]string{annotTitle: "ok"}
		if s.Pos == "first" {
			layers = append(layers, ok)
		} else {
			layers = []descriptor.Descriptor{ok, lay}
		}
	}
	l.tag(artifactManifest(l, layers, nil), "hostile")
	l.save()
	args := []string{"artifact", "get", "--output", sp.path}
	if s.Strip == 1 {
		args = append(args, "--strip-dirs")
	}
	args = append(args, "ocidir://"+src+":hostile")
	dir := guard
	if sp.cwd != "" {
		dir = sp.cwd
	}
	return prepared{allow: []string{out, src}, input: title, op: func(ctx context.Context) error {
		cmd := exec.CommandContext(ctx, w.regctl, args...)
		cmd.Env = []string{"HOME=" + home, "PATH=/usr/bin:/bin", "TMPDIR=" + home}
		cmd.Dir = dir
		var so, se bytes.Buffer
		cmd.Stdout, cmd.Stderr = &so, &se
		err := cmd.Run()
		if err != nil {
			return fmt.Errorf("%w: %s", err, strings.TrimSpace(se.String()))
		}
		return nil
	}}
}

func kindByte(k string) byte {
	switch k {
	case "dir":
		return tar.TypeDir
	case "sym":
		return tar.TypeSymlink
	case "hard":
		return tar.TypeLink
	case "fifo":
		return tar.TypeFifo
	case "chr":
		return tar.TypeChar
	}
	return tar.TypeReg
}

func entsToTar(s scn, guard string) ([]tarEnt, string) {
	tes := []tarEnt{}
	input := ""
	for i, e := range s.Ents {
		lead, trail := 0, 0
		if s.Ep == "tar" && i == len(s.Ents)-1 {
			lead, trail = s.Lead, s.Trail
		}
		te := tarEnt{kind: kindByte(e.K), name: nameStr(e.N, lead, trail, guard)}
		if e.K == "dir" && !strings.HasSuffix(te.name, "/") && s.Ep != "tar" {
			te.name += "/"
		}
		if e.K == "sym" || e.K == "hard" {
			te.target = nameStr(e.T, e.Tl, 0, guard)
		}
		if e.K == "reg" {
			te.body = []byte("WRITTEN BY ARCHIVE ENTRY")
		}
		tes = append(tes, te)
		input += fmt.Sprintf("%s %q -> %q; ", e.K, te.name, te.target)
	}
	return tes, input
}

func prepTar(s scn, w *world, guard, out string, sp spelled) prepared {
	tes, input := entsToTar(s, guard)
	tb := buildTarF(tes, s.Hdr, s.Comp)
	return prepared{allow: []string{out}, cwd: sp.cwd, input: input, op: func(ctx context.Context) error {
		return archive.Extract(ctx, sp.path, bytes.NewReader(tb))
	}}
}

// readTar splits an existing tar into entries
func readTar(b []byte) []tarEnt {
	out := []tarEnt{}
	tr := tar.NewReader(bytes.NewReader(b))
	for {
		h, err := tr.Next()
		if err != nil {
			break
		}
		body, _ := io.ReadAll(tr)
		out = append(out, tarEnt{kind: h.Typeflag, name: h.Name, target: h.Linkname, body: body})
	}
	return out
}

func prepImp(s scn, w *world, guard, out string, sp spelled) prepared {
	name := nameStr(s.Segs, s.Lead, s.Trail, guard)
	base := readTar(w.exportTar)
	var tes []tarEnt
	input := name
	jb := func(v any) []byte { b, _ := json.Marshal(v); return b }
	ociTar := func(index v1.Index, blobs map[string][]byte) []tarEnt {
		t := []tarEnt{{tar.TypeReg, "oci-layout", "", []byte(`{"imageLayoutVersion":"1.0.0"}`)}, {tar.TypeReg, "index.json", "", jb(index)}}
		names := []string{}
		for n := range blobs {
			names = append(names, n)
		}
		sort.Strings(names)
		for _, n := range names {
			t = append(t, tarEnt{tar.TypeReg, n, "", blobs[n]})
		}
		return t
	}
	blobName := func(d string) string {
		if i := strings.Index(d, ":"); i >= 0 {
			return "blobs/" + d[:i] + "/" + d[i+1:]
		}
		return "blobs/" + d
	}
	switch s.Place {
	case "extra_reg", "extra_dir", "extra_sym", "extra_hard":
		k := map[string]byte{"extra_reg": tar.TypeReg, "extra_dir": tar.TypeDir, "extra_sym": tar.TypeSymlink, "extra_hard": tar.TypeLink}[s.Place]
		e := tarEnt{kind: k, name: name}
		if k == tar.TypeReg {
			e.body = []byte("EXTRA ENTRY")
		}
		if k == tar.TypeSymlink || k == tar.TypeLink {
			e.target = "../victim"
		}
		tes = append([]tarEnt{e}, base...)
		tes = append(tes, e)
	case "docker_config", "docker_layer":
		confName, layName := "config.json", "layer.tar"
		if s.Place == "docker_config" {
			confName = name
		} else {
			layName = name
		}
		conf := []byte(`{"architecture":"amd64","os":"linux","config":{},"rootfs":{"type":"layers","diff_ids":["` + sha(w.layer) + `"]}}`)
		mj := jb([]map[string]any{{"Config": confName, "RepoTags": []string{"example.com/x:v1"}, "Layers": []string{layName}}})
		tes = []tarEnt{{tar.TypeReg, "manifest.json", "", mj}, {tar.TypeReg, confName, "", conf}, {tar.TypeReg, layName, "", w.layer}}
	case "oci_blobname":
		// a well formed OCI tar whose blobs are additionally stored under a hostile name below blobs/sha256/
		tes = append(tes, base...)
		tes = append(tes, tarEnt{tar.TypeReg, "blobs/sha256/" + name, "", w.layer}, tarEnt{tar.TypeReg, "blobs/" + name, "", w.layer})
	case "oci_index", "oci_layer", "oci_child":
		h := hostileDigest(s.H, guard, string(w.m1D.Digest))
		input = h
		blobs := map[string][]byte{}
		for _, e := range base {
			if strings.HasPrefix(e.name, "blobs/") && e.kind == tar.TypeReg {
				blobs[e.name] = e.body
			}
		}
		idx := v1.Index{Versioned: v1.IndexSchemaVersion, MediaType: mediatype.OCI1ManifestList}
		switch s.Place {
		case "oci_index":
			blobs[blobName(h)] = w.m1Raw
			idx.Manifests = []descriptor.Descriptor{{MediaType: mediatype.OCI1Manifest, Digest: digest.Digest(h), Size: int64(len(w.m1Raw)), Annotations: map[string]string{annotRef: "v1"}}}
		case "oci_layer":
			m := v1.Manifest{Versioned: v1.ManifestSchemaVersion, MediaType: mediatype.OCI1Manifest, Config: w.cfgD,
				Layers: []descriptor.Descriptor{{MediaType: mediatype.OCI1Layer, Digest: digest.Digest(h), Size: int64(len(w.layer))}}}
			mb := jb(m)
			blobs[blobName(sha(mb))] = mb
			blobs[blobName(h)] = w.layer
			idx.Manifests = []descriptor.Descriptor{{MediaType: mediatype.OCI1Manifest, Digest: digest.Digest(sha(mb)), Size: int64(len(mb)), Annotations: map[string]string{annotRef: "v1"}}}
		case "oci_child":
			ci := v1.Index{Versioned: v1.IndexSchemaVersion, MediaType: mediatype.OCI1ManifestList,
				Manifests: []descriptor.Descriptor{{MediaType: mediatype.OCI1Manifest, Digest: digest.Digest(h), Size: int64(len(w.m1Raw))}}}
			cb := jb(ci)
			blobs[blobName(sha(cb))] = cb
			blobs[blobName(h)] = w.m1Raw
			idx.Manifests = []descriptor.Descriptor{{MediaType: mediatype.OCI1ManifestList, Digest: digest.Digest(sha(cb)), Size: int64(len(cb)), Annotations: map[string]string{annotRef: "v1"}}}
		}
		tes = ociTar(idx, blobs)
	default:
		return prepared{skip: "unknown import placement " + s.Place}
	}
	tb := buildTarF(tes, s.Hdr, s.Comp)
	r := ref.Ref{Scheme: "ocidir", Path: sp.path, Reference: "ocidir://" + sp.path, Tag: "imported"}
	return prepared{allow: []string{out}, cwd: sp.cwd, input: input, op: func(ctx context.Context) error {
		rc := regclient.New()
		err := rc.ImageImport(ctx, r, bytes.NewReader(tb))
		errC := rc.Close(ctx, r)
		if err == nil {
			err = errC
		}
		return err
	}}
}

// poison adds hostile content to a layout (written by hand, set-up phase)
func poison(dir, h string, w *world) {
	l := openLayout(dir)
	hd := digest.Digest(h)
	// tag "poison" -> hostile digest
	l.tag(descriptor.Descriptor{MediaType: mediatype.OCI1Manifest, Digest: hd, Size: int64(len(w.m1Raw))}, "poison")
	// tag "nest" -> index blob listing a child with the hostile digest
	l.tag(l.jsonBlob(v1.Index{Versioned: v1.IndexSchemaVersion, MediaType: mediatype.OCI1ManifestList,
		Manifests: []descriptor.Descriptor{{MediaType: mediatype.OCI1Manifest, Digest: hd, Size: int64(len(w.m1Raw)),
			Platform: &platform.Platform{OS: "linux", Architecture: "amd64"}}}}, mediatype.OCI1ManifestList), "nest")
	// tag "lyr" -> image manifest whose layer and config carry the hostile digest
	l.tag(l.jsonBlob(v1.Manifest{Versioned: v1.ManifestSchemaVersion, MediaType: mediatype.OCI1Manifest,
		Config: w.cfgD, Layers: []descriptor.Descriptor{{MediaType: mediatype.OCI1Layer, Digest: hd, Size: 6}}}, mediatype.OCI1Manifest), "lyr")
	// tag "art" -> artifact whose subject carries the hostile digest
	l.tag(artifactManifest(l, []descriptor.Descriptor{l.blob([]byte("{}"), mediatype.OCI1Empty)},
		&descriptor.Descriptor{MediaType: mediatype.OCI1Manifest, Digest: hd, Size: int64(len(w.m1Raw))}), "art")
	l.save()
}

func prepLay(s scn, w *world, guard, out string, sp spelled) prepared {
	copyTree(w.tpl, out)
	isTag := strings.HasPrefix(s.H, "tag_")
	validFor := string(w.m1D.Digest)
	if strings.HasPrefix(s.Op, "Blob") {
		validFor = string(w.layD.Digest)
	}
	var h string
	if isTag {
		h = hostileTag(s.H, guard)
	} else {
		h = hostileDigest(s.H, guard, validFor)
	}
	r := ref.Ref{Scheme: "ocidir", Path: sp.path, Reference: "ocidir://" + sp.path}
	allow := []string{out}
	rc := regclient.New()
	closeAfter := func(ctx context.Context, err error) error {
		errC := rc.Close(ctx, r)
		if err == nil {
			err = errC
		}
		return err
	}
	var op func(ctx context.Context) error
	switch s.Op {
	case "BlobGet", "BlobHead", "BlobDelete", "BlobPut":
		d := w.layD
		body := w.layer
		if s.Op == "BlobPut" {
			body = []byte(fmt.Sprintf("new blob %d", s.ID))
			d = descriptor.Descriptor{MediaType: mediatype.OCI1Layer, Digest: digest.Digest(sha(body)), Size: int64(len(body))}
		}
		if s.Place == "desc" || s.Place == "both" {
			d.Digest = digest.Digest(h)
		}
		if s.Place == "ref" || s.Place == "both" {
			r.Digest = h
		}
		switch s.Opt {
		case "size_zero":
			d.Size = 0
		case "size_wrong":
			d.Size += 7
		}
		op = func(ctx context.Context) error {
			var err error
			switch s.Op {
			case "BlobGet":
				var rdr io.ReadCloser
				rdr, err = rc.BlobGet(ctx, r, d)
				if err == nil {
					_, _ = io.Copy(io.Discard, rdr)
					_ = rdr.Close()
				}
			case "BlobHead":
				var rdr io.ReadCloser
				rdr, err = rc.BlobHead(ctx, r, d)
				if err == nil {
					_ = rdr.Close()
				}
			case "BlobDelete":
				err = rc.BlobDelete(ctx, r, d)
			case "BlobPut":
				_, err = rc.BlobPut(ctx, r, d, bytes.NewReader(body))
			}
			return closeAfter(ctx, err)
		}
	case "ManifestGet", "ManifestHead":
		opts := []regclient.ManifestOpts{}
		switch s.Place {
		case "ref":
			r.Digest = h
		case "tag":
			r.Tag = h
		case "desc":
			r.Tag = "v1"
			opts = append(opts, regclient.WithManifestDesc(descriptor.Descriptor{MediaType: mediatype.OCI1Manifest, Digest: digest.Digest(h), Size: int64(len(w.m1Raw))}))
		case "index":
			poison(out, h, w)
			r.Tag = "poison"
		case "platform":
			// the tag names a nested index whose only child (linux/amd64) carries the hostile digest
			poison(out, h, w)
			r.Tag = "nest"
			opts = append(opts, regclient.WithManifestPlatform(platform.Platform{OS: "linux", Architecture: "amd64"}))
		}
		op = func(ctx context.Context) error {
			var err error
			if s.Op == "ManifestGet" {
				_, err = rc.ManifestGet(ctx, r, opts...)
			} else {
				_, err = rc.ManifestHead(ctx, r, opts...)
				if s.Place == "desc" && err == nil {
					// ManifestHead ignores the descriptor option; ask for the digest explicitly too
					_, err = rc.ManifestHead(ctx, r.SetDigest(h))
				}
			}
			return closeAfter(ctx, err)
		}
	case "ManifestPut":
		m, err := manifest.New(manifest.WithRaw(w.m1Raw), manifest.WithDesc(descriptor.Descriptor{MediaType: mediatype.OCI1Manifest}))
		must(err)
		opts := []regclient.ManifestOpts{}
		switch s.Place {
		case "ref":
			r.Digest = h
		case "tag":
			r.Tag = h
		case "child":
			r.Digest = h
			opts = append(opts, regclient.WithManifestChild())
		case "desc":
			r.Tag = "claimed"
			m = claimed{Manifest: m, d: descriptor.Descriptor{MediaType: mediatype.OCI1Manifest, Digest: digest.Digest(h), Size: int64(len(w.m1Raw))}}
		case "subject":
			r.Tag = "art2"
			eD := descriptor.Descriptor{MediaType: mediatype.OCI1Empty, Digest: digest.Digest(sha([]byte("{}"))), Size: 2}
			m, err = manifest.New(manifest.WithOrig(v1.Manifest{Versioned: v1.ManifestSchemaVersion, MediaType: mediatype.OCI1Manifest,
				ArtifactType: "application/vnd.verif.c20", Config: eD, Layers: []descriptor.Descriptor{eD},
				Subject: &descriptor.Descriptor{MediaType: mediatype.OCI1Manifest, Digest: digest.Digest(h), Size: int64(len(w.m1Raw))}}))
			must(err)
		}
		op = func(ctx context.Context) error { return closeAfter(ctx, rc.ManifestPut(ctx, r, m, opts...)) }
	case "ManifestDelete":
		if s.Place == "index" {
			poison(out, h, w)
		}
		r.Digest = h
		opts := []regclient.ManifestOpts{}
		switch s.Wm {
		case "plain":
			m, err := manifest.New(manifest.WithRaw(w.m1Raw), manifest.WithDesc(descriptor.Descriptor{MediaType: mediatype.OCI1Manifest}))
			must(err)
			opts = append(opts, regclient.WithManifest(m))
		case "subject":
			m, err := manifest.New(manifest.WithRaw(w.a1Raw), manifest.WithDesc(descriptor.Descriptor{MediaType: mediatype.OCI1Manifest}))
			must(err)
			opts = append(opts, regclient.WithManifest(m))
			if s.H == "valid" {
				r.Digest = string(w.a1D.Digest)
			}
		case "hsubject":
			eD := descriptor.Descriptor{MediaType: mediatype.OCI1Empty, Digest: digest.Digest(sha([]byte("{}"))), Size: 2}
			m, err := manifest.New(manifest.WithOrig(v1.Manifest{Versioned: v1.ManifestSchemaVersion, MediaType: mediatype.OCI1Manifest,
				ArtifactType: "application/vnd.verif.c20", Config: eD, Layers: []descriptor.Descriptor{eD},
				Subject: &descriptor.Descriptor{MediaType: mediatype.OCI1Manifest, Digest: digest.Digest(h), Size: int64(len(w.m1Raw))}}))
			must(err)
			opts = append(opts, regclient.WithManifest(m))
		}
		if s.Chk == 1 {
			opts = append(opts, regclient.WithManifestCheckReferrers())
		}
		op = func(ctx context.Context) error { return closeAfter(ctx, rc.ManifestDelete(ctx, r, opts...)) }
	case "TagDelete":
		r.Tag = h
		op = func(ctx context.Context) error { return closeAfter(ctx, rc.TagDelete(ctx, r)) }
	case "TagList":
		r.Tag = h
		op = func(ctx context.Context) error { _, err := rc.TagList(ctx, r); return closeAfter(ctx, err) }
	case "ReferrerList":
		if s.Place == "index" {
			poison(out, h, w)
			r.Tag = "poison"
		} else {
			r.Digest = h
		}
		ropts := []scheme.ReferrerOpts{}
		if s.Place == "extsrc" {
			// referrers are looked up in another layout (declared scratch)
			src := filepath.Join(guard, "src")
			copyTree(w.tpl, src)
			allow = append(allow, src)
			ropts = append(ropts, scheme.WithReferrerSource(ref.Ref{Scheme: "ocidir", Path: src, Reference: "ocidir://" + src}))
		}
		op = func(ctx context.Context) error {
			_, err := rc.ReferrerList(ctx, r, ropts...)
			return closeAfter(ctx, err)
		}
	case "Close":
		poison(out, h, w)
		body := []byte(fmt.Sprintf("unreferenced blob %d", s.ID))
		op = func(ctx context.Context) error {
			// modify the layout so that Close runs the garbage collection over the poisoned content
			_, err := rc.BlobPut(ctx, r, descriptor.Descriptor{}, bytes.NewReader(body))
			if err != nil {
				return err
			}
			tag := map[string]string{"index": "poison", "nested": "nest", "layer": "lyr"}[s.Place]
			_, _ = rc.ManifestHead(ctx, r.SetTag(tag))
			return rc.Close(ctx, r)
		}
	case "ImageCopy":
		src := filepath.Join(guard, "src")
		copyTree(w.tpl, src)
		allow = append(allow, src)
		rs := ref.Ref{Scheme: "ocidir", Path: src, Reference: "ocidir://" + src, Tag: "v1"}
		rt := r.SetTag("copy")
		opts := []regclient.ImageOpts{}
		switch s.Opt {
		case "referrers":
			opts = append(opts, regclient.ImageWithReferrers())
		case "digesttags":
			opts = append(opts, regclient.ImageWithDigestTags())
		case "force":
			opts = append(opts, regclient.ImageWithForceRecursive())
		}
		switch s.Place {
		case "srcindex":
			poison(src, h, w)
			rs.Tag = "poison"
		case "srcchild":
			poison(src, h, w)
			rs.Tag = "nest"
		case "srclayer":
			poison(src, h, w)
			rs.Tag = "lyr"
		case "srcsubject":
			poison(src, h, w)
			rs.Tag = "art"
			opts = append(opts, regclient.ImageWithReferrers())
		case "tgtref":
			rt = r
			rt.Digest = h
		case "tgttag":
			rt = r
			rt.Tag = h
		}
		op = func(ctx context.Context) error {
			err := rc.ImageCopy(ctx, rs, rt, opts...)
			errS := rc.Close(ctx, rs)
			err2 := closeAfter(ctx, err)
			if err2 == nil {
				err2 = errS
			}
			return err2
		}
	default:
		return prepared{skip: "unknown layout op " + s.Op}
	}
	return prepared{op: op, cwd: sp.cwd, allow: allow, input: h}
}

func runScenario(ctx context.Context, s scn, w *world, root string, emit func(fact)) fact {
	// an earlier operation may have removed the driver's own tree (a recorded, judged fact of THAT scenario): rebuild
	must(os.MkdirAll(root, 0o777))
	if _, err := os.Stat(filepath.Join(w.tpl, "index.json")); err != nil {
		_ = os.RemoveAll(w.tpl)
		buildTemplate(ctx, w.tpl, w)
	}
	guard := filepath.Join(root, fmt.Sprintf("g%d", s.ID))
	must(os.Mkdir(guard, 0o777)) // start marker of the scenario
	out := filepath.Join(guard, "out")
	must(os.Mkdir(out, 0o777))
	must(os.WriteFile(filepath.Join(out, "xf"), []byte("existing file"), 0o666))
	must(os.Mkdir(filepath.Join(out, "xd"), 0o777))
	victim := filepath.Join(guard, "victim")
	vbytes := []byte(fmt.Sprintf("VICTIM %d", s.ID))
	must(os.WriteFile(victim, vbytes, 0o666))
	// guard files and directories next to the designated directory: removal and modification are audited like creation
	must(os.WriteFile(filepath.Join(guard, "neighbour.txt"), []byte("NEIGHBOUR"), 0o666))
	must(os.MkdirAll(filepath.Join(guard, "sibdir", "deep"), 0o777))
	must(os.WriteFile(filepath.Join(guard, "sibdir", "keep.txt"), []byte("KEEP"), 0o666))
	must(os.WriteFile(filepath.Join(guard, "sibdir", "deep", "keep2.txt"), []byte("KEEP2"), 0o666))
	above := filepath.Join(root, "above.txt")
	if _, err := os.Lstat(above); err != nil {
		must(os.WriteFile(above, []byte("ABOVE"), 0o666))
	}
	// a second victim far above the designated directory (five levels above out/blobs/sha256), re-created when missing
	far := filepath.Join(filepath.Dir(root), "nm")
	if _, err := os.Lstat(far); err != nil {
		must(os.WriteFile(far, []byte("FAR VICTIM"), 0o666))
	}
	var p prepared
	sp := spellOut(guard, out, s.Odir)
	switch s.Ep {
	case "art":
		p = prepArt(s, w, guard, out, sp)
	case "tar", "lnk":
		p = prepTar(s, w, guard, out, sp)
	case "imp":
		p = prepImp(s, w, guard, out, sp)
	case "lay":
		p = prepLay(s, w, guard, out, sp)
	default:
		p = prepared{skip: "unknown entry point " + s.Ep}
	}
	p.allow = append(p.allow, sp.extra...)
	f := fact{ID: s.ID, Guard: guard, Out: out, Allow: p.allow, Input: hex.EncodeToString([]byte(p.input)), Victim: 1, Changes: []change{}}
	if p.skip != "" || p.op == nil {
		f.Skipped = p.skip
		f.Allow = []string{out}
		return f
	}
	vfi, err := os.Lstat(victim)
	must(err)
	vline := statLine(victim, vfi)
	before := snapshot(root, guard)
	pre := f
	pre.Pre = 1
	emit(pre)
	if p.cwd != "" {
		must(os.Chdir(p.cwd))
	}
	marker(s.ID, "op-begin")
	func() {
		defer func() {
			if r := recover(); r != nil {
				f.Panicked = 1
				f.Err = fmt.Sprintf("panic: %v", r)
			}
		}()
		cctx, cancel := context.WithTimeout(ctx, 60*time.Second)
		defer cancel()
		if err := p.op(cctx); err != nil {
			f.Err = err.Error()
		}
	}()
	marker(s.ID, "op-end")
	if p.cwd != "" {
		must(os.Chdir("/"))
	}
	after := snapshot(root, guard)
	f.Changes = diff(before, after)
	if b, err := os.ReadFile(victim); err != nil || !bytes.Equal(b, vbytes) {
		f.Victim = 0
	} else if fi, err := os.Lstat(victim); err != nil || statLine(victim, fi) != vline {
		f.Victim = 0
	}
	if len(f.Err) > 300 {
		f.Err = f.Err[:300]
	}
	return f
}

func main() {
	in := flag.String("in", "", "scenarios (JSON lines)")
	outF := flag.String("out", "", "facts (JSON lines)")
	root := flag.String("root", "", "scratch root of this driver (one guard directory per scenario is created below it)")
	regctl := flag.String("regctl", "", "path of the regctl binary")
	flag.Parse()
	if *in == "" || *outF == "" || *root == "" {
		must(fmt.Errorf("usage: c20drv -in f -out f -root dir -regctl bin"))
	}
	ctx := context.Background()
	must(os.MkdirAll(*root, 0o777))
	w := &world{regctl: *regctl}
	buildTemplate(ctx, filepath.Join(*root, "tpl"), w)
	of, err := os.Create(*outF)
	must(err)
	bw := bufio.NewWriter(of)
	n := 0
	must(vtrace.ReadLines(*in, func(line []byte) error {
		var s scn
		if err := json.Unmarshal(line, &s); err != nil {
			return err
		}
		var werr error
		emit := func(f fact) {
			b, err := json.Marshal(f)
			if err == nil {
				_, err = bw.Write(append(b, '\n'))
			}
			if err == nil {
				err = bw.Flush()
			}
			if err != nil {
				werr = err
			}
		}
		emit(runScenario(ctx, s, w, *root, emit))
		n++
		return werr
	}))
	must(bw.Flush())
	must(of.Close())
	fmt.Printf("{\"scenarios\": %d}\n", n)
}

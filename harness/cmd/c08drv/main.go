// c08drv executes TLC-generated histories (spec/LayoutGCGen.tla) on the real regclient: image
// copies from a gated model registry (simreg) into one OCI layout directory, closes, deletes and
// pushes, all through ONE regclient.RegClient.  The driver only records: at every quiescent point
// it audits the directory independently (audit.go) and logs flat facts; the verdict is TLC's
// (spec/LayoutGCTrace.tla).
//
// How a schedule is imposed: every request a copy sends to the source passes Host.Intercept and
// is held until the scheduler releases it (each copy reads from its own source repository, so a
// request names its copy).  After every scheduler action the process is run to quiescence: the
// scheduler waits until every other goroutine is blocked on a channel / select / mutex (goroutine
// dump, runtime.Stack) -- only then are the directory audited and rc.Close called, so an audit
// never races with a writer.  A step whose request is not pending is skipped and counted as
// drift; whatever is left is released in arrival order at the end.
package main

import (
	"bytes"
	"context"
	"encoding/json"
	"errors"
	"flag"
	"fmt"
	"log/slog"
	"net/http"
	"os"
	"path/filepath"
	"reflect"
	"runtime"
	"sort"
	"strings"
	"sync"
	"time"
	"unsafe"

	"github.com/regclient/regclient"
	"github.com/regclient/regclient/config"
	"github.com/regclient/regclient/scheme"
	"github.com/regclient/regclient/scheme/ocidir"
	"github.com/regclient/regclient/scheme/reg"
	"github.com/regclient/regclient/types/descriptor"
	"github.com/regclient/regclient/types/manifest"
	"github.com/regclient/regclient/types/ref"
	"github.com/regclient/regclient/zzverif/simreg"
	"github.com/regclient/regclient/zzverif/vtrace"

	digest "github.com/opencontainers/go-digest"
)

const srcHost = "src.test"

type copyConf struct {
	Root string   `json:"root"`
	Tag  string   `json:"tag"`
	Skip []string `json:"skip"`
	Refs bool     `json:"refs"`
	Key  string   `json:"key"`
	// RT: ImageWithReferrerTgt -- the image itself goes to another layout (<work>/other, not
	// audited), its referrers are written to the audited layout (driver-only class "reftgt")
	RT bool `json:"rt,omitempty"`
	// RK: ImageWithReferrerTgt names the target layout itself, spelled RK ("" = option not given)
	RK string `json:"rk,omitempty"`
	// RSrc: ImageWithReferrerSrc(another repository of the source registry with the same content)
	RSrc bool `json:"rsrc,omitempty"`
}

type conf struct {
	CP     map[string]copyConf `json:"cp"`
	GC     bool                `json:"gc"`
	Pre    [][]string          `json:"pre"`
	Plant  []string            `json:"plant"`
	CKeys  []string            `json:"ckeys"`
	OKey   string              `json:"okey"`
	Faults bool                `json:"faults"`
	Fresh  bool                `json:"fresh"` // the layout directory does not exist when the history starts
}

type step struct {
	A string     `json:"a"`
	C string     `json:"c"`
	N string     `json:"n"`
	T string     `json:"t"`
	F []string   `json:"f"`
	X [][]string `json:"x"`
}

type scenario struct {
	ID    string `json:"id"`
	Conf  conf   `json:"conf"`
	Steps []step `json:"steps"`
	Fin   struct {
		F []string   `json:"f"`
		X [][]string `json:"x"`
	} `json:"fin"`
	// "" = gated schedule from (D); "free" = gated schedule not generated from (D) (no predicted
	// states to compare with); "stress" = ungated concurrent run
	Mode string `json:"mode,omitempty"`
}

type pend struct {
	rq   *simreg.Request
	copy string
	ch   chan *simreg.Reply
}

type world struct {
	sc    *scenario
	cat   *catalog
	net   *simreg.Net
	rc    *regclient.RegClient
	dir   string // the layout directory (real path); audits read it directly
	link  string // the same directory reached through a symbolic link
	ctx   context.Context
	trace *vtrace.Trace

	mu      sync.Mutex
	pending []*pend
	open    bool // gate open: requests pass without being held
	done    map[string]*copyRes
	started map[string]bool
	ended   map[string]bool
	cancels map[string]context.CancelFunc
	// context of the API calls other than copies and closes; a close of kind "late" takes it over
	opCtx      context.Context
	opCancel   context.CancelFunc
	nabort     int
	nclose     int
	hook       *gcHook  // log handler that can hold a Close (hold.go)
	called     []string // copies called during a close and not yet logged as in progress
	heldCloses int
	opsRun     []*opRes

	drift     []string
	adapted   int
	exact     int
	scheduled int
	failed    string
}

type copyRes struct {
	err error
}

// an API call made by the scheduler on behalf of "another goroutine of the program": it may block
// (a BlobPut waits for the put throttle while three blob copies wait for the source), so it runs
// in its own goroutine and is logged once it has returned
type opRes struct {
	op, d string
	err   error
	bad   bool // the call was expected to fail and did not
	done  bool
}

// journal receives every event of the scenario that is running as soon as it is recorded, so that
// the events recorded before a death of the process (a panic or a fatal error inside the code under
// test, an out of memory kill) can still be judged by (P)
var journal *os.File

func (w *world) emit(ev vtrace.Event) {
	w.trace.Events = append(w.trace.Events, ev)
	if journal != nil {
		if b, err := json.Marshal(ev); err == nil {
			_, _ = journal.Write(append(b, '\n'))
		}
	}
}

// ---------------------------------------------------------------------------
// quiescence
// ---------------------------------------------------------------------------

var blockedStates = map[string]bool{
	"chan receive": true, "chan send": true, "select": true, "semacquire": true,
	"sync.Mutex.Lock": true, "sync.RWMutex.RLock": true, "sync.RWMutex.Lock": true,
	"sync.Cond.Wait": true, "sync.WaitGroup.Wait": true, "select (no cases)": true,
	"chan receive (nil chan)": true, "chan send (nil chan)": true,
}

var stackBuf = make([]byte, 4<<20)

// quiescentNow reports whether every goroutine other than the caller is blocked on a
// synchronisation object.  A goroutine whose innermost frame is reghttp's own select (the retry
// back-off waits on a timer there) or that sleeps does not count as blocked.
func quiescentNow() (bool, string) {
	n := runtime.Stack(stackBuf, true)
	for i, g := range strings.Split(string(stackBuf[:n]), "\n\n") {
		if i == 0 {
			continue // the caller
		}
		nl := strings.IndexByte(g, '\n')
		head := g
		if nl >= 0 {
			head = g[:nl]
		}
		a, b := strings.IndexByte(head, '['), strings.LastIndexByte(head, ']')
		if a < 0 || b < a {
			continue
		}
		st := head[a+1 : b]
		if j := strings.IndexByte(st, ','); j >= 0 {
			st = st[:j]
		}
		if !blockedStates[st] {
			if len(g) > 900 {
				g = g[:900]
			}
			return false, g
		}
		if nl >= 0 && strings.HasPrefix(g[nl+1:], "github.com/regclient/regclient/internal/reghttp.") {
			return false, head + " (waits inside reghttp: back-off)"
		}
		if strings.Contains(g, "time.Sleep") {
			return false, head + " (sleeping)"
		}
	}
	return true, ""
}

var errStall = errors.New("process did not become quiescent")

func (w *world) quiesce() error {
	deadline := time.Now().Add(30 * time.Second)
	for i := 0; ; i++ {
		runtime.Gosched()
		ok, why := quiescentNow()
		if ok {
			return nil
		}
		if time.Now().After(deadline) {
			return fmt.Errorf("%w: %s", errStall, why)
		}
		if i > 50 {
			time.Sleep(20 * time.Microsecond)
		}
	}
}

// ---------------------------------------------------------------------------
// the gate
// ---------------------------------------------------------------------------

func (w *world) intercept(rq *simreg.Request) *simreg.Reply {
	w.mu.Lock()
	if w.open || rq.Repo == "pre" || rq.Class == "ping" {
		w.mu.Unlock()
		return nil
	}
	// "rs-<copy>" is the separate repository the referrers of a copy are read from (ImageWithReferrerSrc)
	p := &pend{rq: rq, copy: strings.TrimPrefix(rq.Repo, "rs-"), ch: make(chan *simreg.Reply, 1)}
	w.pending = append(w.pending, p)
	w.mu.Unlock()
	select {
	case rp := <-p.ch:
		return rp
	case <-rq.Ctx.Done():
		w.mu.Lock()
		for i, q := range w.pending {
			if q == p {
				w.pending = append(w.pending[:i], w.pending[i+1:]...)
				break
			}
		}
		w.mu.Unlock()
		return nil
	}
}

func (w *world) take(match func(p *pend) bool) *pend {
	w.mu.Lock()
	defer w.mu.Unlock()
	for i, p := range w.pending {
		if match(p) {
			w.pending = append(w.pending[:i], w.pending[i+1:]...)
			return p
		}
	}
	return nil
}

func notFound() *simreg.Reply {
	return &simreg.Reply{Status: http.StatusNotFound, Header: http.Header{"Content-Type": {"application/json"}},
		Body: []byte(`{"errors":[{"code":"BLOB_UNKNOWN","message":"injected"}]}`)}
}

// ---------------------------------------------------------------------------
// world setup
// ---------------------------------------------------------------------------

func (w *world) loadRepo(h *simreg.Host, repo string) {
	names := []string{}
	for n := range w.cat.nodes {
		names = append(names, n)
	}
	sort.Strings(names)
	for _, n := range names {
		nd := w.cat.nodes[n]
		if !nd.Manifest {
			alg := nd.Alg
			if alg == "" {
				alg = "sha256"
			}
			if d := h.PutBlobAlg(repo, alg, nd.Body); d != nd.Digest {
				panic("simreg digest differs for " + n)
			}
		}
	}
	for _, n := range asBlob {
		if d := h.PutBlob(repo, w.cat.nodes[n].Body); d != w.cat.nodes[n].Digest {
			panic("simreg digest differs for " + n)
		}
	}
	for _, n := range names {
		nd := w.cat.nodes[n]
		if nd.Manifest {
			tag := ""
			for _, r := range roots {
				if r == n {
					tag = strings.ToLower(n)
				}
			}
			if d := h.PutManifest(repo, tag, nd.MT, nd.Body); d != nd.Digest {
				panic("simreg digest differs for " + n)
			}
		}
	}
}

func newClient(net *simreg.Net, gc bool, hook *gcHook) (*regclient.RegClient, error) {
	opts := []regclient.Opt{}
	if hook != nil {
		opts = append(opts, regclient.WithSlog(slog.New(hook)))
	}
	rc := regclient.New(append(opts,
		regclient.WithConfigHost(config.Host{Name: srcHost, Hostname: srcHost, TLS: config.TLSDisabled, ReqConcurrent: 32}),
		regclient.WithRegOpts(reg.WithHTTPClient(&http.Client{Transport: net}), reg.WithDelay(time.Millisecond, 5*time.Millisecond)),
	)...)
	if !gc {
		// regclient.New has no option that reaches ocidir.WithGC: replace the scheme instance of
		// this client (unexported map) by one created with ocidir.WithGC(false)
		f := reflect.ValueOf(rc).Elem().FieldByName("schemes")
		if !f.IsValid() || f.Kind() != reflect.Map {
			return nil, errors.New("RegClient.schemes not found: cannot disable GC")
		}
		m := reflect.NewAt(f.Type(), unsafe.Pointer(f.UnsafeAddr())).Elem()
		var api scheme.API = ocidir.New(ocidir.WithGC(false))
		m.SetMapIndex(reflect.ValueOf("ocidir"), reflect.ValueOf(&api).Elem())
	}
	return rc, nil
}

func (w *world) tgtRef(key, tag, dig string) (ref.Ref, error) {
	p := w.dir
	switch key {
	case "p":
	case "p/":
		p += "/"
	case "l":
		p = w.link
	case "r":
		// relative to the working directory of the process
		wd, err := os.Getwd()
		if err != nil {
			return ref.Ref{}, err
		}
		rel, err := filepath.Rel(wd, w.dir)
		if err != nil {
			return ref.Ref{}, err
		}
		p = rel
	default:
		return ref.Ref{}, fmt.Errorf("unknown key %q", key)
	}
	s := "ocidir://" + p
	if tag != "" {
		s += ":" + tag
	}
	if dig != "" {
		s += "@" + dig
	}
	return ref.New(s)
}

func (w *world) realTag(t string) string {
	if t == "fb-M1" {
		return w.cat.fallbackTag()
	}
	return t
}

func (w *world) setup(work string) error {
	w.cat = newCatalog()
	w.net = simreg.NewNet()
	h := w.net.AddHost(srcHost, simreg.DefaultFeatures())
	for c, cc := range w.sc.Conf.CP {
		w.loadRepo(h, c)
		if cc.RSrc {
			w.loadRepo(h, "rs-"+c)
		}
	}
	w.loadRepo(h, "pre")
	h.Intercept = w.intercept
	// <work>/real/lay is the layout, <work>/link -> real is part of the environment
	real := filepath.Join(work, "real")
	if err := os.MkdirAll(real, 0o777); err != nil {
		return err
	}
	if err := os.Symlink("real", filepath.Join(work, "link")); err != nil {
		return err
	}
	w.dir = filepath.Join(real, "lay")
	w.link = filepath.Join(work, "link", "lay")
	if !w.sc.Conf.Fresh {
		if err := os.MkdirAll(w.dir, 0o777); err != nil {
			return err
		}
	} else if len(w.sc.Conf.Pre) > 0 || len(w.sc.Conf.Plant) > 0 {
		return errors.New("scenario: a fresh layout cannot have earlier content")
	}
	w.ctx = context.Background()
	w.opCtx, w.opCancel = context.WithCancel(w.ctx)
	// content the layout held before this process: copied by another client instance
	if len(w.sc.Conf.Pre) > 0 {
		pre, err := newClient(w.net, true, nil)
		if err != nil {
			return err
		}
		for _, p := range w.sc.Conf.Pre {
			src, err := ref.New(srcHost + "/pre:" + strings.ToLower(p[0]))
			if err != nil {
				return err
			}
			tgt, err := w.tgtRef("p", p[1], "")
			if err != nil {
				return err
			}
			if err := pre.ImageCopy(w.ctx, src, tgt); err != nil {
				return fmt.Errorf("preload %v: %w", p, err)
			}
		}
	}
	// temp files left behind by a process that died: one blob temp file, one manifest temp file
	for _, pl := range w.sc.Conf.Plant {
		d := filepath.Join(w.dir, "blobs", "sha256")
		if err := os.MkdirAll(d, 0o777); err != nil {
			return err
		}
		name := "4242424242.tmp"
		if pl == "tmp-plant-man" {
			name = strings.TrimPrefix(w.cat.nodes["M3"].Digest, "sha256:") + ".1717171717.tmp"
		}
		if err := os.WriteFile(filepath.Join(d, name), []byte("partial"), 0o666); err != nil {
			return err
		}
	}
	w.hook = newHook()
	rc, err := newClient(w.net, w.sc.Conf.GC, w.hook)
	if err != nil {
		return err
	}
	w.rc = rc
	w.done = map[string]*copyRes{}
	w.started = map[string]bool{}
	w.ended = map[string]bool{}
	w.cancels = map[string]context.CancelFunc{}
	return nil
}

// ---------------------------------------------------------------------------
// scheduler actions
// ---------------------------------------------------------------------------

func b2i(b bool) int {
	if b {
		return 1
	}
	return 0
}

func (w *world) startCopy(c string) error { return w.startCopyEv(c, "copy_begin") }

// startCopyEv calls ImageCopy in a goroutine of its own; ev is how the call is logged: copy_begin,
// or copy_call when a Close has not returned yet (hold.go)
func (w *world) startCopyEv(c, evName string) error {
	cc, ok := w.sc.Conf.CP[c]
	if !ok {
		return fmt.Errorf("unknown copy %q", c)
	}
	src, err := ref.New(srcHost + "/" + c + ":" + strings.ToLower(cc.Root))
	if err != nil {
		return err
	}
	tgt, err := w.tgtRef(cc.Key, cc.Tag, "")
	if err != nil {
		return err
	}
	opts := []regclient.ImageOpts{}
	if len(cc.Skip) > 0 {
		keep := []string{}
		for _, k := range w.cat.nodes[cc.Root].Kids {
			skip := false
			for _, s := range cc.Skip {
				skip = skip || s == k
			}
			if !skip && w.cat.nodes[k].Platform != "" {
				keep = append(keep, w.cat.nodes[k].Platform)
			}
		}
		opts = append(opts, regclient.ImageWithPlatforms(keep))
	}
	if cc.Refs {
		opts = append(opts, regclient.ImageWithReferrers())
	}
	if cc.RT {
		rt := tgt
		tgt, err = ref.New("ocidir://" + filepath.Join(filepath.Dir(filepath.Dir(w.dir)), "other") + ":" + cc.Tag)
		if err != nil {
			return err
		}
		opts = append(opts, regclient.ImageWithReferrerTgt(rt))
	}
	if cc.RK != "" {
		rt, err := w.tgtRef(cc.RK, cc.Tag, "")
		if err != nil {
			return err
		}
		opts = append(opts, regclient.ImageWithReferrerTgt(rt))
	}
	if cc.RSrc {
		rs, err := ref.New(srcHost + "/rs-" + c + ":" + strings.ToLower(cc.Root))
		if err != nil {
			return err
		}
		opts = append(opts, regclient.ImageWithReferrerSrc(rs))
	}
	ctx, cancel := context.WithCancel(w.ctx)
	w.cancels[c] = cancel
	w.emit(vtrace.Event{"ev": evName, "c": c})
	w.started[c] = true
	go func() {
		err := w.rc.ImageCopy(ctx, src, tgt, opts...)
		w.mu.Lock()
		w.done[c] = &copyRes{err: err}
		w.mu.Unlock()
	}()
	return nil
}

// reap logs the end of every copy that has returned (called at quiescent points only).
func (w *world) reap() {
	w.mu.Lock()
	cs := []string{}
	for c := range w.done {
		if !w.ended[c] {
			cs = append(cs, c)
		}
	}
	sort.Strings(cs)
	res := map[string]error{}
	for _, c := range cs {
		res[c] = w.done[c].err
		w.ended[c] = true
	}
	w.mu.Unlock()
	var files []string
	if len(cs) > 0 {
		files = w.snap().Files
	}
	for _, c := range cs {
		ev := vtrace.Event{"ev": "copy_end", "c": c, "ok": b2i(res[c] == nil), "files": files}
		if res[c] != nil {
			ev["err"] = clip(res[c].Error())
		}
		w.emit(ev)
	}
}

func clip(s string) string {
	if len(s) > 200 {
		return s[:200]
	}
	return s
}

func (w *world) addSnap(ev vtrace.Event, pfx string, s *snapshot, graph bool) {
	ev[pfx+"files"] = s.Files
	ev[pfx+"other"] = s.Other
	if graph {
		ev["idx"] = s.Idx
		ev["tags"] = s.Tags
		ev["ep"] = s.EP
		ev["ec"] = s.EC
		ev["ek"] = s.EK
		ev["noidx"] = b2i(s.NoIdx)
	}
}

// closeCtx builds the context rc.Close is called with.  "late": the context the API calls before
// this close were made with, cancelled now (a command that timed out and runs its deferred Close).
func (w *world) closeCtx(kind string) (context.Context, context.CancelFunc, error) {
	switch kind {
	case "", "bg":
		return w.ctx, func() {}, nil
	case "cancelled":
		ctx, cancel := context.WithCancel(w.ctx)
		cancel()
		return ctx, cancel, nil
	case "expired":
		ctx, cancel := context.WithDeadline(w.ctx, time.Now().Add(-time.Hour))
		return ctx, cancel, nil
	case "late":
		ctx := w.opCtx
		w.opCancel()
		w.opCtx, w.opCancel = context.WithCancel(w.ctx)
		return ctx, func() {}, nil
	}
	return nil, nil, fmt.Errorf("unknown context kind %q", kind)
}

func (w *world) doClose(key, kind string) error {
	// the reference given to Close names the layout; its tag / digest part must not matter
	w.nclose++
	tag, dig := "", ""
	switch w.nclose % 3 {
	case 1:
		tag = "t1"
	case 2:
		dig = w.cat.nodes["M1"].Digest
	}
	r, err := w.tgtRef(key, tag, dig)
	if err != nil {
		return err
	}
	ctx, cancel, err := w.closeCtx(kind)
	if err != nil {
		return err
	}
	defer cancel()
	before := w.snap()
	cerr := w.rc.Close(ctx, r)
	// Close runs synchronously in this goroutine and everything else is blocked
	after := w.snap()
	ev := vtrace.Event{"ev": "close", "key": key, "ctx": kind, "err": b2i(cerr != nil)}
	if cerr != nil {
		ev["errmsg"] = clip(cerr.Error())
	}
	w.addSnap(ev, "b_", before, true)
	w.addSnap(ev, "a_", after, false)
	w.emit(ev)
	return nil
}

func (w *world) async(op, d string, wantErr bool, f func() error) {
	o := &opRes{op: op, d: d}
	w.mu.Lock()
	w.opsRun = append(w.opsRun, o)
	w.mu.Unlock()
	go func() {
		err := f()
		w.mu.Lock()
		if wantErr {
			o.bad = err == nil
		} else {
			o.err = err
		}
		o.done = true
		w.mu.Unlock()
	}()
}

// reapOps logs the calls that have returned, in the order they were made; it reports how many
// are still blocked.
func (w *world) reapOps() (int, error) {
	w.mu.Lock()
	defer w.mu.Unlock()
	left := []*opRes{}
	for _, o := range w.opsRun {
		if !o.done {
			left = append(left, o)
			continue
		}
		if o.bad {
			return 0, fmt.Errorf("%s was expected to fail and succeeded", o.op)
		}
		ev := vtrace.Event{"ev": "op", "op": o.op, "d": o.d, "ok": b2i(o.err == nil)}
		if o.err != nil {
			ev["err"] = clip(o.err.Error())
		}
		w.emit(ev)
	}
	w.opsRun = left
	return len(left), nil
}

func (w *world) doOp(st step) error {
	key := w.sc.Conf.OKey
	ctx := w.opCtx
	switch st.A {
	case "TagDelete":
		r, err := w.tgtRef(key, w.realTag(st.N), "")
		if err != nil {
			return err
		}
		w.async("tag_delete", st.N, false, func() error { return w.rc.TagDelete(ctx, r) })
	case "ManifestDelete":
		nd := w.cat.nodes[st.N]
		if nd == nil {
			return fmt.Errorf("ManifestDelete of %q: not a catalogue node", st.N)
		}
		r, err := w.tgtRef(key, "", nd.Digest)
		if err != nil {
			return err
		}
		w.async("manifest_delete", w.cat.abbr(nd.Digest), false, func() error { return w.rc.ManifestDelete(ctx, r) })
	case "Retag":
		// a copy inside the layout (same repository): only the manifest is pushed under the new tag
		src, err := w.tgtRef(key, w.realTag(st.N), "")
		if err != nil {
			return err
		}
		tgt, err := w.tgtRef(key, w.realTag(st.T), "")
		if err != nil {
			return err
		}
		w.async("retag", st.T, false, func() error { return w.rc.ImageCopy(ctx, src, tgt) })
	case "PushBlob":
		nd := w.cat.nodes[st.N]
		r, err := w.tgtRef(key, "", "")
		if err != nil {
			return err
		}
		w.async("push_blob", w.cat.abbr(nd.Digest), false, func() error {
			_, err := w.rc.BlobPut(ctx, r, descriptor.Descriptor{Digest: digest.Digest(nd.Digest), Size: int64(len(nd.Body))}, bytes.NewReader(nd.Body))
			return err
		})
	case "PushBlobBad":
		// the content does not have the announced digest: BlobPut fails after writing its temp file
		nd := w.cat.nodes["L3"]
		r, err := w.tgtRef(key, "", "")
		if err != nil {
			return err
		}
		body := []byte("not the announced content")
		w.async("push_blob_bad", "", true, func() error {
			_, err := w.rc.BlobPut(ctx, r, descriptor.Descriptor{Digest: digest.Digest(nd.Digest), Size: int64(len(body))}, bytes.NewReader(body))
			return err
		})
	case "PushManifest":
		nd := w.cat.nodes[st.N]
		m, err := manifest.New(manifest.WithRaw(nd.Body), manifest.WithDesc(descriptor.Descriptor{
			MediaType: nd.MT, Digest: digest.Digest(nd.Digest), Size: int64(len(nd.Body))}))
		if err != nil {
			return fmt.Errorf("manifest.New(%s): %w", st.N, err)
		}
		var r ref.Ref
		opts := []regclient.ManifestOpts{}
		switch st.T {
		case "":
			r, err = w.tgtRef(key, "", nd.Digest)
		case "child":
			r, err = w.tgtRef(key, "", nd.Digest)
			opts = append(opts, regclient.WithManifestChild())
		default:
			r, err = w.tgtRef(key, st.T, "")
		}
		if err != nil {
			return err
		}
		w.async("push_manifest", w.cat.abbr(nd.Digest), false, func() error { return w.rc.ManifestPut(ctx, r, m, opts...) })
	default:
		return fmt.Errorf("unknown step %q", st.A)
	}
	return nil
}

// release serves the pending request of copy c selected by match; it reports whether one was found.
func (w *world) release(match func(p *pend) bool, rp *simreg.Reply) (bool, error) {
	p := w.take(match)
	if p == nil {
		return false, nil
	}
	p.ch <- rp
	return true, w.quiesce()
}

func (w *world) gated(st step) (bool, error) {
	isMan := func(cl string) bool { return cl == "manifest_head" || cl == "manifest_get" }
	switch st.A {
	case "CopyHeadSame", "CopyFetch":
		nd := w.cat.nodes[st.N]
		cc := w.sc.Conf.CP[st.C]
		m := func(p *pend) bool {
			return p.copy == st.C && isMan(p.rq.Class) && (p.rq.Ref == nd.Digest || (st.N == cc.Root && p.rq.Ref == strings.ToLower(cc.Root)))
		}
		found := false
		for i := 0; i < 3; i++ { // a HEAD may be followed by the GET of the same manifest
			ok, err := w.release(m, nil)
			if err != nil {
				return found, err
			}
			if !ok {
				break
			}
			found = true
		}
		return found, nil
	case "CopyRefList":
		nd := w.cat.nodes[st.N]
		return w.release(func(p *pend) bool { return p.copy == st.C && p.rq.Class == "referrers" && p.rq.Ref == nd.Digest }, nil)
	case "CopyBlobStart":
		nd := w.cat.nodes[st.N]
		ok, err := w.release(func(p *pend) bool { return p.copy == st.C && p.rq.Class == "blob_get" && p.rq.Ref == nd.Digest }, nil)
		if ok || err != nil {
			return ok, err
		}
		// the put throttle (3 per layout) admits blobs in an order of its own: when the named blob
		// does not wait at the gate another blob of the same copy takes its place
		ok, err = w.release(func(p *pend) bool { return p.copy == st.C && p.rq.Class == "blob_get" }, nil)
		if ok {
			w.adapted++
		}
		return ok, err
	case "CopyAbort":
		// the error path of a copy: alternately a request that fails and a cancelled context
		w.nabort++
		if w.nabort%2 == 0 {
			w.mu.Lock()
			n := 0
			for _, p := range w.pending {
				if p.copy == st.C {
					n++
				}
			}
			w.mu.Unlock()
			if n == 0 {
				return false, nil
			}
			if cancel := w.cancels[st.C]; cancel != nil {
				cancel()
			}
			return true, w.quiesce()
		}
		return w.release(func(p *pend) bool { return p.copy == st.C }, notFound())
	}
	return false, fmt.Errorf("unknown gated step %q", st.A)
}

func sameSet(a, b []string) bool {
	if len(a) != len(b) {
		return false
	}
	for i := range a {
		if a[i] != b[i] {
			return false
		}
	}
	return true
}

// predicted state of (D) in the vocabulary of dState
func predicted(f []string, x [][]string) ([]string, []string) {
	files := []string{}
	for _, n := range f {
		if strings.HasPrefix(n, "tmp-") {
			n = "tmp"
		}
		files = append(files, n)
	}
	sort.Strings(files)
	idx := []string{}
	for _, e := range x {
		if len(e) == 2 {
			idx = append(idx, e[0]+"="+e[1])
		}
	}
	sort.Strings(idx)
	return files, idx
}

func (w *world) checkDrift(i int, a string, f []string, x [][]string) bool {
	pf, px := predicted(f, x)
	af, ax := w.dState(w.snap())
	// two referrers that become complete with the same blob are pushed in an order the Go
	// scheduler picks: the intermediate fall-back index (R1 or R2) is the same kind of garbage
	for _, l := range [][]string{pf, af} {
		for i, n := range l {
			if n == "R1" || n == "R2" {
				l[i] = "R1|R2"
			}
		}
		sort.Strings(l)
	}
	if sameSet(pf, af) && sameSet(px, ax) {
		return true
	}
	if len(w.drift) < 3 {
		w.drift = append(w.drift, fmt.Sprintf("step %d (%s): layout differs from (D): files %v vs predicted %v; index %v vs %v", i, a, af, pf, ax, px))
	}
	return false
}

func (w *world) run() error {
	w.emit(vtrace.Event{"ev": "start", "gc": b2i(w.sc.Conf.GC)})
	exactSoFar := true
	skipTo := -1
	for i, st := range w.sc.Steps {
		if strings.HasPrefix(st.A, "i:") || i <= skipTo {
			continue
		}
		w.scheduled++
		if exactSoFar && w.adapted == 0 && w.sc.Mode != "free" {
			exactSoFar = w.checkDrift(i, st.A, st.F, st.X)
		}
		var err error
		switch st.A {
		case "CopyBegin":
			err = w.startCopy(st.C)
		case "Close":
			err = w.doClose(st.N, st.T)
		case "CloseBegin":
			// a close that collects: the steps up to its CloseEnd happen while it runs
			j := i + 1
			for j < len(w.sc.Steps) && w.sc.Steps[j].A != "CloseEnd" {
				j++
			}
			if j == len(w.sc.Steps) {
				err = errors.New("CloseBegin without CloseEnd")
				break
			}
			err = w.doCloseHeld(st.N, st.T, w.sc.Steps[i+1:j])
			skipTo = j
		case "CopyHeadSame", "CopyFetch", "CopyRefList", "CopyBlobStart", "CopyAbort":
			var ok bool
			ok, err = w.gated(st)
			if err == nil && !ok {
				exactSoFar = false
				if len(w.drift) < 3 {
					w.drift = append(w.drift, fmt.Sprintf("step %d (%s %s %s): no such request pending (%s)", i, st.A, st.C, st.N, w.pendStr()))
				}
			}
		default:
			err = w.doOp(st)
		}
		if err != nil {
			return fmt.Errorf("step %d (%s): %w", i, st.A, err)
		}
		if err := w.quiesce(); err != nil {
			return fmt.Errorf("after step %d (%s): %w", i, st.A, err)
		}
		w.reap()
		if _, err := w.reapOps(); err != nil {
			return err
		}
	}
	// drain: whatever is still held is released in arrival order until every copy has returned
	for n := 0; ; n++ {
		ok, err := w.release(func(p *pend) bool { return true }, nil)
		if err != nil {
			return fmt.Errorf("drain: %w", err)
		}
		w.reap()
		left, err := w.reapOps()
		if err != nil {
			return err
		}
		if !ok {
			if left > 0 {
				return errors.New("an API call stays blocked although nothing waits at the gate")
			}
			break
		}
		exactSoFar = false
		if n == 0 && len(w.drift) < 3 {
			w.drift = append(w.drift, "requests left pending after the last step")
		}
		if n > 10000 {
			return errors.New("drain does not terminate")
		}
	}
	for c := range w.started {
		if !w.ended[c] {
			return fmt.Errorf("copy %s neither returned nor waits at the gate", c)
		}
	}
	if exactSoFar && w.adapted == 0 && w.sc.Mode != "free" {
		exactSoFar = w.checkDrift(len(w.sc.Steps), "end", w.sc.Fin.F, w.sc.Fin.X)
	}
	if exactSoFar {
		w.exact = 1
	}
	fs := w.snap()
	ev := vtrace.Event{"ev": "final", "strict": 0}
	w.addSnap(ev, "b_", fs, true)
	w.emit(ev)
	return nil
}

func (w *world) pendStr() string {
	w.mu.Lock()
	defer w.mu.Unlock()
	s := []string{}
	for _, p := range w.pending {
		r := p.rq.Ref
		if n, ok := w.cat.byDig[r]; ok {
			r = n
		}
		s = append(s, p.copy+":"+p.rq.Class+":"+r)
	}
	return strings.Join(s, " ")
}

// ---------------------------------------------------------------------------

func runScenario(sc *scenario, work string) *vtrace.Trace {
	tr := &vtrace.Trace{ID: sc.ID, Events: []vtrace.Event{}, Meta: map[string]any{}}
	w := &world{sc: sc, trace: tr}
	dir := filepath.Join(work, "w-"+sc.ID)
	_ = os.RemoveAll(dir)
	defer os.RemoveAll(dir)
	if err := w.setup(dir); err != nil {
		tr.Meta["tool_error"] = "setup: " + err.Error()
		return tr
	}
	var err error
	if sc.Mode == "stress" {
		err = w.stress()
	} else {
		err = w.run()
	}
	if err != nil {
		tr.Meta["tool_error"] = err.Error()
		// unblock whatever is still held so that the goroutines end
		w.mu.Lock()
		w.open = true
		ps := w.pending
		w.pending = nil
		w.mu.Unlock()
		for _, p := range ps {
			p.ch <- nil
		}
	}
	tr.Meta["exact"] = w.exact
	tr.Meta["scheduled"] = w.scheduled
	tr.Meta["adapted"] = w.adapted
	tr.Meta["held"] = w.heldCloses
	if len(w.drift) > 0 {
		tr.Meta["drift"] = w.drift
	}
	tr.Meta["gc"] = b2i(sc.Conf.GC)
	return tr
}

func main() {
	in := flag.String("in", "", "scenarios (json lines)")
	out := flag.String("out", "", "traces (json lines)")
	work := flag.String("work", "", "scratch directory")
	flag.Parse()
	if *in == "" || *out == "" || *work == "" {
		fmt.Fprintln(os.Stderr, "usage: c08drv -in scn.jsonl -out traces.jsonl -work dir")
		os.Exit(2)
	}
	// traces are written unbuffered, one write per scenario: whatever was finished before a death of
	// the process is on disk
	wr, err := os.Create(*out)
	if err != nil {
		fmt.Fprintln(os.Stderr, err)
		os.Exit(2)
	}
	n := 0
	err = vtrace.ReadLines(*in, func(line []byte) error {
		sc := &scenario{}
		if err := json.Unmarshal(line, sc); err != nil {
			return fmt.Errorf("scenario %d: %w", n, err)
		}
		n++
		if journal, err = os.Create(*out + ".cur"); err != nil {
			return err
		}
		if _, err := fmt.Fprintf(journal, "{\"id\": %q}\n", sc.ID); err != nil {
			return err
		}
		t := runScenario(sc, *work)
		_ = journal.Close()
		journal = nil
		b, err := json.Marshal(t)
		if err != nil {
			return fmt.Errorf("marshal trace %s: %w", t.ID, err)
		}
		_, err = wr.Write(append(b, '\n'))
		return err
	})
	if cerr := wr.Close(); err == nil {
		err = cerr
	}
	if err != nil {
		fmt.Fprintln(os.Stderr, err)
		os.Exit(2)
	}
	fmt.Printf("{\"scenarios\": %d}\n", n)
}

package main

// hold.go: a collection that is still running when other calls are made.  The environment feature
// used is the log handler a program gives its client (regclient.WithSlog): a handler may block, and
// ocidir logs from inside Close (before the mark phase, for every manifest it cannot load, before
// every file it removes).  The handler installed here stops the goroutine that is inside
// OCIDir.Close at a point chosen by the schedule:
//
//	"pre"        the first record logged from inside Close (lock check done, nothing marked yet)
//	"del:<alg>"  the first record from inside Close that carries a digest of algorithm <alg>
//	             (the sweep has reached blobs/<alg>; the directories sorted after it are not listed yet)
//
// While Close is held the scheduler makes the calls the history places there (CopyCall), waits for
// the process to come to rest, audits the directory (close_mid) and lets Close go on.  Whether a
// call waits for the collection or runs under it is for the code to decide and for (P) to judge: a
// copy is logged as called (copy_call) and as in progress (copy_active) only once a request of it
// has reached the source registry or the close has returned.

import (
	"context"
	"errors"
	"fmt"
	"log/slog"
	"regexp"
	"runtime"
	"strings"
	"sync"
	"time"

	"github.com/regclient/regclient/zzverif/vtrace"
)

var digestRE = regexp.MustCompile(`^(sha256|sha512):[0-9a-f]{32,}$`)

type gcHook struct {
	mu     sync.Mutex
	armed  bool
	yield  bool            // stress runs: every record from inside Close yields the processor a few times
	seen   int             // records seen from inside Close since arm
	algs   map[string]bool // algorithms a digest record was seen for
	want   map[string]bool // points to stop at
	paused chan string
	resume chan struct{}
}

func newHook() *gcHook {
	return &gcHook{paused: make(chan string, 1), resume: make(chan struct{})}
}

func (h *gcHook) arm(points map[string]bool) {
	h.mu.Lock()
	h.armed, h.seen, h.algs, h.want = len(points) > 0, 0, map[string]bool{}, points
	h.mu.Unlock()
}

func (h *gcHook) disarm() { h.arm(nil) }

func insideClose() bool {
	pcs := make([]uintptr, 48)
	n := runtime.Callers(3, pcs)
	fr := runtime.CallersFrames(pcs[:n])
	for {
		f, more := fr.Next()
		// Close itself or a function literal of it (a goroutine it started)
		if strings.Contains(f.Function, "/scheme/ocidir.(*OCIDir).Close") {
			return true
		}
		if !more {
			return false
		}
	}
}

func (h *gcHook) Enabled(context.Context, slog.Level) bool { return true }
func (h *gcHook) WithAttrs([]slog.Attr) slog.Handler       { return h }
func (h *gcHook) WithGroup(string) slog.Handler            { return h }
func (h *gcHook) Handle(_ context.Context, rec slog.Record) error {
	h.mu.Lock()
	if h.yield && !h.armed {
		h.mu.Unlock()
		if insideClose() {
			for i := 0; i < 8; i++ {
				runtime.Gosched()
			}
		}
		return nil
	}
	if !h.armed || !insideClose() {
		h.mu.Unlock()
		return nil
	}
	h.seen++
	points := []string{}
	if h.seen == 1 {
		points = append(points, "pre")
	}
	rec.Attrs(func(a slog.Attr) bool {
		if a.Value.Kind() == slog.KindString {
			if m := digestRE.FindStringSubmatch(a.Value.String()); m != nil && !h.algs[m[1]] {
				h.algs[m[1]] = true
				points = append(points, "del:"+m[1])
			}
		}
		return true
	})
	stop := ""
	for _, p := range points {
		if h.want[p] && stop == "" {
			stop = p
			delete(h.want, p)
		}
	}
	h.mu.Unlock()
	if stop != "" {
		h.paused <- stop
		<-h.resume
	}
	return nil
}

// seenAtWork reports whether a request of copy c waits at the gate or the copy has returned.
func (w *world) seenAtWork(c string) bool {
	w.mu.Lock()
	defer w.mu.Unlock()
	if w.done[c] != nil {
		return true
	}
	for _, p := range w.pending {
		if p.copy == c {
			return true
		}
	}
	return false
}

// markActive logs copy_active for the copies that were called during a close and are in progress
// now: seen at work, or (all) the close they may have waited for has returned.
func (w *world) markActive(all bool) {
	left := []string{}
	for _, c := range w.called {
		if all || w.seenAtWork(c) {
			w.emit(vtrace.Event{"ev": "copy_active", "c": c, "during": b2i(!all)})
		} else {
			left = append(left, c)
		}
	}
	w.called = left
}

// doCloseHeld runs a close that (D) predicts to collect; seg are the steps of the history between
// its CloseBegin and its CloseEnd (SweepDir, CopyCall).
func (w *world) doCloseHeld(key, kind string, seg []step) error {
	// where the calls fall: before the first directory is swept, between two directories, after the last
	plan := map[string][]string{}
	dirsLeft := []string{}
	for _, s := range seg {
		if s.A == "SweepDir" {
			dirsLeft = append(dirsLeft, s.N)
		}
	}
	first := true
	for _, s := range seg {
		switch s.A {
		case "SweepDir":
			dirsLeft = dirsLeft[1:]
			first = false
		case "CopyCall":
			at := "after"
			if first && (len(dirsLeft) == 0 || w.nclose%2 == 0) {
				at = "pre"
			} else if len(dirsLeft) > 0 {
				at = "del:" + dirsLeft[0]
			}
			plan[at] = append(plan[at], s.C)
		default:
			if !strings.HasPrefix(s.A, "i:") {
				return fmt.Errorf("step %q inside a collecting close", s.A)
			}
		}
	}
	w.nclose++
	tag, dig := "", ""
	switch w.nclose % 3 {
	case 1:
		tag = "t1"
	case 2:
		dig = w.cat.nodes["M1"].Digest
	}
	r, err := w.tgtRef(key, tag, dig)
	if err != nil {
		return err
	}
	ctx, cancel, err := w.closeCtx(kind)
	if err != nil {
		return err
	}
	defer cancel()
	want := map[string]bool{}
	for p := range plan {
		if p != "after" {
			want[p] = true
		}
	}
	w.hook.arm(want)
	defer w.hook.disarm()
	before := w.snap()
	done := make(chan error, 1)
	go func() { done <- w.rc.Close(ctx, r) }()
	var cerr error
	held := 0
	// the collection is held at p: make the calls placed there, let everything come to rest, audit, go on
	atPoint := func(p string) error {
		held++
		if err := w.quiesce(); err != nil {
			return err
		}
		for _, c := range plan[p] {
			if err := w.startCopyEv(c, "copy_call"); err != nil {
				return err
			}
			w.called = append(w.called, c)
		}
		delete(plan, p)
		if err := w.quiesce(); err != nil {
			return err
		}
		w.markActive(false)
		mid := w.snap()
		w.emit(vtrace.Event{"ev": "close_mid", "at": p, "files": mid.Files, "other": mid.Other})
		w.hook.resume <- struct{}{}
		return nil
	}
	for returned := false; ; {
		if returned {
			// Close has returned; a goroutine it left behind may still reach a stopping point
			if err := w.quiesce(); err != nil {
				return err
			}
			select {
			case p := <-w.hook.paused:
				if err := atPoint(p); err != nil {
					return err
				}
				continue
			default:
			}
			break
		}
		select {
		case p := <-w.hook.paused:
			if err := atPoint(p); err != nil {
				return err
			}
		case cerr = <-done:
			returned = true
		case <-time.After(120 * time.Second):
			return errors.New("a held Close neither reached a stopping point nor returned")
		}
	}
	w.hook.disarm()
	after := w.snap()
	ev := vtrace.Event{"ev": "close", "key": key, "ctx": kind, "err": b2i(cerr != nil), "held": held}
	if cerr != nil {
		ev["errmsg"] = clip(cerr.Error())
	}
	w.addSnap(ev, "b_", before, true)
	w.addSnap(ev, "a_", after, false)
	w.emit(ev)
	w.markActive(true)
	// calls placed after the last directory, or at a point this close never reached: made now
	for _, at := range []string{"pre", "del:sha256", "del:sha512", "after"} {
		for _, c := range plan[at] {
			if err := w.startCopy(c); err != nil {
				return err
			}
			if err := w.quiesce(); err != nil {
				return err
			}
		}
	}
	w.heldCloses += b2i(held > 0)
	return nil
}

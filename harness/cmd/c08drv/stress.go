package main

// stress.go: the ungated mode.  Several full (non sparse) image copies run concurrently into one
// layout through one client while closer goroutines call rc.Close in a loop -- real concurrency,
// including closes that race with the inside of a put, which the gated mode cannot produce.
// Nothing is audited while the race is on; the trace holds the begin / end of the copies and one
// audit at the end with strict=1: no copy was sparse and nothing was deleted explicitly, so every
// digest a tag reaches must be present (spec/LayoutGCProp.tla, O5).

import (
	"runtime"
	"sort"
	"sync"
	"sync/atomic"

	"github.com/regclient/regclient/zzverif/vtrace"
)

func (w *world) stress() error {
	w.mu.Lock()
	w.open = true
	w.mu.Unlock()
	w.emit(vtrace.Event{"ev": "start", "gc": b2i(w.sc.Conf.GC)})
	// the log handler of the client is slow inside Close (it yields the processor): collections last longer
	w.hook.mu.Lock()
	w.hook.yield = true
	w.hook.mu.Unlock()
	cs := []string{}
	for c := range w.sc.Conf.CP {
		cs = append(cs, c)
	}
	sort.Strings(cs)
	var running atomic.Int32
	running.Store(int32(len(cs)))
	var cwg sync.WaitGroup
	keys := w.sc.Conf.CKeys
	for k := 0; k < 2; k++ {
		cwg.Add(1)
		go func(k int) {
			defer cwg.Done()
			for i := 0; running.Load() > 0; i++ {
				r, err := w.tgtRef(keys[(i+k)%len(keys)], "", "")
				if err == nil {
					// the second closer alternates between finished contexts
					kind := "bg"
					if k == 1 {
						kind = []string{"cancelled", "expired", "bg"}[i%3]
					}
					if ctx, cancel, cerr := w.closeCtx(kind); cerr == nil {
						_ = w.rc.Close(ctx, r)
						cancel()
					}
				}
				runtime.Gosched()
			}
		}(k)
	}
	for _, c := range cs {
		if err := w.startCopy(c); err != nil {
			return err
		}
	}
	// startCopy's goroutines record their result in w.done; poll without touching the layout
	for {
		w.mu.Lock()
		n := len(w.done)
		w.mu.Unlock()
		if n == len(cs) {
			break
		}
		runtime.Gosched()
	}
	running.Store(0)
	cwg.Wait()
	if err := w.quiesce(); err != nil {
		return err
	}
	allOK := true
	w.mu.Lock()
	for _, c := range cs {
		allOK = allOK && w.done[c].err == nil
	}
	w.mu.Unlock()
	w.reap()
	if err := w.doClose(keys[0], []string{"bg", "cancelled", "expired"}[len(w.sc.ID)%3]); err != nil {
		return err
	}
	fs := w.snap()
	ev := vtrace.Event{"ev": "final", "strict": b2i(allOK)}
	w.addSnap(ev, "b_", fs, true)
	w.emit(ev)
	w.exact = 1
	return nil
}

package main

import "errors"

func (w *world) stress() error { return errors.New("stress mode not implemented") }

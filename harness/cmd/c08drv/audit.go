package main

// audit.go: the independent observation of a layout directory.  Files are listed with os.ReadDir,
// index.json and every digest named file are parsed with plain encoding/json into local structs
// (no regclient type is involved), and the result is logged as flat facts: which files exist,
// which digests the index lists, and the edges manifest -> child by kind.  Reachability itself is
// computed by TLC from these facts (spec/LayoutGCProp.tla).

import (
	"encoding/json"
	"os"
	"path/filepath"
	"regexp"
	"sort"
)

type snapshot struct {
	Files []string // digest named files, abbreviated "alg:hex16", sorted
	Other []string // every other entry below blobs/<alg>/ (temp files), "alg:<name>", sorted
	Idx   []string // digests listed by index.json, in order
	Tags  []string // parallel to Idx: org.opencontainers.image.ref.name or ""
	EP    []string // edges: parent
	EC    []string // edges: child
	EK    []string // edges: kind m(anifests) c(onfig) l(ayers) b(lobs) f(sLayers) s(ubject)
	Names []string // (D) node names of Files (drift report only)
	NoIdx bool     // index.json absent or unreadable
}

var hexRE = map[string]*regexp.Regexp{
	"sha256": regexp.MustCompile(`^[0-9a-f]{64}$`),
	"sha512": regexp.MustCompile(`^[0-9a-f]{128}$`),
}

type refD struct {
	Digest string `json:"digest"`
}

type anyManifest struct {
	Manifests []refD `json:"manifests"`
	Config    *refD  `json:"config"`
	Layers    []refD `json:"layers"`
	Blobs     []refD `json:"blobs"`
	FSLayers  []struct {
		BlobSum string `json:"blobSum"`
	} `json:"fsLayers"`
	Subject *refD `json:"subject"`
}

func (w *world) snap() *snapshot {
	s := &snapshot{Files: []string{}, Other: []string{}, Idx: []string{}, Tags: []string{}, EP: []string{}, EC: []string{}, EK: []string{}, Names: []string{}}
	cat := w.cat
	blobs := filepath.Join(w.dir, "blobs")
	algs, _ := os.ReadDir(blobs)
	type edge struct{ p, c, k string }
	edges := []edge{}
	for _, a := range algs {
		if !a.IsDir() {
			s.Other = append(s.Other, "blobs:"+a.Name())
			continue
		}
		ents, _ := os.ReadDir(filepath.Join(blobs, a.Name()))
		for _, e := range ents {
			re := hexRE[a.Name()]
			if e.IsDir() || re == nil || !re.MatchString(e.Name()) {
				s.Other = append(s.Other, a.Name()+":"+e.Name())
				continue
			}
			full := a.Name() + ":" + e.Name()
			id := cat.abbr(full)
			s.Files = append(s.Files, id)
			var body []byte
			if fi, err := e.Info(); err == nil && fi.Size() < 1<<20 {
				body, _ = os.ReadFile(filepath.Join(blobs, a.Name(), e.Name()))
			}
			s.Names = append(s.Names, cat.nameOf(full, body))
			var m anyManifest
			if body == nil || json.Unmarshal(body, &m) != nil {
				continue
			}
			add := func(k, d string) {
				if d != "" {
					edges = append(edges, edge{id, cat.abbr(d), k})
				}
			}
			for _, x := range m.Manifests {
				add("m", x.Digest)
			}
			if m.Config != nil {
				add("c", m.Config.Digest)
			}
			for _, x := range m.Layers {
				add("l", x.Digest)
			}
			for _, x := range m.Blobs {
				add("b", x.Digest)
			}
			for _, x := range m.FSLayers {
				add("f", x.BlobSum)
			}
			if m.Subject != nil {
				add("s", m.Subject.Digest)
			}
		}
	}
	sort.Strings(s.Files)
	sort.Strings(s.Other)
	sort.Strings(s.Names)
	sort.Slice(edges, func(i, j int) bool {
		if edges[i].p != edges[j].p {
			return edges[i].p < edges[j].p
		}
		if edges[i].c != edges[j].c {
			return edges[i].c < edges[j].c
		}
		return edges[i].k < edges[j].k
	})
	for _, e := range edges {
		s.EP, s.EC, s.EK = append(s.EP, e.p), append(s.EC, e.c), append(s.EK, e.k)
	}
	var ix struct {
		Manifests []struct {
			Digest      string            `json:"digest"`
			Annotations map[string]string `json:"annotations"`
		} `json:"manifests"`
	}
	b, err := os.ReadFile(filepath.Join(w.dir, "index.json"))
	if err != nil || json.Unmarshal(b, &ix) != nil {
		s.NoIdx = true
		return s
	}
	for _, m := range ix.Manifests {
		s.Idx = append(s.Idx, cat.abbr(m.Digest))
		s.Tags = append(s.Tags, m.Annotations["org.opencontainers.image.ref.name"])
	}
	return s
}

// dNames renders the snapshot in the vocabulary of (D): node names of the files plus one entry
// per temp file, and tag=node pairs of the index.
func (w *world) dState(s *snapshot) (files []string, idx []string) {
	files = append([]string{}, s.Names...)
	for range s.Other {
		files = append(files, "tmp")
	}
	sort.Strings(files)
	idx = []string{}
	for i, d := range s.Idx {
		n := "?" + d
		if full, ok := w.cat.abbrev[d]; ok {
			n = w.cat.nameOfDigest(full, w.dir)
		}
		t := s.Tags[i]
		if t == w.cat.fallbackTag() {
			t = "fb-M1"
		}
		idx = append(idx, t+"="+n)
	}
	sort.Strings(idx)
	return files, idx
}

func (c *catalog) nameOfDigest(full, dir string) string {
	if n, ok := c.byDig[full]; ok {
		return n
	}
	for alg, re := range hexRE {
		if len(full) > len(alg)+1 && full[:len(alg)+1] == alg+":" && re.MatchString(full[len(alg)+1:]) {
			body, err := os.ReadFile(filepath.Join(dir, "blobs", alg, full[len(alg)+1:]))
			if err == nil {
				return c.nameOf(full, body)
			}
		}
	}
	return "?" + full
}

package main

// catalog.go: the concrete image graphs behind the node names of spec/LayoutGC.tla (Cat).  All
// bodies are assembled by hand / with encoding/json from local struct types; nothing here uses a
// regclient type.  Content is a function of the node name only, so digests are stable.

import (
	"crypto/sha256"
	"crypto/sha512"
	"encoding/hex"
	"encoding/json"
	"fmt"
	"sort"
	"strings"
)

const (
	mtOCIManifest = "application/vnd.oci.image.manifest.v1+json"
	mtOCIIndex    = "application/vnd.oci.image.index.v1+json"
	mtOCIArtifact = "application/vnd.oci.artifact.manifest.v1+json"
	mtOCIConfig   = "application/vnd.oci.image.config.v1+json"
	mtOCILayer    = "application/vnd.oci.image.layer.v1.tar+gzip"
	mtOCIEmpty    = "application/vnd.oci.empty.v1+json"
	mtD2Manifest  = "application/vnd.docker.distribution.manifest.v2+json"
	mtD2Config    = "application/vnd.docker.container.image.v1+json"
	mtD2Layer     = "application/vnd.docker.image.rootfs.diff.tar.gzip"
	mtD1Manifest  = "application/vnd.docker.distribution.manifest.v1+json"
	mtSBOM        = "application/vnd.example.sbom.v1"
	mtSig         = "application/vnd.example.signature.v1"
)

type node struct {
	Name     string
	Manifest bool
	MT       string // media type used in descriptors (and as content type at the source)
	Body     []byte
	Digest   string // <alg>:<hex>
	Alg      string // "" = sha256, "sha512": the blob is addressed (and stored under blobs/) by sha512
	Platform string // os/arch[/variant] when listed in an index
	Kids     []string
}

type desc struct {
	MediaType    string            `json:"mediaType"`
	Digest       string            `json:"digest"`
	Size         int               `json:"size"`
	Platform     *plat             `json:"platform,omitempty"`
	ArtifactType string            `json:"artifactType,omitempty"`
	Annotations  map[string]string `json:"annotations,omitempty"`
}

type plat struct {
	Architecture string `json:"architecture"`
	OS           string `json:"os"`
	Variant      string `json:"variant,omitempty"`
}

type catalog struct {
	nodes  map[string]*node
	byDig  map[string]string // full digest -> node name
	abbrev map[string]string // abbreviated digest -> full digest (collision check)
}

func sha(b []byte) string {
	h := sha256.Sum256(b)
	return "sha256:" + hex.EncodeToString(h[:])
}

func mustJSON(v any) []byte {
	b, err := json.Marshal(v)
	if err != nil {
		panic(err)
	}
	return b
}

func (c *catalog) add(n *node) *node {
	if n.Alg == "sha512" {
		h := sha512.Sum512(n.Body)
		n.Digest = "sha512:" + hex.EncodeToString(h[:])
	} else {
		n.Digest = sha(n.Body)
	}
	c.nodes[n.Name] = n
	c.byDig[n.Digest] = n.Name
	return n
}

func (c *catalog) blob(name, mt string, body []byte) {
	c.add(&node{Name: name, MT: mt, Body: body})
}

func (c *catalog) d(name string) desc {
	n := c.nodes[name]
	if n == nil {
		panic("catalog: unknown node " + name)
	}
	d := desc{MediaType: n.MT, Digest: n.Digest, Size: len(n.Body)}
	return d
}

func (c *catalog) dp(name string) desc {
	d := c.d(name)
	if p := c.nodes[name].Platform; p != "" {
		f := strings.Split(p, "/")
		d.Platform = &plat{OS: f[0], Architecture: f[1]}
		if len(f) > 2 {
			d.Platform.Variant = f[2]
		}
	}
	return d
}

func layerBody(name string) []byte {
	// not a real tar+gzip: neither the copy nor the collector looks inside a layer
	return []byte(strings.Repeat("layer "+name+" of the C08 catalogue\n", 40))
}

func configBody(name, arch string, layers []string) []byte {
	diff := []string{}
	for _, l := range layers {
		diff = append(diff, sha([]byte("diff "+l)))
	}
	return mustJSON(map[string]any{
		"architecture": arch, "os": "linux", "created": "2024-01-01T00:00:00Z",
		"config": map[string]any{"Labels": map[string]string{"name": name}},
		"rootfs": map[string]any{"type": "layers", "diff_ids": diff},
	})
}

func newCatalog() *catalog {
	c := &catalog{nodes: map[string]*node{}, byDig: map[string]string{}, abbrev: map[string]string{}}
	for _, l := range []string{"L1", "L2", "L3", "L4"} {
		c.blob(l, mtOCILayer, layerBody(l))
	}
	c.blob("B1", mtSBOM, []byte(`{"sbom":"B1","packages":["a","b"]}`))
	c.blob("B2", mtSig, []byte("signature blob B2\n"))
	c.blob("E1", mtOCIEmpty, []byte("{}"))
	c.blob("C1", mtOCIConfig, configBody("C1", "amd64", []string{"L1", "L2"}))
	c.blob("C2", mtD2Config, configBody("C2", "arm64", []string{"L2", "L3"}))
	c.blob("C3", mtOCIConfig, configBody("C3", "arm", []string{"L4"}))
	c.blob("C4", mtOCIConfig, configBody("C4", "amd64", []string{"L4"}))
	c.blob("C5", mtOCIConfig, configBody("C5", "amd64", []string{"L5"}))
	c.add(&node{Name: "L5", MT: mtOCILayer, Body: layerBody("L5"), Alg: "sha512"})

	type imgT struct {
		SchemaVersion int               `json:"schemaVersion"`
		MediaType     string            `json:"mediaType,omitempty"`
		ArtifactType  string            `json:"artifactType,omitempty"`
		Config        desc              `json:"config"`
		Layers        []desc            `json:"layers"`
		Subject       *desc             `json:"subject,omitempty"`
		Annotations   map[string]string `json:"annotations,omitempty"`
	}
	layers := func(mt string, ls ...string) []desc {
		out := []desc{}
		for _, l := range ls {
			d := c.d(l)
			if mt != "" {
				d.MediaType = mt
			}
			out = append(out, d)
		}
		return out
	}
	// M1: OCI image manifest
	c.add(&node{Name: "M1", Manifest: true, MT: mtOCIManifest, Platform: "linux/amd64", Kids: []string{"C1", "L1", "L2"},
		Body: mustJSON(imgT{SchemaVersion: 2, MediaType: mtOCIManifest, Config: c.d("C1"), Layers: layers("", "L1", "L2")})})
	// M2: docker schema2 manifest sharing L2
	c.add(&node{Name: "M2", Manifest: true, MT: mtD2Manifest, Platform: "linux/arm64", Kids: []string{"C2", "L2", "L3"},
		Body: mustJSON(imgT{SchemaVersion: 2, MediaType: mtD2Manifest, Config: c.d("C2"), Layers: layers(mtD2Layer, "L2", "L3")})})
	// M3: OCI image manifest whose body carries no mediaType (duck typed by readers)
	c.add(&node{Name: "M3", Manifest: true, MT: mtOCIManifest, Platform: "linux/arm/v7", Kids: []string{"C3", "L4"},
		Body: mustJSON(imgT{SchemaVersion: 2, Config: c.d("C3"), Layers: layers("", "L4")})})
	// M4: OCI image manifest sharing L4 with M3
	c.add(&node{Name: "M4", Manifest: true, MT: mtOCIManifest, Platform: "linux/amd64", Kids: []string{"C4", "L4"},
		Body: mustJSON(imgT{SchemaVersion: 2, MediaType: mtOCIManifest, Config: c.d("C4"), Layers: layers("", "L4"),
			Annotations: map[string]string{"name": "M4"}})})
	// M5: OCI image manifest whose layer is addressed by sha512
	c.add(&node{Name: "M5", Manifest: true, MT: mtOCIManifest, Platform: "linux/amd64", Kids: []string{"C5", "L5"},
		Body: mustJSON(imgT{SchemaVersion: 2, MediaType: mtOCIManifest, Config: c.d("C5"), Layers: layers("", "L5")})})
	// S1: docker schema1 (unsigned): fsLayers, no config
	type fsl struct {
		BlobSum string `json:"blobSum"`
	}
	type hist struct {
		V1 string `json:"v1Compatibility"`
	}
	c.add(&node{Name: "S1", Manifest: true, MT: mtD1Manifest, Kids: []string{"L1", "L4"},
		Body: mustJSON(struct {
			SchemaVersion int    `json:"schemaVersion"`
			Name          string `json:"name"`
			Tag           string `json:"tag"`
			Architecture  string `json:"architecture"`
			FSLayers      []fsl  `json:"fsLayers"`
			History       []hist `json:"history"`
		}{1, "c08/legacy", "legacy", "amd64",
			[]fsl{{c.nodes["L1"].Digest}, {c.nodes["L4"].Digest}},
			[]hist{{`{"id":"a1","parent":"a0"}`}, {`{"id":"a0"}`}}})})
	type idxT struct {
		SchemaVersion int    `json:"schemaVersion"`
		MediaType     string `json:"mediaType"`
		Manifests     []desc `json:"manifests"`
	}
	c.add(&node{Name: "I1", Manifest: true, MT: mtOCIIndex, Kids: []string{"M1", "M2"},
		Body: mustJSON(idxT{2, mtOCIIndex, []desc{c.dp("M1"), c.dp("M2")}})})
	c.add(&node{Name: "N1", Manifest: true, MT: mtOCIIndex, Kids: []string{"I1", "M3"},
		Body: mustJSON(idxT{2, mtOCIIndex, []desc{c.dp("I1"), c.dp("M3")}})})
	// X1: an index that lists a layer blob directly next to an image (as build caches do)
	c.add(&node{Name: "X1", Manifest: true, MT: mtOCIIndex, Kids: []string{"M4", "L3"},
		Body: mustJSON(idxT{2, mtOCIIndex, []desc{c.dp("M4"), c.d("L3")}})})
	// U1: an artifact whose layer blob IS the manifest of image M4 (a bundle that packages a manifest):
	// the same file in blobs/ is a blob of U1 and a manifest of its own
	c.add(&node{Name: "U1", Manifest: true, MT: mtOCIManifest, Kids: []string{"E1", "M4"},
		Body: mustJSON(imgT{SchemaVersion: 2, MediaType: mtOCIManifest, ArtifactType: mtSBOM, Config: c.d("E1"),
			Layers: layers("", "M4")})})
	// U2: an OCI artifact manifest one of whose blobs IS the index I1
	c.add(&node{Name: "U2", Manifest: true, MT: mtOCIArtifact, Kids: []string{"I1", "B2"},
		Body: mustJSON(struct {
			MediaType    string `json:"mediaType"`
			ArtifactType string `json:"artifactType"`
			Blobs        []desc `json:"blobs"`
		}{mtOCIArtifact, mtSig, []desc{c.d("I1"), c.d("B2")}})})
	// A1: artifact packaged as an OCI image manifest (artifactType, empty config) with a subject
	sub := c.d("M1")
	c.add(&node{Name: "A1", Manifest: true, MT: mtOCIManifest, Kids: []string{"E1", "B1"},
		Body: mustJSON(imgT{SchemaVersion: 2, MediaType: mtOCIManifest, ArtifactType: mtSBOM, Config: c.d("E1"),
			Layers: layers("", "B1"), Subject: &sub})})
	// A2: OCI artifact manifest (blobs) with the same subject
	c.add(&node{Name: "A2", Manifest: true, MT: mtOCIArtifact, Kids: []string{"B1", "B2"},
		Body: mustJSON(struct {
			MediaType    string `json:"mediaType"`
			ArtifactType string `json:"artifactType"`
			Blobs        []desc `json:"blobs"`
			Subject      *desc  `json:"subject"`
		}{mtOCIArtifact, mtSig, []desc{c.d("B1"), c.d("B2")}, &sub})})
	return c
}

// roots are the nodes an ImageCopy may start from; each is tagged at the source with its lower
// cased name.
// asBlob are the manifests some other manifest names as a plain blob (U1, U2): the source registry
// holds them as blobs too
var asBlob = []string{"M4", "I1"}

var roots = []string{"M1", "M2", "M3", "M4", "M5", "S1", "I1", "N1", "X1", "U1", "U2", "A1", "A2"}

func (c *catalog) fallbackTag() string {
	return strings.Replace(c.nodes["M1"].Digest, ":", "-", 1)
}

// abbr shortens "alg:hex" to "alg:<16 hex>"; a collision between two different full names is a
// tooling error (it cannot happen with the deterministic catalogue unless sha256 is broken).
func (c *catalog) abbr(full string) string {
	i := strings.IndexByte(full, ':')
	a := full
	if i > 0 && len(full) > i+17 {
		a = full[:i+17]
	}
	if prev, ok := c.abbrev[a]; ok && prev != full {
		panic(fmt.Sprintf("abbreviation collision: %s vs %s", prev, full))
	}
	c.abbrev[a] = full
	return a
}

// nameOf maps a digest named file to the (D) node name: catalogue nodes by digest; a fall-back
// referrer index written by regclient by the set of artifacts it lists.
func (c *catalog) nameOf(full string, body []byte) string {
	if n, ok := c.byDig[full]; ok {
		return n
	}
	var ix struct {
		Manifests []struct {
			Digest string `json:"digest"`
		} `json:"manifests"`
		Layers []json.RawMessage `json:"layers"`
	}
	if body != nil && json.Unmarshal(body, &ix) == nil && ix.Layers == nil {
		set := []string{}
		for _, m := range ix.Manifests {
			n, ok := c.byDig[m.Digest]
			if !ok {
				return "?" + full
			}
			set = append(set, n)
		}
		sort.Strings(set)
		switch strings.Join(set, ",") {
		case "":
			return "R0"
		case "A1":
			return "R1"
		case "A2":
			return "R2"
		case "A1,A2":
			return "R12"
		}
	}
	return "?" + full
}

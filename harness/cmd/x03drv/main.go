// x03drv drives the REAL regctl binary (cmd/regctl, built from the tree under test) for the extra
// area X03 "editing an image index with regctl index create / add / delete".
//
// Input: the world printed by TLC from spec/IndexEditWorld.tla (-world: pool of manifests, source
// repositories, references, platforms, seeded indexes, initial target states) and scenarios generated
// by TLC from spec/IndexEditGen.tla (-in, one JSON object per line): initial state of the target,
// kind of target (registry / OCI layout), environment and 1-4 abstract commands.  For every scenario
// the driver
//
//  1. builds the real content (manifests, configs, layers, indexes, referrers, digest tags) from the
//     world, the two source repositories (model registry zzverif/simreg or OCI layouts written by the
//     driver itself) and the target in its initial state,
//  2. renders every command to a regctl command line and executes the binary (registries are reached
//     through 127.0.0.1 listeners in front of simreg because a binary is exec'ed),
//  3. records: the command, after every state changing request the target registry served what tag
//     v1 resolves to (projected to the vocabulary of the spec: pool names, abstract media types,
//     canonical platform / annotation strings) and which manifests / blobs the index under the tag
//     references are missing (deep audit), and after the command its exit status, the same
//     projection, the pool manifests and digest tags the target holds.
//
// The driver only records.  The verdict is TLC's: spec/IndexEditTrace.tla replays the recorded events
// through the monitor spec/IndexEditProp.tla.
package main

import (
	"bytes"
	"context"
	"crypto/sha256"
	"encoding/base64"
	"encoding/hex"
	"encoding/json"
	"flag"
	"fmt"
	"io"
	"net"
	"net/http"
	"os"
	"os/exec"
	"path/filepath"
	"regexp"
	"runtime"
	"sort"
	"strings"
	"sync"
	"time"

	"github.com/regclient/regclient/zzverif/simreg"
	"github.com/regclient/regclient/zzverif/vtrace"
)

// ---------------------------------------------------------------------------------------------
// world (as printed by the generator)
// ---------------------------------------------------------------------------------------------

type srcEntry struct {
	ID   string `json:"id"`
	Plat string `json:"plat"`
	Ann  string `json:"ann"`
}

type manSpec struct {
	Kind  string     `json:"kind"`
	Mt    string     `json:"mt"`
	Cplat string     `json:"cplat"`
	Ents  []srcEntry `json:"ents"`
	Subj  string     `json:"subj"`
}

type platSpec struct {
	OS   string `json:"os"`
	Arch string `json:"arch"`
	Var  string `json:"var"`
	Ver  string `json:"ver"`
	Osf  string `json:"osf"`
}

type refSpec struct {
	Repo string `json:"repo"`
	By   string `json:"by"`
	Man  string `json:"man"`
}

type entry struct {
	ID   string `json:"id"`
	Mt   string `json:"mt"`
	Sz   string `json:"sz"`
	Plat string `json:"plat"`
	Ann  string `json:"ann"`
	X    string `json:"x"`
}

type idxVal struct {
	Mt   string  `json:"mt"`
	Ents []entry `json:"ents"`
	Ann  string  `json:"ann"`
	At   string  `json:"at"`
	Subj string  `json:"subj"`
}

type tagVal struct {
	K  string  `json:"k"`
	ID string  `json:"id,omitempty"`
	V  *idxVal `json:"v,omitempty"`
}

type world struct {
	Man       map[string]manSpec           `json:"man"`
	Tags      map[string]map[string]string `json:"tags"`
	Refer     map[string][]string          `json:"refer"`
	Dtag      map[string]json.RawMessage   `json:"dtag"`
	Ref       map[string]refSpec           `json:"ref"`
	RefDig    map[string]string            `json:"refdig"`
	Plat      map[string]platSpec          `json:"plat"`
	Seeds     map[string]idxVal            `json:"seeds"`
	InitExtra map[string][]string          `json:"initextra"`
	InitTag   map[string]tagVal            `json:"inittag"`
}

const (
	mtOCIM = "application/vnd.oci.image.manifest.v1+json"
	mtOCII = "application/vnd.oci.image.index.v1+json"
	mtDKM  = "application/vnd.docker.distribution.manifest.v2+json"
	mtDKL  = "application/vnd.docker.distribution.manifest.list.v2+json"
)

var mtReal = map[string]string{"ocim": mtOCIM, "ocii": mtOCII, "dkm": mtDKM, "dkl": mtDKL}
var mtAbs = map[string]string{mtOCIM: "ocim", mtOCII: "ocii", mtDKM: "dkm", mtDKL: "dkl"}

// object is one manifest of the pool with the blobs it needs.
type object struct {
	id       string
	mt       string // real media type
	body     []byte
	dig      string
	blobs    map[string][]byte
	children []string
	subj     string
}

type pool struct {
	w     *world
	obj   map[string]*object
	byDig map[string]string   // digest -> id
	holds map[string][]string // repo -> ids stored there (deep)
	dtag  map[string]map[string]string
}

func digestOf(b []byte) string {
	s := sha256.Sum256(b)
	return "sha256:" + hex.EncodeToString(s[:])
}

func mustJSON(v any) []byte {
	b, err := json.Marshal(v)
	if err != nil {
		panic(err)
	}
	return b
}

func platJSON(p platSpec) map[string]any {
	m := map[string]any{"architecture": p.Arch, "os": p.OS}
	if p.Var != "" {
		m["variant"] = p.Var
	}
	if p.Ver != "" {
		m["os.version"] = p.Ver
	}
	if p.Osf != "" {
		m["os.features"] = strings.Split(p.Osf, "+")
	}
	return m
}

func annMap(s string) map[string]string {
	if s == "" {
		return nil
	}
	m := map[string]string{}
	for _, kv := range strings.Split(s, ",") {
		p := strings.SplitN(kv, "=", 2)
		if len(p) == 2 {
			m[p[0]] = p[1]
		} else {
			m[p[0]] = ""
		}
	}
	return m
}

func buildPool(w *world) (*pool, error) {
	p := &pool{w: w, obj: map[string]*object{}, byDig: map[string]string{}, holds: map[string][]string{}, dtag: map[string]map[string]string{}}
	var build func(id string, stack []string) error
	build = func(id string, stack []string) error {
		if _, ok := p.obj[id]; ok {
			return nil
		}
		ms, ok := w.Man[id]
		if !ok {
			return fmt.Errorf("world: unknown manifest %q", id)
		}
		for _, s := range stack {
			if s == id {
				return fmt.Errorf("world: cycle at %q", id)
			}
		}
		stack = append(stack, id)
		o := &object{id: id, mt: mtReal[ms.Mt], blobs: map[string][]byte{}, subj: ms.Subj}
		if o.mt == "" {
			return fmt.Errorf("world: media type %q of %q", ms.Mt, id)
		}
		var subj map[string]any
		if ms.Subj != "" {
			if err := build(ms.Subj, stack); err != nil {
				return err
			}
			so := p.obj[ms.Subj]
			subj = map[string]any{"mediaType": so.mt, "digest": so.dig, "size": len(so.body)}
		}
		if ms.Kind == "index" {
			ents := []any{}
			for _, e := range ms.Ents {
				if err := build(e.ID, stack); err != nil {
					return err
				}
				c := p.obj[e.ID]
				d := map[string]any{"mediaType": c.mt, "digest": c.dig, "size": len(c.body)}
				if e.Plat != "" {
					ps, ok := w.Plat[e.Plat]
					if !ok {
						return fmt.Errorf("world: platform %q", e.Plat)
					}
					d["platform"] = platJSON(ps)
				}
				if a := annMap(e.Ann); a != nil {
					d["annotations"] = a
				}
				ents = append(ents, d)
				o.children = append(o.children, e.ID)
			}
			m := map[string]any{"schemaVersion": 2, "mediaType": o.mt, "manifests": ents}
			if subj != nil {
				m["subject"] = subj
			}
			o.body = mustJSON(m)
		} else {
			layer := []byte("x03 layer of " + id + "\n")
			var cfg []byte
			cfgMT := "application/vnd.oci.image.config.v1+json"
			layMT := "application/vnd.oci.image.layer.v1.tar+gzip"
			if ms.Mt == "dkm" {
				cfgMT = "application/vnd.docker.container.image.v1+json"
				layMT = "application/vnd.docker.image.rootfs.diff.tar.gzip"
			}
			if ms.Cplat != "" {
				ps, ok := w.Plat[ms.Cplat]
				if !ok {
					return fmt.Errorf("world: platform %q", ms.Cplat)
				}
				c := platJSON(ps)
				c["config"] = map[string]any{"Labels": map[string]string{"x03.id": id}}
				c["rootfs"] = map[string]any{"type": "layers", "diff_ids": []string{digestOf(layer)}}
				cfg = mustJSON(c)
			} else {
				cfgMT = "application/vnd.example.config.v1+json"
				cfg = mustJSON(map[string]any{"x03.id": id})
			}
			o.blobs[digestOf(cfg)] = cfg
			o.blobs[digestOf(layer)] = layer
			m := map[string]any{"schemaVersion": 2, "mediaType": o.mt,
				"config": map[string]any{"mediaType": cfgMT, "digest": digestOf(cfg), "size": len(cfg)},
				"layers": []any{map[string]any{"mediaType": layMT, "digest": digestOf(layer), "size": len(layer)}}}
			if ms.Cplat == "" {
				m["artifactType"] = "application/vnd.example.art"
				m["annotations"] = map[string]string{"x03.id": id}
			}
			if subj != nil {
				m["subject"] = subj
			}
			o.body = mustJSON(m)
		}
		o.dig = digestOf(o.body)
		p.obj[id] = o
		p.byDig[o.dig] = id
		return nil
	}
	ids := make([]string, 0, len(w.Man))
	for id := range w.Man {
		ids = append(ids, id)
	}
	sort.Strings(ids)
	for _, id := range ids {
		if err := build(id, nil); err != nil {
			return nil, err
		}
	}
	for repo, raw := range w.Dtag {
		m := map[string]string{}
		_ = json.Unmarshal(raw, &m) // an empty function is printed as []
		p.dtag[repo] = m
	}
	for repo, tags := range w.Tags {
		set := map[string]bool{}
		for _, id := range tags {
			p.reach(id, set)
		}
		for _, id := range w.Refer[repo] {
			p.reach(id, set)
		}
		for _, id := range p.dtag[repo] {
			p.reach(id, set)
		}
		delete(set, "ghost")
		for id := range set {
			p.holds[repo] = append(p.holds[repo], id)
		}
		sort.Strings(p.holds[repo])
	}
	return p, nil
}

func (p *pool) reach(id string, set map[string]bool) {
	if set[id] {
		return
	}
	set[id] = true
	for _, c := range p.obj[id].children {
		p.reach(c, set)
	}
}

// ---------------------------------------------------------------------------------------------
// repositories: a common view of a registry repository (simreg) and an OCI layout directory
// ---------------------------------------------------------------------------------------------

type view interface {
	manifest(dig string) ([]byte, string, bool) // body, media type recorded next to it
	blob(dig string) bool
	tags() map[string]string
}

type regView struct{ r *simreg.Repo }

func (v regView) manifest(d string) ([]byte, string, bool) {
	if v.r == nil {
		return nil, "", false
	}
	m, ok := v.r.Manifests[d]
	return m.Body, m.MediaType, ok
}
func (v regView) blob(d string) bool {
	if v.r == nil {
		return false
	}
	_, ok := v.r.Blobs[d]
	return ok
}
func (v regView) tags() map[string]string {
	if v.r == nil {
		return map[string]string{}
	}
	return v.r.Tags
}

type layoutIndex struct {
	SchemaVersion int              `json:"schemaVersion"`
	MediaType     string           `json:"mediaType,omitempty"`
	Manifests     []map[string]any `json:"manifests"`
}

type dirView struct {
	dir string
	idx layoutIndex
	mts map[string]string
}

const refName = "org.opencontainers.image.ref.name"

func newDirView(dir string) dirView {
	v := dirView{dir: dir, mts: map[string]string{}}
	b, err := os.ReadFile(filepath.Join(dir, "index.json"))
	if err == nil {
		_ = json.Unmarshal(b, &v.idx)
	}
	for _, m := range v.idx.Manifests {
		d, _ := m["digest"].(string)
		mt, _ := m["mediaType"].(string)
		v.mts[d] = mt
	}
	return v
}

func (v dirView) file(d string) string {
	p := strings.SplitN(d, ":", 2)
	if len(p) != 2 {
		return filepath.Join(v.dir, "blobs", "invalid")
	}
	return filepath.Join(v.dir, "blobs", p[0], p[1])
}
func (v dirView) manifest(d string) ([]byte, string, bool) {
	b, err := os.ReadFile(v.file(d))
	if err != nil {
		return nil, "", false
	}
	return b, v.mts[d], true
}
func (v dirView) blob(d string) bool {
	_, err := os.Stat(v.file(d))
	return err == nil
}
func (v dirView) tags() map[string]string {
	t := map[string]string{}
	for _, m := range v.idx.Manifests {
		a, _ := m["annotations"].(map[string]any)
		n, _ := a[refName].(string)
		d, _ := m["digest"].(string)
		if n != "" {
			t[n] = d
		}
	}
	return t
}

// writeLayout writes an OCI layout: blobs, index.json with the given tags and untagged entries.
func writeLayout(dir string, p *pool, ids []string, tags map[string]string, extraBodies map[string][]byte, untagged []string) error {
	if err := os.MkdirAll(filepath.Join(dir, "blobs", "sha256"), 0o755); err != nil {
		return err
	}
	put := func(d string, b []byte) error {
		return os.WriteFile(filepath.Join(dir, "blobs", "sha256", strings.TrimPrefix(d, "sha256:")), b, 0o644)
	}
	for _, id := range ids {
		o := p.obj[id]
		if err := put(o.dig, o.body); err != nil {
			return err
		}
		for d, b := range o.blobs {
			if err := put(d, b); err != nil {
				return err
			}
		}
	}
	for d, b := range extraBodies {
		if err := put(d, b); err != nil {
			return err
		}
	}
	idx := layoutIndex{SchemaVersion: 2, MediaType: mtOCII, Manifests: []map[string]any{}}
	desc := func(d string) map[string]any {
		if id, ok := p.byDig[d]; ok {
			return map[string]any{"mediaType": p.obj[id].mt, "digest": d, "size": len(p.obj[id].body)}
		}
		b := extraBodies[d]
		var f struct {
			MediaType string `json:"mediaType"`
		}
		_ = json.Unmarshal(b, &f)
		return map[string]any{"mediaType": f.MediaType, "digest": d, "size": len(b)}
	}
	names := make([]string, 0, len(tags))
	for t := range tags {
		names = append(names, t)
	}
	sort.Strings(names)
	for _, t := range names {
		d := desc(tags[t])
		d["annotations"] = map[string]any{refName: t}
		idx.Manifests = append(idx.Manifests, d)
	}
	for _, d := range untagged {
		idx.Manifests = append(idx.Manifests, desc(d))
	}
	if err := os.WriteFile(filepath.Join(dir, "oci-layout"), []byte(`{"imageLayoutVersion":"1.0.0"}`), 0o644); err != nil {
		return err
	}
	return os.WriteFile(filepath.Join(dir, "index.json"), mustJSON(idx), 0o644)
}

// fallbackIndex is the referrers fallback tag content for a subject.
func fallbackIndex(p *pool, referrers []string) []byte {
	ents := []any{}
	for _, id := range referrers {
		o := p.obj[id]
		ents = append(ents, map[string]any{"mediaType": o.mt, "digest": o.dig, "size": len(o.body),
			"artifactType": "application/vnd.example.art", "annotations": map[string]string{"x03.id": id}})
	}
	return mustJSON(map[string]any{"schemaVersion": 2, "mediaType": mtOCII, "manifests": ents})
}

// ---------------------------------------------------------------------------------------------
// projection of the real state to the vocabulary of the spec
// ---------------------------------------------------------------------------------------------

type projector struct {
	p        *pool
	selfDigs map[string]bool // digests tag v1 has had in this scenario
}

func (pj *projector) extrasOf(label string, id string) map[string]any {
	switch label {
	case "urls":
		return map[string]any{"urls": []string{"https://example.com/x03/blob"}}
	case "at":
		return map[string]any{"artifactType": "application/vnd.example.thing"}
	case "data":
		if o, ok := pj.p.obj[id]; ok {
			return map[string]any{"data": base64.StdEncoding.EncodeToString(o.body)}
		}
	}
	return nil
}

func canonPlat(raw json.RawMessage) string {
	var m map[string]json.RawMessage
	if err := json.Unmarshal(raw, &m); err != nil || m == nil {
		return "?" + string(raw)
	}
	str := func(k string) string {
		var s string
		if r, ok := m[k]; ok {
			if json.Unmarshal(r, &s) != nil {
				s = "?" + string(r)
			}
			delete(m, k)
		}
		return s
	}
	list := func(k string) string {
		var s []string
		if r, ok := m[k]; ok {
			if json.Unmarshal(r, &s) != nil {
				return "?" + string(r)
			}
			delete(m, k)
		}
		return strings.Join(s, "+")
	}
	out := str("os") + "/" + str("architecture")
	if v := str("variant"); v != "" {
		out += "/" + v
	}
	if v := str("os.version"); v != "" {
		out += ";v=" + v
	}
	if v := list("os.features"); v != "" {
		out += ";of=" + v
	}
	if v := list("features"); v != "" {
		out += ";f=" + v
	}
	if len(m) > 0 {
		out += ";?" + string(mustJSON(m))
	}
	return out
}

func canonAnn(raw json.RawMessage) string {
	var m map[string]string
	if err := json.Unmarshal(raw, &m); err != nil {
		return "?" + string(raw)
	}
	keys := make([]string, 0, len(m))
	for k := range m {
		keys = append(keys, k)
	}
	sort.Strings(keys)
	parts := []string{}
	for _, k := range keys {
		parts = append(parts, k+"="+m[k])
	}
	return strings.Join(parts, ",")
}

func (pj *projector) entry(raw json.RawMessage, v view) entry {
	var m map[string]json.RawMessage
	e := entry{}
	if err := json.Unmarshal(raw, &m); err != nil || m == nil {
		e.ID = "?" + string(raw)
		return e
	}
	var dig, mt string
	var size int64 = -1
	_ = json.Unmarshal(m["digest"], &dig)
	_ = json.Unmarshal(m["mediaType"], &mt)
	_ = json.Unmarshal(m["size"], &size)
	delete(m, "digest")
	delete(m, "mediaType")
	delete(m, "size")
	e.ID = dig
	want := int64(-2)
	if id, ok := pj.p.byDig[dig]; ok {
		e.ID = id
		want = int64(len(pj.p.obj[id].body))
	} else if b, _, ok := v.manifest(dig); ok {
		want = int64(len(b))
	}
	if size == want {
		e.Sz = "ok"
	} else {
		e.Sz = fmt.Sprintf("bad:%d", size)
	}
	e.Mt = mt
	if a, ok := mtAbs[mt]; ok {
		e.Mt = a
	}
	if r, ok := m["platform"]; ok {
		e.Plat = canonPlat(r)
		delete(m, "platform")
	}
	if r, ok := m["annotations"]; ok {
		e.Ann = canonAnn(r)
		delete(m, "annotations")
	}
	if len(m) > 0 {
		rest := string(mustJSON(m))
		e.X = "h:" + digestOf([]byte(rest))[7:15]
		for _, l := range []string{"urls", "at", "data"} {
			if x := pj.extrasOf(l, e.ID); x != nil && string(mustJSON(x)) == rest {
				e.X = l
			}
		}
	}
	return e
}

// tagOf projects what a digest of the repository is: an index (projected), a pool manifest, none.
func (pj *projector) project(dig string, v view) tagVal {
	body, recMT, ok := v.manifest(dig)
	if !ok {
		return tagVal{K: "none"}
	}
	var m map[string]json.RawMessage
	if err := json.Unmarshal(body, &m); err != nil || m == nil {
		return tagVal{K: "other", ID: dig}
	}
	var mt string
	_ = json.Unmarshal(m["mediaType"], &mt)
	_, isList := m["manifests"]
	if !isList || (mt != mtOCII && mt != mtDKL) {
		if id, ok := pj.p.byDig[dig]; ok {
			return tagVal{K: "pool", ID: id}
		}
		return tagVal{K: "other", ID: dig}
	}
	iv := &idxVal{Mt: mtAbs[mt], Ents: []entry{}}
	if recMT != "" && recMT != mt {
		iv.Mt = "recorded-as:" + recMT
	}
	var ents []json.RawMessage
	if err := json.Unmarshal(m["manifests"], &ents); err != nil {
		iv.Mt = "manifests-unparsable"
	}
	for _, r := range ents {
		iv.Ents = append(iv.Ents, pj.entry(r, v))
	}
	if r, ok := m["annotations"]; ok {
		iv.Ann = canonAnn(r)
	}
	if r, ok := m["artifactType"]; ok {
		_ = json.Unmarshal(r, &iv.At)
	}
	if r, ok := m["subject"]; ok && string(r) != "null" {
		var s struct {
			Digest string `json:"digest"`
		}
		_ = json.Unmarshal(r, &s)
		switch {
		case pj.p.byDig[s.Digest] != "":
			iv.Subj = pj.p.byDig[s.Digest]
		case pj.selfDigs[s.Digest]:
			iv.Subj = "self"
		default:
			iv.Subj = s.Digest
		}
	}
	for _, k := range []string{"mediaType", "manifests", "annotations", "artifactType", "subject", "schemaVersion"} {
		delete(m, k)
	}
	if len(m) > 0 {
		iv.Mt += "+" + string(mustJSON(m))
	}
	return tagVal{K: "idx", V: iv}
}

func (pj *projector) name(dig string) string {
	if id, ok := pj.p.byDig[dig]; ok {
		return id
	}
	return dig
}

// missing: deep audit below the manifest with digest dig.
func (pj *projector) missing(dig string, v view, seen map[string]bool, out map[string]bool) {
	if seen[dig] {
		return
	}
	seen[dig] = true
	body, _, ok := v.manifest(dig)
	if !ok {
		out[pj.name(dig)] = true
		return
	}
	var m struct {
		Manifests []struct {
			Digest string `json:"digest"`
		} `json:"manifests"`
		Config *struct {
			Digest string `json:"digest"`
		} `json:"config"`
		Layers []struct {
			Digest string   `json:"digest"`
			URLs   []string `json:"urls"`
		} `json:"layers"`
	}
	if err := json.Unmarshal(body, &m); err != nil {
		out["unparsable:"+pj.name(dig)] = true
		return
	}
	for _, c := range m.Manifests {
		pj.missing(c.Digest, v, seen, out)
	}
	if m.Config != nil && !v.blob(m.Config.Digest) {
		out["config-of:"+pj.name(dig)] = true
	}
	for _, l := range m.Layers {
		if len(l.URLs) == 0 && !v.blob(l.Digest) {
			out["layer-of:"+pj.name(dig)] = true
		}
	}
}

var reDigestTag = regexp.MustCompile(`^sha256-([0-9a-f]{64})\.[A-Za-z0-9._-]+$`)

type observation struct {
	Tag     tagVal
	Missing []string
	Have    []string
	Xt      []string
	tagDig  string
}

func (pj *projector) observe(v view) observation {
	o := observation{Tag: tagVal{K: "none"}, Missing: []string{}, Have: []string{}, Xt: []string{}}
	tags := v.tags()
	if d, ok := tags["v1"]; ok {
		o.tagDig = d
		pj.selfDigs[d] = true
		o.Tag = pj.project(d, v)
		if o.Tag.K == "none" {
			o.Tag = tagVal{K: "other", ID: "tag-without-manifest"}
		}
		if o.Tag.K == "idx" {
			miss := map[string]bool{}
			body, _, _ := v.manifest(d)
			var m struct {
				Manifests []struct {
					Digest string `json:"digest"`
				} `json:"manifests"`
			}
			_ = json.Unmarshal(body, &m)
			seen := map[string]bool{}
			for _, c := range m.Manifests {
				pj.missing(c.Digest, v, seen, miss)
			}
			for k := range miss {
				o.Missing = append(o.Missing, k)
			}
			sort.Strings(o.Missing)
		}
	}
	for id, ob := range pj.p.obj {
		if _, _, ok := v.manifest(ob.dig); ok {
			o.Have = append(o.Have, id)
		}
	}
	sort.Strings(o.Have)
	for t := range tags {
		if m := reDigestTag.FindStringSubmatch(t); m != nil {
			o.Xt = append(o.Xt, pj.name("sha256:"+m[1]))
		}
	}
	sort.Strings(o.Xt)
	return o
}

// ---------------------------------------------------------------------------------------------
// scenarios
// ---------------------------------------------------------------------------------------------

type kv struct {
	K string `json:"k"`
	V string `json:"v"`
}

type command struct {
	Op    string   `json:"op"`
	Refs  []string `json:"refs"`
	Plats []string `json:"plats"`
	Digs  []string `json:"digs"`
	Dann  []kv     `json:"dann"`
	Dplat string   `json:"dplat"`
	Mt    string   `json:"mt"`
	Ann   []kv     `json:"ann"`
	At    string   `json:"at"`
	Subj  string   `json:"subj"`
	Bydig bool     `json:"bydig"`
	Dtags bool     `json:"dtags"`
	Rfr   bool     `json:"rfr"`
}

type scenario struct {
	ID    string `json:"id"`
	Init  string `json:"init"`
	Tkind string `json:"tkind"`
	Same  bool   `json:"same"`
	Env   struct {
		Skind    string `json:"skind"`
		Srcapi   bool   `json:"srcapi"`
		Tgtapi   bool   `json:"tgtapi"`
		Samehost bool   `json:"samehost"`
	} `json:"env"`
	// Fault: the At-th request of kind Kind ("write": blob upload / manifest put, "read": blob get) that
	// command Cmd sends for the target repository is refused with 403 (registry targets only)
	Fault struct {
		Cmd  int    `json:"cmd"`
		At   int    `json:"at"`
		Kind string `json:"kind"`
	} `json:"fault"`
	Cmds []command `json:"cmds"`
}

type options struct {
	regctl  string
	scratch string
	keep    bool
	verbose bool
	timeout time.Duration
}

const (
	srcHost = "src.test"
	tgtHost = "tgt.test"
)

var repoPath = map[string]string{"S1": "lib/one", "S2": "lib/two", "T": "proj/app"}

// worker: two loopback listeners in front of the current model network
type worker struct {
	id   int
	opt  *options
	p    *pool
	dir  string
	addr map[string]string
	srv  []*http.Server
	mu   sync.Mutex
	net  *simreg.Net
	conf string
}

func newWorker(id int, opt *options, p *pool) (*worker, error) {
	wk := &worker{id: id, opt: opt, p: p, addr: map[string]string{}, dir: filepath.Join(opt.scratch, fmt.Sprintf("w%02d", id))}
	if err := os.MkdirAll(wk.dir, 0o755); err != nil {
		return nil, err
	}
	hosts := map[string]any{}
	for _, name := range []string{srcHost, tgtHost} {
		ln, err := net.Listen("tcp4", "127.0.0.1:0")
		if err != nil {
			return nil, err
		}
		wk.addr[name] = ln.Addr().String()
		srv := &http.Server{Handler: wk.handler(name)}
		wk.srv = append(wk.srv, srv)
		go func() { _ = srv.Serve(ln) }()
		hosts[name] = map[string]any{"tls": "disabled", "hostname": wk.addr[name]}
	}
	wk.conf = filepath.Join(wk.dir, "regctl-config.json")
	conf := map[string]any{"hosts": hosts, "incDockerCred": false, "incDockerCert": false}
	if err := os.WriteFile(wk.conf, mustJSON(conf), 0o600); err != nil {
		return nil, err
	}
	return wk, nil
}

func (wk *worker) close() {
	for _, s := range wk.srv {
		_ = s.Close()
	}
}

func (wk *worker) handler(name string) http.Handler {
	return http.HandlerFunc(func(rw http.ResponseWriter, r *http.Request) {
		wk.mu.Lock()
		n := wk.net
		wk.mu.Unlock()
		body, err := io.ReadAll(r.Body)
		if err != nil || n == nil {
			http.Error(rw, "x03drv: cannot read request", http.StatusBadGateway)
			return
		}
		req, err := http.NewRequestWithContext(r.Context(), r.Method, "http://"+name+r.URL.RequestURI(), bytes.NewReader(body))
		if err != nil {
			http.Error(rw, "x03drv: "+err.Error(), http.StatusBadGateway)
			return
		}
		req.Header = r.Header.Clone()
		req.ContentLength = int64(len(body))
		resp, err := n.RoundTrip(req)
		if err != nil {
			http.Error(rw, "x03drv: "+err.Error(), http.StatusBadGateway)
			return
		}
		defer resp.Body.Close()
		for k, v := range resp.Header {
			rw.Header()[k] = v
		}
		rw.WriteHeader(resp.StatusCode)
		_, _ = io.Copy(rw, resp.Body)
	})
}

// run is the state of one scenario being executed.
type run struct {
	wk      *worker
	sc      *scenario
	dir     string
	pj      *projector
	tgtH    *simreg.Host // nil for a layout target
	tgtRepo string
	tgtDir  string
	srcDir  map[string]string

	mu       sync.Mutex
	events   []vtrace.Event
	lastObs  string
	inCmd    bool
	nmut     int
	nread    int
	faultAt  int
	faulted  bool
	requests int
}

func (r *run) srcRef(repo string) string {
	if r.sc.Env.Skind == "dir" {
		return "ocidir://" + r.srcDir[repo]
	}
	return srcHost + "/" + repoPath[repo]
}

func (r *run) tgtBase() string {
	if r.sc.Tkind == "dir" {
		return "ocidir://" + r.tgtDir
	}
	return r.tgtH.Name + "/" + r.tgtRepo
}

func seedBody(p *pool, pj *projector, iv idxVal) ([]byte, error) {
	ents := []any{}
	for _, e := range iv.Ents {
		o, ok := p.obj[e.ID]
		if !ok {
			return nil, fmt.Errorf("seed entry %q", e.ID)
		}
		d := map[string]any{"mediaType": mtReal[e.Mt], "digest": o.dig, "size": len(o.body)}
		if e.Plat != "" {
			ps, ok := p.w.Plat[e.Plat]
			if !ok {
				return nil, fmt.Errorf("seed platform %q", e.Plat)
			}
			d["platform"] = platJSON(ps)
		}
		if a := annMap(e.Ann); a != nil {
			d["annotations"] = a
		}
		if e.X != "" {
			x := pj.extrasOf(e.X, e.ID)
			if x == nil {
				return nil, fmt.Errorf("seed extras %q", e.X)
			}
			for k, v := range x {
				d[k] = v
			}
		}
		ents = append(ents, d)
	}
	m := map[string]any{"schemaVersion": 2, "mediaType": mtReal[iv.Mt], "manifests": ents}
	if a := annMap(iv.Ann); a != nil {
		m["annotations"] = a
	}
	if iv.At != "" {
		m["artifactType"] = iv.At
	}
	return mustJSON(m), nil
}

func (r *run) setup() error {
	p := r.wk.p
	sc := r.sc
	nw := simreg.NewNet()
	sf := simreg.DefaultFeatures()
	sf.ReferrersAPI = sc.Env.Srcapi
	tf := simreg.DefaultFeatures()
	tf.ReferrersAPI = sc.Env.Tgtapi
	srcH := nw.AddHost(srcHost, sf)
	tgtH := nw.AddHost(tgtHost, tf)
	r.srcDir = map[string]string{}
	// sources
	for _, repo := range []string{"S1", "S2"} {
		tags := map[string]string{}
		for t, id := range p.w.Tags[repo] {
			tags[t] = p.obj[id].dig
		}
		for subj, id := range p.dtag[repo] {
			tags["sha256-"+strings.TrimPrefix(p.obj[subj].dig, "sha256:")+".sig"] = p.obj[id].dig
		}
		extra := map[string][]byte{}
		fallback := sc.Env.Skind == "dir" || !sc.Env.Srcapi
		if fallback {
			bySubj := map[string][]string{}
			for _, id := range p.w.Refer[repo] {
				s := p.obj[id].subj
				bySubj[s] = append(bySubj[s], id)
			}
			for s, ids := range bySubj {
				sort.Strings(ids)
				b := fallbackIndex(p, ids)
				extra[digestOf(b)] = b
				tags["sha256-"+strings.TrimPrefix(p.obj[s].dig, "sha256:")] = digestOf(b)
			}
		}
		if sc.Env.Skind == "dir" {
			dir := filepath.Join(r.dir, strings.ToLower(repo))
			r.srcDir[repo] = dir
			if err := writeLayout(dir, p, p.holds[repo], tags, extra, nil); err != nil {
				return err
			}
			continue
		}
		for _, id := range p.holds[repo] {
			o := p.obj[id]
			for _, b := range o.blobs {
				srcH.PutBlob(repoPath[repo], b)
			}
			srcH.PutManifest(repoPath[repo], "", o.mt, o.body)
		}
		for _, b := range extra {
			srcH.PutManifest(repoPath[repo], "", mtOCII, b)
		}
		sr := srcH.Repo(repoPath[repo])
		srcH.Lock()
		for t, d := range tags {
			sr.Tags[t] = d
		}
		srcH.Unlock()
	}
	r.wk.mu.Lock()
	r.wk.net = nw
	r.wk.mu.Unlock()
	// target
	it, ok := p.w.InitTag[sc.Init]
	if !ok {
		return fmt.Errorf("unknown init %q", sc.Init)
	}
	present := map[string]bool{}
	tags := map[string]string{}
	extra := map[string][]byte{}
	untagged := []string{}
	for _, id := range p.w.InitExtra[sc.Init] {
		p.reach(id, present)
		untagged = append(untagged, p.obj[id].dig)
	}
	switch it.K {
	case "pool":
		p.reach(it.ID, present)
		tags["v1"] = p.obj[it.ID].dig
	case "idx":
		b, err := seedBody(p, r.pj, *it.V)
		if err != nil {
			return err
		}
		for _, e := range it.V.Ents {
			p.reach(e.ID, present)
		}
		extra[digestOf(b)] = b
		tags["v1"] = digestOf(b)
	}
	ids := []string{}
	for id := range present {
		ids = append(ids, id)
	}
	sort.Strings(ids)
	if sc.Tkind == "dir" {
		if sc.Same {
			// the target is the layout of S1: add the initial target content to it
			r.tgtDir = r.srcDir["S1"]
			v := newDirView(r.tgtDir)
			all := map[string]bool{}
			for _, id := range p.holds["S1"] {
				all[id] = true
			}
			for _, id := range ids {
				all[id] = true
			}
			allIDs := []string{}
			for id := range all {
				allIDs = append(allIDs, id)
			}
			sort.Strings(allIDs)
			t2 := v.tags()
			for t, d := range tags {
				t2[t] = d
			}
			for d := range v.mts { // fallback indexes written above
				if b, _, ok := v.manifest(d); ok && p.byDig[d] == "" {
					extra[d] = b
				}
			}
			return writeLayout(r.tgtDir, p, allIDs, t2, extra, untagged)
		}
		r.tgtDir = filepath.Join(r.dir, "app")
		return writeLayout(r.tgtDir, p, ids, tags, extra, untagged)
	}
	r.tgtH, r.tgtRepo = tgtH, repoPath["T"]
	if sc.Env.Samehost || sc.Same {
		r.tgtH = srcH
	}
	if sc.Same {
		r.tgtRepo = repoPath["S1"]
	}
	for _, id := range ids {
		o := p.obj[id]
		for _, b := range o.blobs {
			r.tgtH.PutBlob(r.tgtRepo, b)
		}
		r.tgtH.PutManifest(r.tgtRepo, "", o.mt, o.body)
	}
	for _, b := range extra {
		var f struct {
			MediaType string `json:"mediaType"`
		}
		_ = json.Unmarshal(b, &f)
		r.tgtH.PutManifest(r.tgtRepo, "", f.MediaType, b)
	}
	tr := r.tgtH.Repo(r.tgtRepo) // the repository exists from now on
	r.tgtH.Lock()
	for t, d := range tags {
		tr.Tags[t] = d
	}
	// fault injection and observation of every state change of the target repository
	r.tgtH.Intercept = func(rq *simreg.Request) *simreg.Reply {
		r.mu.Lock()
		defer r.mu.Unlock()
		r.requests++
		if !r.inCmd || rq.Repo != r.tgtRepo {
			return nil
		}
		hit := false
		switch rq.Class {
		case "upload_post", "upload_put", "upload_patch", "manifest_put":
			r.nmut++
			hit = r.sc.Fault.Kind != "read" && r.nmut == r.faultAt
		case "blob_get":
			r.nread++
			hit = r.sc.Fault.Kind == "read" && r.nread == r.faultAt
		}
		{
			if r.faultAt > 0 && hit {
				r.faulted = true
				h := http.Header{}
				h.Set("Content-Type", "application/json")
				return &simreg.Reply{Status: http.StatusForbidden, Header: h,
					Body: []byte(`{"errors":[{"code":"DENIED","message":"x03: request refused by the environment"}]}`)}
			}
		}
		return nil
	}
	r.tgtH.After = func(rq *simreg.Request) {
		if !rq.Mutated || rq.Repo != r.tgtRepo {
			return
		}
		o := r.pj.observe(regView{r.tgtH.Repos[r.tgtRepo]})
		key := string(mustJSON([]any{o.Tag, o.Missing}))
		r.mu.Lock()
		defer r.mu.Unlock()
		if key == r.lastObs || !r.inCmd {
			return
		}
		r.lastObs = key
		r.events = append(r.events, vtrace.Event{"ev": "obs", "tag": o.Tag, "missing": o.Missing, "seq": rq.Seq,
			"req": rq.Method + " " + rq.Class})
	}
	r.tgtH.Unlock()
	return nil
}

func (r *run) observeNow() observation {
	if r.sc.Tkind == "dir" {
		return r.pj.observe(newDirView(r.tgtDir))
	}
	r.tgtH.Lock()
	defer r.tgtH.Unlock()
	return r.pj.observe(regView{r.tgtH.Repos[r.tgtRepo]})
}

func flagKV(f kv) string {
	if f.V == "" {
		return f.K
	}
	return f.K + "=" + f.V
}

func (r *run) digestArg(id string) string {
	if o, ok := r.wk.p.obj[id]; ok {
		return o.dig
	}
	return id
}

func (r *run) argv(c command) ([]string, error) {
	p := r.wk.p
	a := []string{"index", c.Op}
	for _, name := range c.Refs {
		rs, ok := p.w.Ref[name]
		if !ok {
			return nil, fmt.Errorf("unknown reference %q", name)
		}
		base := r.srcRef(rs.Repo)
		if rs.By == "tag" {
			a = append(a, "--ref", base+":"+name[strings.Index(name, ":")+1:])
		} else {
			id := rs.Man
			if id == "none" {
				id = p.w.RefDig[name]
			}
			a = append(a, "--ref", base+"@"+r.digestArg(id))
		}
	}
	for _, s := range c.Plats {
		a = append(a, "--platform", s)
	}
	for _, id := range c.Digs {
		a = append(a, "--digest", r.digestArg(id))
	}
	if c.Op != "delete" {
		for _, f := range c.Dann {
			a = append(a, "--desc-annotation", flagKV(f))
		}
		if c.Dplat != "" {
			a = append(a, "--desc-platform", c.Dplat)
		}
		if c.Dtags {
			a = append(a, "--digest-tags")
		}
		if c.Rfr {
			a = append(a, "--referrers")
		}
	}
	if c.Op == "create" {
		switch c.Mt {
		case "oci":
		case "docker":
			a = append(a, "--media-type", mtDKL)
		default:
			a = append(a, "--media-type", mtOCIM)
		}
		for _, f := range c.Ann {
			a = append(a, "--annotation", flagKV(f))
		}
		if c.At != "" {
			a = append(a, "--artifact-type", c.At)
		}
		if c.Subj == "v1" {
			a = append(a, "--subject", "v1")
		} else if c.Subj != "" {
			a = append(a, "--subject", r.digestArg(c.Subj))
		}
		if c.Bydig {
			a = append(a, "--by-digest")
		}
	}
	a = append(a, r.tgtBase()+":v1")
	return a, nil
}

var reDigestLine = regexp.MustCompile(`sha256:[0-9a-f]{64}`)

func kvList(l []kv) []any {
	out := []any{}
	for _, f := range l {
		out = append(out, map[string]any{"k": f.K, "v": f.V})
	}
	return out
}

func strList(l []string) []string {
	if l == nil {
		return []string{}
	}
	return l
}

func b2i(b bool) int {
	if b {
		return 1
	}
	return 0
}

func (r *run) exec(i int, c command, meta *[]map[string]any) error {
	args, err := r.argv(c)
	if err != nil {
		return err
	}
	r.mu.Lock()
	r.events = append(r.events, vtrace.Event{"ev": "cmd", "op": c.Op, "refs": strList(c.Refs), "plats": strList(c.Plats),
		"digs": strList(c.Digs), "dann": kvList(c.Dann), "dplat": c.Dplat, "mt": c.Mt, "ann": kvList(c.Ann), "at": c.At,
		"subj": c.Subj, "bydig": b2i(c.Bydig), "dtags": b2i(c.Dtags), "rfr": b2i(c.Rfr), "argv": strings.Join(args, " ")})
	r.inCmd, r.nmut, r.nread, r.faulted, r.faultAt = true, 0, 0, false, 0
	if r.sc.Fault.Cmd == i+1 && r.sc.Tkind == "reg" {
		r.faultAt = r.sc.Fault.At
	}
	r.mu.Unlock()

	ctx, cancel := context.WithTimeout(context.Background(), r.wk.opt.timeout)
	defer cancel()
	cmd := exec.CommandContext(ctx, r.wk.opt.regctl, args...)
	cmd.Env = []string{"HOME=" + r.wk.dir, "REGCTL_CONFIG=" + r.wk.conf, "PATH=/usr/bin:/bin", "TMPDIR=" + r.wk.dir}
	cmd.Dir = r.dir
	var so, se bytes.Buffer
	cmd.Stdout, cmd.Stderr = &so, &se
	t0 := time.Now()
	err = cmd.Run()
	rc := 0
	if err != nil {
		if ctx.Err() != nil {
			return fmt.Errorf("stall: regctl did not end within %s: %s", r.wk.opt.timeout, strings.Join(args, " "))
		}
		if ee, ok := err.(*exec.ExitError); ok {
			rc = ee.ExitCode()
		} else {
			return fmt.Errorf("cannot run regctl: %w", err)
		}
	}
	if r.wk.opt.verbose {
		fmt.Fprintf(os.Stderr, "[%s] regctl %s -> rc=%d %s %s\n", r.sc.ID, strings.Join(args, " "), rc, so.String(), se.String())
	}
	o := r.observeNow()
	pushed := tagVal{K: "none"}
	if c.Op == "create" && c.Bydig && rc == 0 {
		if d := reDigestLine.FindString(so.String()); d != "" {
			if r.sc.Tkind == "dir" {
				pushed = r.pj.project(d, newDirView(r.tgtDir))
			} else {
				r.tgtH.Lock()
				pushed = r.pj.project(d, regView{r.tgtH.Repos[r.tgtRepo]})
				r.tgtH.Unlock()
			}
		}
	}
	r.mu.Lock()
	r.inCmd = false
	stderr := se.String()
	if len(stderr) > 300 {
		stderr = stderr[len(stderr)-300:]
	}
	r.events = append(r.events, vtrace.Event{"ev": "done", "rc": rc, "faulted": b2i(r.faulted), "tag": o.Tag,
		"missing": o.Missing, "have": o.Have, "xt": o.Xt, "pushed": pushed, "err": strings.TrimSpace(stderr)})
	r.lastObs = string(mustJSON([]any{o.Tag, o.Missing}))
	*meta = append(*meta, map[string]any{"rc": rc, "faulted": r.faulted, "tag": o.Tag, "have": o.Have, "xt": o.Xt,
		"ms": time.Since(t0).Milliseconds(), "mutations": r.nmut})
	r.mu.Unlock()
	return nil
}

func (wk *worker) runScenario(sc *scenario) *vtrace.Trace {
	r := &run{wk: wk, sc: sc, dir: filepath.Join(wk.dir, sc.ID), pj: &projector{p: wk.p, selfDigs: map[string]bool{}}}
	t := &vtrace.Trace{ID: sc.ID, Meta: map[string]any{}}
	fail := func(err error) *vtrace.Trace {
		t.Meta["error"] = err.Error()
		t.Events = r.events
		return t
	}
	if err := os.MkdirAll(r.dir, 0o755); err != nil {
		return fail(err)
	}
	if !wk.opt.keep {
		defer os.RemoveAll(r.dir)
	}
	if err := r.setup(); err != nil {
		return fail(err)
	}
	o := r.observeNow()
	r.lastObs = string(mustJSON([]any{o.Tag, o.Missing}))
	t.Header = map[string]any{"tag": o.Tag, "have": o.Have, "init": sc.Init, "tkind": sc.Tkind, "same": b2i(sc.Same),
		"missing0": o.Missing}
	results := []map[string]any{}
	for i, c := range sc.Cmds {
		if err := r.exec(i, c, &results); err != nil {
			t.Meta["results"] = results
			return fail(err)
		}
	}
	t.Events = r.events
	t.Meta["results"] = results
	t.Meta["requests"] = r.requests
	return t
}

func fatal(f string, a ...any) {
	fmt.Fprintf(os.Stderr, "x03drv: "+f+"\n", a...)
	os.Exit(2)
}

func main() {
	var (
		in      = flag.String("in", "", "scenario file (JSON lines)")
		out     = flag.String("out", "", "trace file (JSON lines)")
		wfile   = flag.String("world", "", "world file (JSON)")
		workers = flag.Int("workers", runtime.NumCPU(), "parallel scenarios")
		dump    = flag.Bool("dumppool", false, "print the digests of the pool and exit")
		opt     options
	)
	flag.StringVar(&opt.regctl, "regctl", "", "path of the regctl binary under test")
	flag.StringVar(&opt.scratch, "scratch", "", "scratch directory")
	flag.BoolVar(&opt.keep, "keep", false, "keep per-scenario directories")
	flag.BoolVar(&opt.verbose, "v", false, "print regctl output")
	flag.DurationVar(&opt.timeout, "timeout", 90*time.Second, "time limit of one regctl command (tooling)")
	flag.Parse()
	if *wfile == "" {
		fatal("usage: x03drv -world world.json -regctl bin -in scn.jsonl -out traces.jsonl -scratch dir")
	}
	wb, err := os.ReadFile(*wfile)
	if err != nil {
		fatal("%v", err)
	}
	w := &world{}
	if err := json.Unmarshal(wb, w); err != nil {
		fatal("world: %v", err)
	}
	p, err := buildPool(w)
	if err != nil {
		fatal("%v", err)
	}
	if *dump {
		for id, o := range p.obj {
			fmt.Printf("%s %s %s %d\n", id, o.dig, o.mt, len(o.body))
		}
		return
	}
	if *in == "" || *out == "" || opt.regctl == "" || opt.scratch == "" {
		fatal("usage: x03drv -world world.json -regctl bin -in scn.jsonl -out traces.jsonl -scratch dir")
	}
	if opt.scratch, err = filepath.Abs(opt.scratch); err != nil {
		fatal("%v", err)
	}
	if opt.regctl, err = filepath.Abs(opt.regctl); err != nil {
		fatal("%v", err)
	}
	var scns []*scenario
	err = vtrace.ReadLines(*in, func(line []byte) error {
		sc := &scenario{}
		if err := json.Unmarshal(line, sc); err != nil {
			return err
		}
		scns = append(scns, sc)
		return nil
	})
	if err != nil {
		fatal("reading scenarios: %v", err)
	}
	tw, err := vtrace.NewWriter(*out)
	if err != nil {
		fatal("%v", err)
	}
	if *workers < 1 {
		*workers = 1
	}
	if *workers > 16 {
		*workers = 16
	}
	jobs := make(chan *scenario)
	var wg sync.WaitGroup
	var werr error
	var emu sync.Mutex
	for i := 0; i < *workers; i++ {
		wk, err := newWorker(i, &opt, p)
		if err != nil {
			fatal("%v", err)
		}
		wg.Add(1)
		go func() {
			defer wg.Done()
			defer wk.close()
			for sc := range jobs {
				t := wk.runScenario(sc)
				if err := tw.Write(t); err != nil {
					emu.Lock()
					werr = err
					emu.Unlock()
				}
			}
		}()
	}
	for _, sc := range scns {
		jobs <- sc
	}
	close(jobs)
	wg.Wait()
	if err := tw.Close(); err != nil {
		fatal("%v", err)
	}
	if werr != nil {
		fatal("%v", werr)
	}
}

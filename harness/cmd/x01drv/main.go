// x01drv executes scenarios of spec/ThrottleUseGen.tla (X01: how regclient's operations use the
// per-host request throttles) on the real code and records, in one totally ordered stream,
//   - the throttle's own events (hooks of internal/pqueue, build tag verif), attributed to the
//     goroutine that made the call,
//   - what reaches the wire (a tracing RoundTripper in front of the model registry: request sent by
//     which goroutine to which host, response body read / closed),
//   - the driver's observations (configuration, calibration of host -> queue, every call returned
//     and every reader closed, or: every unfinished caller is parked inside Acquire).
//
// The driver only records; spec/ThrottleUseProp.tla judges.
package main

import (
	"bytes"
	"context"
	"encoding/json"
	"errors"
	"flag"
	"fmt"
	"io"
	"log/slog"
	"math/rand"
	"net/http"
	"os"
	"runtime"
	"sort"
	"strconv"
	"strings"
	"sync"
	"sync/atomic"
	"time"

	"github.com/opencontainers/go-digest"

	"github.com/regclient/regclient"
	"github.com/regclient/regclient/config"
	"github.com/regclient/regclient/internal/pqueue"
	"github.com/regclient/regclient/internal/reqmeta"
	"github.com/regclient/regclient/scheme/reg"
	"github.com/regclient/regclient/types/descriptor"
	"github.com/regclient/regclient/types/manifest"
	"github.com/regclient/regclient/types/ref"
	"github.com/regclient/regclient/zzverif/simreg"
	"github.com/regclient/regclient/zzverif/vtrace"
)

type prog struct {
	Kind     string   `json:"kind"`
	Hosts    []string `json:"hosts"`
	Fail     int      `json:"fail"`
	Restarts int      `json:"restarts"`
	Cancel   bool     `json:"cancel"`
}

type scenario struct {
	Max  map[string]int  `json:"max"`
	Prog map[string]prog `json:"prog"`
}

var hostName = map[string]string{"a": "reg-a.example", "m": "mirror-a.example", "b": "reg-b.example"}
var hostShort = map[string]string{"reg-a.example": "a", "mirror-a.example": "m", "reg-b.example": "b"}

func goid() int64 {
	var buf [64]byte
	b := buf[:runtime.Stack(buf[:], false)]
	b = bytes.TrimPrefix(b, []byte("goroutine "))
	i := bytes.IndexByte(b, ' ')
	n, _ := strconv.ParseInt(string(b[:i]), 10, 64)
	return n
}

// ---------------------------------------------------------------- recorder
type recorder struct {
	mu     sync.Mutex
	events []vtrace.Event
	// cancel hooks: a caller whose context is to be cancelled while it waits in a queue
	cancelOnEnqueue map[int64]context.CancelFunc
}

var cur atomic.Pointer[recorder]

func (r *recorder) emit(ev vtrace.Event) {
	r.mu.Lock()
	r.events = append(r.events, ev)
	r.mu.Unlock()
}

func installHooks() {
	pqueue.VerifGate = nil
	pqueue.VerifMulti = nil
	pqueue.VerifEvent = func(kind string, q any, e any, max, active, queued int, locked bool) {
		r := cur.Load()
		if r == nil {
			return
		}
		qq, ok := q.(*pqueue.Queue[reqmeta.Data])
		if !ok {
			return
		}
		g := goid()
		r.mu.Lock()
		r.events = append(r.events, vtrace.Event{"ev": kind, "q": fmt.Sprintf("q%d", pqueue.VerifQueueID(qq)), "e": fmt.Sprintf("%p", e),
			"g": g, "max": max, "act": active, "que": queued})
		var cancel context.CancelFunc
		if kind == "enqueue" {
			cancel = r.cancelOnEnqueue[g]
			delete(r.cancelOnEnqueue, g)
		}
		r.mu.Unlock()
		if cancel != nil {
			// the caller now waits: its context ends (from another goroutine, the queue mutex is held here)
			go cancel()
		}
	}
}

// ---------------------------------------------------------------- tracing transport
type tracer struct {
	base http.RoundTripper
	rid  atomic.Int64
}

type tbody struct {
	rc io.ReadCloser
	id int64
}

func (b *tbody) Read(p []byte) (int, error) {
	if r := cur.Load(); r != nil {
		r.emit(vtrace.Event{"ev": "read", "r": b.id, "g": goid()})
	}
	return b.rc.Read(p)
}

func (b *tbody) Close() error {
	if r := cur.Load(); r != nil {
		r.emit(vtrace.Event{"ev": "bclose", "r": b.id})
	}
	return b.rc.Close()
}

func (t *tracer) RoundTrip(req *http.Request) (*http.Response, error) {
	id := t.rid.Add(1)
	h := req.URL.Host
	if s, ok := hostShort[h]; ok {
		h = s
	}
	if r := cur.Load(); r != nil {
		r.emit(vtrace.Event{"ev": "send", "host": h, "g": goid(), "r": id, "method": req.Method, "path": req.URL.Path})
	}
	resp, err := t.base.RoundTrip(req)
	st := 0
	if resp != nil {
		st = resp.StatusCode
		if resp.Body != nil {
			resp.Body = &tbody{rc: resp.Body, id: id}
		}
	}
	if r := cur.Load(); r != nil {
		r.emit(vtrace.Event{"ev": "resp", "r": id, "status": st})
	}
	return resp, err
}

// ---------------------------------------------------------------- fixture
const (
	mtManifest = "application/vnd.oci.image.manifest.v1+json"
	mtConfig   = "application/vnd.oci.image.config.v1+json"
	mtLayer    = "application/vnd.oci.image.layer.v1.tar+gzip"
)

type image struct {
	manifest []byte
	digest   string
	config   []byte
	layers   [][]byte
	layerDig []string
	confDig  string
}

func mkImage(seed string) image {
	var im image
	im.config = []byte(fmt.Sprintf(`{"architecture":"amd64","os":"linux","rootfs":{"type":"layers","diff_ids":[]},"x":%q}`, seed))
	im.confDig = simreg.Digest("sha256", im.config)
	var ls []string
	for i := 0; i < 2; i++ {
		l := bytes.Repeat([]byte(fmt.Sprintf("%s-layer-%d|", seed, i)), 4000+500*i) // ~50-70 kB: several reads
		im.layers = append(im.layers, l)
		d := simreg.Digest("sha256", l)
		im.layerDig = append(im.layerDig, d)
		ls = append(ls, fmt.Sprintf(`{"mediaType":%q,"digest":%q,"size":%d}`, mtLayer, d, len(l)))
	}
	im.manifest = []byte(fmt.Sprintf(`{"schemaVersion":2,"mediaType":%q,"config":{"mediaType":%q,"digest":%q,"size":%d},"layers":[%s]}`,
		mtManifest, mtConfig, im.confDig, len(im.config), strings.Join(ls, ",")))
	im.digest = simreg.Digest("sha256", im.manifest)
	return im
}

func seedRepo(h *simreg.Host, repo string, im image) {
	h.PutBlob(repo, im.config)
	for _, l := range im.layers {
		h.PutBlob(repo, l)
	}
	h.PutManifest(repo, "v1", mtManifest, im.manifest)
}

// ---------------------------------------------------------------- one scenario
type opState struct {
	name    string
	p       prog
	api     string
	failHow string // for a copy that has to fail: missing (source lacks the blob), target (uploads refused), source (downloads refused)
	repo    string
	g       int64
	ctx     context.Context
	cancel  context.CancelFunc
	done    chan struct{}
	err     error
}

type run struct {
	rec    *recorder
	net    *simreg.Net
	rc     *regclient.RegClient
	im     image
	faults map[string]*int32 // repo -> failing requests left
	fskip  map[string]*int32 // repo -> requests to let through before the first failing one
	fkind  map[string]string
	rng    *rand.Rand
}

func (x *run) intercept(h *simreg.Host) func(rq *simreg.Request) *simreg.Reply {
	return func(rq *simreg.Request) *simreg.Reply {
		left, ok := x.faults[rq.Repo]
		if !ok {
			return nil
		}
		if atomic.AddInt32(x.fskip[rq.Repo], -1) >= 0 {
			return nil
		}
		if atomic.AddInt32(left, -1) < 0 {
			return nil
		}
		body := []byte(`{"errors":[{"code":"UNKNOWN","message":"injected"}]}`)
		switch x.fkind[rq.Repo] {
		case "reset":
			return &simreg.Reply{Err: errors.New("connection reset by peer")}
		case "403":
			return &simreg.Reply{Status: 403, Header: http.Header{"Content-Type": {"application/json"}}, Body: body}
		case "429":
			return &simreg.Reply{Status: 429, Header: http.Header{"Content-Type": {"application/json"}}, Body: body}
		case "502":
			return &simreg.Reply{Status: 502, Header: http.Header{"Content-Type": {"application/json"}}, Body: body}
		case "trunc":
			if rq.Class == "blob_get" {
				return &simreg.Reply{ServeThenTruncate: true, TruncateAt: 1000}
			}
			return &simreg.Reply{Status: 500, Header: http.Header{"Content-Type": {"application/json"}}, Body: body}
		default:
			return &simreg.Reply{Status: 500, Header: http.Header{"Content-Type": {"application/json"}}, Body: body}
		}
	}
}

var apis = map[string][]string{
	"req/read":  {"mget", "mhead", "taglist", "bhead", "reflist", "config"},
	"req/write": {"mput", "tagdel", "bput", "bput-once", "bput-stream", "bdel", "mdel"},
	"reader":    {"full", "partial", "abandon", "seek"},
	"copy":      {"blobcopy", "imagecopy"},
}

func (x *run) mkRef(h, repo, suffix string) ref.Ref {
	r, err := ref.New(hostName[h] + "/" + repo + suffix)
	if err != nil {
		fail(err)
	}
	return r
}

// body of one caller
func (x *run) doOp(o *opState) error {
	ctx := o.ctx
	last := o.p.Hosts[len(o.p.Hosts)-1]
	switch o.p.Kind {
	case "req":
		h := last
		r := x.mkRef(h, o.repo, ":v1")
		switch o.api {
		case "mget":
			_, err := x.rc.ManifestGet(ctx, r)
			return err
		case "mhead":
			_, err := x.rc.ManifestHead(ctx, r)
			return err
		case "taglist":
			_, err := x.rc.TagList(ctx, r)
			return err
		case "bhead":
			b, err := x.rc.BlobHead(ctx, r, descriptor.Descriptor{Digest: digestOf(x.im.layerDig[0])})
			if err == nil {
				_ = b.Close()
			}
			return err
		case "reflist":
			_, err := x.rc.ReferrerList(ctx, x.mkRef(h, o.repo, "@"+x.im.digest))
			return err
		case "config":
			_, err := x.rc.BlobGetOCIConfig(ctx, r, descriptor.Descriptor{Digest: digestOf(x.im.confDig)})
			return err
		case "mput":
			m, err := manifest.New(manifest.WithRaw(x.im.manifest), manifest.WithDesc(descriptor.Descriptor{MediaType: mtManifest}))
			if err != nil {
				fail(err)
			}
			return x.rc.ManifestPut(ctx, x.mkRef(h, o.repo, ":new"), m)
		case "tagdel":
			return x.rc.TagDelete(ctx, r)
		case "bput":
			c := []byte("blob of " + o.name)
			_, err := x.rc.BlobPut(ctx, r, descriptor.Descriptor{Digest: digestOf(simreg.Digest("sha256", c)), Size: int64(len(c))}, bytes.NewReader(c))
			return err
		case "bput-once":
			// known digest and size, but a source that can be read only once
			c := bytes.Repeat([]byte("once of "+o.name+"|"), 200)
			_, err := x.rc.BlobPut(ctx, r, descriptor.Descriptor{Digest: digestOf(simreg.Digest("sha256", c)), Size: int64(len(c))}, io.MultiReader(bytes.NewReader(c)))
			return err
		case "bput-stream":
			c := bytes.Repeat([]byte("stream of "+o.name+"|"), 3000)
			_, err := x.rc.BlobPut(ctx, r, descriptor.Descriptor{}, io.MultiReader(bytes.NewReader(c)))
			return err
		case "bdel":
			return x.rc.BlobDelete(ctx, r, descriptor.Descriptor{Digest: digestOf(x.im.layerDig[1])})
		case "mdel":
			return x.rc.ManifestDelete(ctx, x.mkRef(h, o.repo, "@"+x.im.digest))
		}
	case "reader":
		r := x.mkRef(last, o.repo, ":v1")
		d := descriptor.Descriptor{Digest: digestOf(x.im.layerDig[0]), Size: int64(len(x.im.layers[0]))}
		br, err := x.rc.BlobGet(ctx, r, d)
		if err != nil {
			return err
		}
		buf := make([]byte, 3000)
		var rerr error
		switch o.api {
		case "abandon":
		case "partial":
			_, rerr = io.ReadFull(br, buf)
		case "full":
			_, rerr = io.Copy(io.Discard, br)
		case "seek":
			_, rerr = io.ReadFull(br, buf)
		}
		for i := 0; i < o.p.Restarts && rerr == nil; i++ {
			// a seek to another offset restarts the request
			if _, rerr = br.Seek(0, io.SeekStart); rerr == nil {
				_, rerr = io.ReadFull(br, buf)
			}
		}
		if o.api == "seek" && rerr == nil {
			_, rerr = io.Copy(io.Discard, br)
		}
		cerr := br.Close()
		if rerr != nil {
			return rerr
		}
		return cerr
	case "copy":
		// hosts: the source's queues (mirror, upstream) followed by the target's
		src := o.p.Hosts[0]
		if src == "m" {
			src = "a"
		}
		tgt := last
		if len(o.p.Hosts) == 2 && o.p.Hosts[0] != o.p.Hosts[1] {
			// <<a, b>>: from b (no mirror) to a
			src, tgt = "b", "a"
		}
		rs, rt := x.mkRef(src, o.repo, ":v1"), x.mkRef(tgt, o.repo+"-copy", ":v1")
		if o.api == "imagecopy" {
			return x.rc.ImageCopy(ctx, rs, rt)
		}
		d := descriptor.Descriptor{Digest: digestOf(x.im.layerDig[0]), Size: int64(len(x.im.layers[0]))}
		if o.p.Fail > 0 && o.failHow == "missing" {
			// the source does not have the blob
			c := []byte("nowhere " + o.name)
			d = descriptor.Descriptor{Digest: digestOf(simreg.Digest("sha256", c)), Size: int64(len(c))}
		}
		return x.rc.BlobCopy(ctx, rs, rt, d)
	}
	return fmt.Errorf("driver: unknown program %v / %s", o.p, o.api)
}

func runScenario(id string, sc scenario, rng *rand.Rand) *vtrace.Trace {
	rec := &recorder{cancelOnEnqueue: map[int64]context.CancelFunc{}}
	x := &run{rec: rec, net: simreg.NewNet(), im: mkImage("x01"), faults: map[string]*int32{}, fskip: map[string]*int32{}, fkind: map[string]string{}, rng: rng}
	tr := &vtrace.Trace{ID: id, Meta: map[string]any{"scenario": sc}}
	hosts := map[string]*simreg.Host{}
	for _, s := range []string{"a", "m", "b"} {
		f := simreg.DefaultFeatures()
		if rng.Intn(3) == 0 {
			f.ReferrersAPI = false
		}
		if rng.Intn(3) == 0 {
			f.Mount = false
		}
		if rng.Intn(3) == 0 {
			f.AnonBlobPOSTPut = false
		}
		h := x.net.AddHost(hostName[s], f)
		h.Intercept = x.intercept(h)
		hosts[s] = h
	}
	// content: calibration repositories and one repository per caller
	seedRepo(hosts["a"], "calib", x.im)
	seedRepo(hosts["m"], "calib", x.im)
	seedRepo(hosts["a"], "calib-a", x.im)
	seedRepo(hosts["b"], "calib", x.im)
	names := make([]string, 0, len(sc.Prog))
	for n := range sc.Prog {
		names = append(names, n)
	}
	sort.Strings(names)
	ops := []*opState{}
	fkinds := []string{"500", "429", "502", "reset", "trunc"}
	for _, n := range names {
		p := sc.Prog[n]
		o := &opState{name: n, p: p, repo: "repo-" + n, done: make(chan struct{})}
		switch {
		case p.Kind == "req" && len(p.Hosts) == 1 && p.Hosts[0] == "a":
			o.api = apis["req/write"][rng.Intn(len(apis["req/write"]))]
		case p.Kind == "req" && p.Hosts[0] == "b" && rng.Intn(2) == 0:
			o.api = apis["req/write"][rng.Intn(len(apis["req/write"]))]
		case p.Kind == "req":
			o.api = apis["req/read"][rng.Intn(len(apis["req/read"]))]
		default:
			o.api = apis[p.Kind][rng.Intn(len(apis[p.Kind]))]
		}
		for _, s := range []string{"a", "b"} {
			seedRepo(hosts[s], o.repo, x.im)
		}
		// the mirror has the repository unless the program goes to the upstream only
		if !(len(p.Hosts) == 1 && p.Hosts[0] == "a") && rng.Intn(4) != 0 {
			seedRepo(hosts["m"], o.repo, x.im)
		}
		if p.Kind == "copy" && p.Fail > 0 {
			// an inner request fails for good
			o.failHow = []string{"missing", "target", "source"}[rng.Intn(3)]
			n := int32(1000)
			k := int32(0)
			switch o.failHow {
			case "target":
				x.faults[o.repo+"-copy"], x.fskip[o.repo+"-copy"], x.fkind[o.repo+"-copy"] = &n, &k, []string{"500", "403"}[rng.Intn(2)]
			case "source":
				x.faults[o.repo], x.fskip[o.repo], x.fkind[o.repo] = &n, &k, []string{"500", "403", "reset"}[rng.Intn(3)]
			}
		} else if p.Fail > 0 {
			n := int32(p.Fail)
			x.faults[o.repo] = &n
			// which request of the operation fails first (an operation is one to several requests)
			k := int32(0)
			if rng.Intn(2) == 0 {
				k = int32(1 + rng.Intn(2))
			}
			x.fskip[o.repo] = &k
			x.fkind[o.repo] = fkinds[rng.Intn(len(fkinds))]
		}
		o.ctx, o.cancel = context.WithCancel(context.Background())
		ops = append(ops, o)
	}
	chosts := []config.Host{}
	for _, s := range []string{"a", "m", "b"} {
		ch := config.Host{Name: hostName[s], Hostname: hostName[s], TLS: config.TLSDisabled, ReqConcurrent: int64(sc.Max[s])}
		if s == "a" {
			ch.Mirrors = []string{hostName["m"]}
		}
		chosts = append(chosts, ch)
		rec.emit(vtrace.Event{"ev": "conf", "host": s, "max": sc.Max[s]})
	}
	x.rc = regclient.New(regclient.WithConfigHost(chosts...),
		regclient.WithRegOpts(reg.WithHTTPClient(&http.Client{Transport: &tracer{base: x.net}}),
			reg.WithDelay(time.Millisecond, 8*time.Millisecond), reg.WithRetryLimit(3),
			reg.WithSlog(slog.New(slog.NewTextHandler(io.Discard, &slog.HandlerOptions{})))))
	cur.Store(rec)
	defer cur.Store(nil)

	// calibration: requests sent alone show which queue serves which host
	calib := func(r ref.Ref) {
		from := len(rec.events)
		if _, err := x.rc.ManifestHead(context.Background(), r); err != nil {
			tr.Meta["calib_error"] = err.Error()
		}
		rec.mu.Lock()
		evs := append([]vtrace.Event(nil), rec.events[from:]...)
		rec.mu.Unlock()
		lastQ, lastMax := "", 0
		for _, e := range evs {
			switch e["ev"] {
			case "acq_fast":
				lastQ, lastMax = e["q"].(string), e["max"].(int)
			case "send":
				if lastQ != "" {
					rec.emit(vtrace.Event{"ev": "calib", "host": e["host"], "q": lastQ, "max": lastMax})
				}
			}
		}
	}
	calib(x.mkRef("a", "calib", ":v1"))   // answered by the mirror
	calib(x.mkRef("a", "calib-a", ":v1")) // the mirror lacks it: upstream
	calib(x.mkRef("b", "calib", ":v1"))

	// the callers, started in random order with random small gaps
	order := rng.Perm(len(ops))
	var wg sync.WaitGroup
	for _, i := range order {
		o := ops[i]
		wg.Add(1)
		started := make(chan struct{})
		go func() {
			defer wg.Done()
			defer close(o.done)
			o.g = goid()
			rec.emit(vtrace.Event{"ev": "op", "op": o.name, "g": o.g, "kind": o.p.Kind, "api": o.api + o.failHow, "repo": o.repo})
			if o.p.Cancel {
				rec.mu.Lock()
				rec.cancelOnEnqueue[o.g] = o.cancel
				rec.mu.Unlock()
			}
			close(started)
			o.err = x.doOp(o)
			es := ""
			if o.err != nil {
				es = o.err.Error()
				if len(es) > 160 {
					es = es[:160]
				}
			}
			rec.emit(vtrace.Event{"ev": "opret", "op": o.name, "err": es})
		}()
		<-started
		for k := rng.Intn(3); k > 0; k-- {
			runtime.Gosched()
		}
	}
	allDone := make(chan struct{})
	go func() { wg.Wait(); close(allDone) }()
	verdict := ""
	deadline := time.Now().Add(45 * time.Second)
wait:
	for {
		select {
		case <-allDone:
			verdict = "final"
			break wait
		case <-time.After(50 * time.Millisecond):
		}
		// every unfinished caller parked inside Acquire, observed twice with no event in between:
		// nobody is left who could release a slot
		if parkedAll(ops) {
			n1 := rec.count()
			time.Sleep(100 * time.Millisecond)
			if parkedAll(ops) && rec.count() == n1 {
				select {
				case <-allDone:
					verdict = "final"
				default:
					verdict = "stuck"
				}
				break wait
			}
		}
		if time.Now().After(deadline) {
			verdict = "stall"
			break wait
		}
	}
	switch verdict {
	case "final":
		rec.emit(vtrace.Event{"ev": "final"})
	case "stuck":
		w := []string{}
		for _, o := range ops {
			select {
			case <-o.done:
			default:
				w = append(w, o.name+":"+o.api)
			}
		}
		rec.emit(vtrace.Event{"ev": "stuck", "waiting": strings.Join(w, ",")})
	default:
		tr.Meta["stall"] = "callers neither finished nor parked in Acquire"
		if os.Getenv("VERIF_DEBUG") != "" {
			buf := make([]byte, 1<<20)
			fmt.Fprintf(os.Stderr, "%s\n", buf[:runtime.Stack(buf, true)])
		}
	}
	rec.mu.Lock()
	tr.Events = append([]vtrace.Event(nil), rec.events...)
	rec.mu.Unlock()
	cur.Store(nil)
	// let the goroutines of an abandoned scenario end
	for _, o := range ops {
		o.cancel()
	}
	if verdict != "final" {
		select {
		case <-allDone:
		case <-time.After(5 * time.Second):
			tr.Meta["leaked_goroutines"] = true
		}
	}
	apisUsed := map[string]string{}
	for _, o := range ops {
		apisUsed[o.name] = o.api
	}
	tr.Meta["apis"] = apisUsed
	return tr
}

func (r *recorder) count() int {
	r.mu.Lock()
	defer r.mu.Unlock()
	return len(r.events)
}

// parkedAll: every caller that has not returned sits in the select of pqueue's Acquire, and no
// other goroutine of the code under test is running
func parkedAll(ops []*opState) bool {
	buf := make([]byte, 1<<21)
	n := runtime.Stack(buf, true)
	unfinished := map[int64]bool{}
	for _, o := range ops {
		select {
		case <-o.done:
		default:
			unfinished[o.g] = true
		}
	}
	if len(unfinished) == 0 {
		return false
	}
	parked := 0
	for _, g := range strings.Split(string(buf[:n]), "\n\n") {
		if !strings.Contains(g, "regclient/regclient") || strings.Contains(g, "x01drv.parkedAll") {
			continue
		}
		if strings.Contains(g, "x01drv.runScenario") && !strings.Contains(g, "x01drv.(*run).doOp") {
			continue // the scheduler and its helper goroutines
		}
		if strings.Contains(g, "x01drv.main") && !strings.Contains(g, "x01drv.(*run).doOp") {
			continue
		}
		head := g[:strings.IndexByte(g, '\n')]
		if strings.Contains(head, "[select") && strings.Contains(g, "pqueue.(*Queue") && strings.Contains(g, ".Acquire") {
			parked++
			continue
		}
		if strings.Contains(head, "[semacquire") && strings.Contains(g, "sync.(*WaitGroup).Wait") {
			continue // a caller waiting for its own sub-goroutines (ImageCopy)
		}
		if strings.Contains(head, "[chan receive") && strings.Contains(g, "regclient.(*RegClient).imageCopy") {
			continue
		}
		return false // something of the code under test is running or blocked elsewhere
	}
	return parked > 0
}

func digestOf(s string) digest.Digest { return digest.Digest(s) }

func fail(err error) {
	fmt.Fprintln(os.Stderr, "x01drv:", err)
	os.Exit(2)
}

func main() {
	in := flag.String("in", "", "scenarios (JSON lines)")
	out := flag.String("out", "", "traces (JSON lines)")
	seed := flag.Int64("seed", 1, "seed")
	flag.Parse()
	installHooks()
	w, err := vtrace.NewWriter(*out)
	if err != nil {
		fail(err)
	}
	n := 0
	stalls, stucks := 0, 0
	err = vtrace.ReadLines(*in, func(line []byte) error {
		var sc scenario
		if err := json.Unmarshal(line, &sc); err != nil {
			return err
		}
		n++
		tr := runScenario(fmt.Sprintf("x01-%d", n), sc, rand.New(rand.NewSource(*seed*1000003+int64(n))))
		if _, ok := tr.Meta["stall"]; ok {
			stalls++
		}
		if len(tr.Events) > 0 && tr.Events[len(tr.Events)-1]["ev"] == "stuck" {
			stucks++
		}
		if err := w.Write(tr); err != nil {
			return err
		}
		// a run that hangs is evidence enough: do not wait for hundreds of them
		if _, ok := tr.Meta["leaked_goroutines"]; ok || stalls >= 2 || stucks >= 3 {
			return errStop
		}
		return nil
	})
	if err != nil && !errors.Is(err, errStop) {
		fail(err)
	}
	if err := w.Close(); err != nil {
		fail(err)
	}
	fmt.Printf("{\"scenarios\": %d, \"stalls\": %d, \"stopped\": %v}\n", n, stalls, errors.Is(err, errStop))
}

var errStop = errors.New("stop")

"""Shared plumbing for the /verif checks (python3 stdlib only).

Exit codes: 0 held (or only KNOWN-FINDING lines), 1 VIOLATION (a trace recorded
from the real code was rejected by the property spec), 2 tooling / model error
(never together with a VIOLATION line).
"""
import hashlib
import json
import os
import re
import shutil
import subprocess
import sys
import tempfile
import threading
import time

VERIF = os.path.dirname(os.path.dirname(os.path.abspath(__file__)))
REPO = os.environ.get("VERIF_REPO", "/repo")
SPEC = os.path.join(VERIF, "spec")
HARNESS = os.path.join(VERIF, "harness")
EVID = os.path.join(VERIF, "evidence") if REPO == "/repo" else os.path.join(REPO, ".verif-evidence")
REPLAY = os.path.join(VERIF, "replay") if os.environ.get("VERIF_REPO", "/repo") == "/repo" else os.path.join(os.environ["VERIF_REPO"], ".verif-replay")
KNOWN = os.path.join(VERIF, "KNOWN_FINDINGS.json")

GOENV = {
    "GOFLAGS": "-mod=mod",
    "GOPROXY": "off",
    "GOSUMDB": "off",
    "GOTOOLCHAIN": "local",
    "CGO_ENABLED": "0",
}


class ToolError(Exception):
    """Infrastructure or model error: exit 2, never a violation."""


def log(*a):
    print(*a, file=sys.stderr, flush=True)


class Ctx:
    def __init__(self, pid, tier, seed, replay=None):
        self.pid = pid
        self.tier = tier
        self.seed = seed
        self.replay = replay
        self.t0 = time.time()
        base = os.environ.get("VERIF_SCRATCH_BASE") or tempfile.gettempdir()
        self.scratch = tempfile.mkdtemp(prefix="verif-%s-" % pid, dir=base)
        self.bin = os.path.join(self.scratch, "bin")
        self.violations = []   # list of dict(sig=..., what=..., replay=...)
        self.known_hit = []
        self.cov = {}
        self.assumptions = []
        self.tlc_runs = []
        self.thorough = tier == "thorough"
        self._lock = threading.Lock()

    def cleanup(self):
        if os.environ.get("VERIF_KEEP"):
            log("scratch kept:", self.scratch)
            return
        shutil.rmtree(self.scratch, ignore_errors=True)

    def path(self, *p):
        d = os.path.join(self.scratch, *p)
        os.makedirs(os.path.dirname(d), exist_ok=True)
        return d

    # ---------------------------------------------------------------- build
    def _modfile(self):
        """A go.mod for the harness whose replace directive points at REPO (default /repo), kept in
        the scratch directory so that concurrent checks / other trees do not share state."""
        mf = os.path.join(self.scratch, "harness.mod")
        if not os.path.exists(mf):
            with open(os.path.join(HARNESS, "go.mod")) as f:
                txt = f.read()
            txt = re.sub(r"(replace github.com/regclient/regclient => ).*", r"\g<1>" + REPO, txt)
            with open(mf, "w") as f:
                f.write(txt)
            try:
                shutil.copyfile(os.path.join(REPO, "go.sum"), os.path.join(self.scratch, "harness.sum"))
            except OSError as e:
                raise ToolError("cannot copy go.sum: %s" % e)
        return mf

    def build(self, *cmds, tags="verif"):
        """Build harness commands against REPO's current working tree (hooks on)."""
        os.makedirs(self.bin, exist_ok=True)
        env = dict(os.environ)
        env.update(GOENV)
        pk = ["./cmd/" + c for c in cmds]
        r = subprocess.run(["go", "build", "-modfile", self._modfile(), "-tags", tags, "-o", self.bin + "/"] + pk,
                           cwd=HARNESS, env=env, capture_output=True, text=True)
        if r.returncode != 0:
            raise ToolError("harness build failed:\n" + r.stdout + r.stderr)

    def build_repo_cmd(self, pkg, out, tags="verif"):
        """Build a binary of /repo itself (regctl, regsync, regbot)."""
        env = dict(os.environ)
        env.update(GOENV)
        os.makedirs(self.bin, exist_ok=True)
        r = subprocess.run(["go", "build", "-tags", tags, "-o", os.path.join(self.bin, out), pkg],
                           cwd=REPO, env=env, capture_output=True, text=True)
        if r.returncode != 0:
            raise ToolError("repo build failed (%s):\n%s%s" % (pkg, r.stdout, r.stderr))

    def run(self, argv, env=None, timeout=None, cwd=None, check=True, stdin=None):
        e = dict(os.environ)
        e.update(GOENV)
        e["VERIF_SEED"] = str(self.seed)
        e["VERIF_TIER"] = self.tier
        if env:
            e.update(env)
        if argv and not os.path.isabs(argv[0]) and os.path.exists(os.path.join(self.bin, argv[0])):
            argv = [os.path.join(self.bin, argv[0])] + list(argv[1:])
        try:
            r = subprocess.run(argv, env=e, cwd=cwd or self.scratch, capture_output=True,
                               text=True, timeout=timeout, input=stdin)
        except subprocess.TimeoutExpired:
            raise ToolError("driver timed out (tooling): %s" % " ".join(argv))
        if check and r.returncode != 0:
            raise ToolError("driver failed rc=%d: %s\n%s\n%s" % (r.returncode, " ".join(argv),
                                                               r.stdout[-4000:], r.stderr[-4000:]))
        return r

    # ------------------------------------------------------------------ TLC
    def _specdir(self):
        d = os.path.join(self.scratch, "spec")
        with self._lock:
            if not os.path.isdir(d):
                tmp = d + ".tmp"
                shutil.copytree(SPEC, tmp)
                os.rename(tmp, d)
        return d

    def tlc(self, module, cfg, workers=None, timeout=1800, env=None, extra=(), simulate=None,
            depth=None, deadlock=None, label=None, record=True, allow_violation=False, heap="4g"):
        """Run TLC on spec/<module>.tla with spec/<cfg>. Returns dict with states, distinct,
        ok, violated (name or None), output. Raises ToolError on TLC errors that are not
        property violations."""
        d = self._specdir()
        meta = tempfile.mkdtemp(prefix="meta-", dir=self.scratch)
        if workers is None:
            workers = min(16, os.cpu_count() or 4)
        argv = ["tlc", "-metadir", meta, "-workers", str(workers), "-config", cfg]
        if simulate:
            argv += ["-simulate", simulate]
        if depth:
            argv += ["-depth", str(depth)]
        if deadlock is False:
            argv += ["-deadlock"]
        argv += list(extra) + [module]
        e = dict(os.environ)
        if env:
            e.update({k: str(v) for k, v in env.items()})
        # bound the JVM heap: the tlc wrapper would take 25% of RAM per process, and several checks
        # (or several TLC runs of one check) may run at the same time
        jto = e.get("JAVA_TOOL_OPTIONS", "")
        if "-Xmx" not in jto:
            e["JAVA_TOOL_OPTIONS"] = (jto + " -Xmx" + heap).strip()
        t0 = time.time()
        try:
            for attempt in range(3):
                r = subprocess.run(["timeout", str(timeout)] + argv, cwd=d, env=e,
                                   capture_output=True, text=True)
                # killed from outside (OOM killer, another job's pkill): not a verdict, try again
                if r.returncode in (-9, -15, 137, 143) and "is violated" not in r.stdout:
                    log("TLC on %s/%s was killed (rc=%d), retrying" % (module, cfg, r.returncode))
                    time.sleep(5 * (attempt + 1))
                    shutil.rmtree(meta, ignore_errors=True)
                    os.makedirs(meta, exist_ok=True)
                    continue
                break
        finally:
            shutil.rmtree(meta, ignore_errors=True)
        out = r.stdout + r.stderr
        res = {"module": module, "cfg": cfg, "rc": r.returncode, "output": out,
               "wall_s": round(time.time() - t0, 2), "label": label or cfg}
        m = re.findall(r"(\d+) states generated, (\d+) distinct states found", out)
        if m:
            res["generated"], res["distinct"] = int(m[-1][0]), int(m[-1][1])
        else:
            res["generated"], res["distinct"] = 0, 0
        m = re.search(r"The depth of the complete state graph search is (\d+)", out)
        if m:
            res["depth"] = int(m.group(1))
        res["violated"] = None
        m = re.search(r"Invariant (\S+) is violated", out)
        if m:
            res["violated"] = m.group(1)
        m2 = re.search(r"Action property (\S+) is violated|Temporal properties were violated|"
                       r"Deadlock reached|The postcondition .* is violated|Assumption .* is false",
                       out)
        if m2 and not res["violated"]:
            res["violated"] = m2.group(0)
        if r.returncode == 124:
            raise ToolError("TLC timed out after %ss on %s/%s" % (timeout, module, cfg))
        hard = re.search(r"(Parsing or semantic analysis failed|java\.lang\.\w*Error|"
                         r"TLC threw an unexpected exception|Error: .*(evaluat|Attempted|undefined|"
                         r"not enumerable|overridden|was not in the domain))", out)
        if hard and not res["violated"]:
            raise ToolError("TLC error on %s/%s:\n%s" % (module, cfg, out[-6000:]))
        res["ok"] = (r.returncode == 0 and res["violated"] is None)
        if not res["ok"] and res["violated"] is None:
            raise ToolError("TLC failed rc=%d on %s/%s:\n%s" % (r.returncode, module, cfg, out[-6000:]))
        if record:
            self.tlc_runs.append({k: res[k] for k in ("label", "module", "cfg", "generated",
                                                        "distinct", "wall_s", "violated")})
        if res["violated"] and not allow_violation:
            # a counterexample on the design spec alone is not a verdict about the code
            raise ToolError("design spec %s/%s violates %s (model error unless reproduced on "
                            "real code):\n%s" % (module, cfg, res["violated"], out[-6000:]))
        return res

    def tlc_scenarios(self, module, cfg, tag="SCN", **kw):
        """Run a generator config; collect every PrintT(<<tag, json-string>>) line."""
        res = self.tlc(module, cfg, **kw)
        scns = []
        pat = re.compile(r'^<<"%s", "(.*)">>$' % re.escape(tag))
        for line in res["output"].splitlines():
            m = pat.match(line.strip())
            if m:
                s = m.group(1).encode().decode("unicode_escape")
                scns.append(json.loads(s))
        res["scenarios"] = scns
        return res

    def validate(self, module, cfg, trace_file, timeout=1800, env=None):
        """Validate one ndjson file (possibly many traces separated by reset events) against
        a trace spec. Returns dict(accepted, line, reason, state, n, distinct, generated).
        `line` is the 1-based index of the first event that could not be matched or after
        which an invariant failed."""
        n = 0
        with open(trace_file) as f:
            for _ in f:
                n += 1
        if n == 0:
            raise ToolError("empty trace file " + trace_file)
        e = {"VERIF_TRACE": trace_file,
             "JAVA_TOOL_OPTIONS": "-Dtlc2.tool.queue.IStateQueue=StateDeque -Xss64m"}
        if env:
            e.update(env)
        res = self.tlc(module, cfg, workers=1, timeout=timeout, env=e, record=False,
                       allow_violation=True)
        out = res["output"]
        r = {"n": n, "generated": res["generated"], "distinct": res["distinct"],
             "output": out, "wall_s": res["wall_s"]}
        hw = re.findall(r'<<"HIGHWATER", (\d+), (\d+)>>', out)
        if res["violated"] and re.match(r"^[A-Za-z_0-9]+$", res["violated"]):
            # invariant violated in a state of the observed trace
            st = out.split("is violated", 1)[1]
            ls = re.findall(r"/\\ l = (\d+)", st) or re.findall(r"\bl = (\d+)", st)
            line = int(ls[-1]) - 1 if ls else None
            bad = re.findall(r'/\\ bad = (.*)', st)
            r.update(accepted=False, line=line, reason="invariant " + res["violated"],
                     detail=(bad[-1].strip() if bad else ""), state=st[-3000:])
            return r
        if not hw:
            raise ToolError("trace validation produced no HIGHWATER line:\n" + out[-4000:])
        reached, total = int(hw[-1][0]), int(hw[-1][1])
        if total != n:
            raise ToolError("trace length mismatch %d vs %d" % (total, n))
        if reached >= total + 1:
            r.update(accepted=True, line=None, reason=None)
        else:
            r.update(accepted=False, line=reached, reason="no enabled step for event",
                     detail="", state="")
        return r

    # ------------------------------------------------------- traces / batches
    def validate_batch(self, module, cfg, traces, timeout=1800, env=None, max_reports=20):
        """traces: list of dict(id=..., events=[...], scenario=...). Writes them as one ndjson
        file with a reset event in front of each trace, validates, and on rejection finds the
        failing trace, records it, removes it and continues. Returns (accepted_count,
        rejected list of dict(trace, line, event, reason, detail))."""
        rejected = []
        remaining = list(traces)
        accepted = 0
        states = 0
        rounds = 0
        while remaining:
            rounds += 1
            fn = self.path("traces", "%s-%d.ndjson" % (module, rounds))
            index = []  # line number (1-based) -> (trace idx, event idx)
            with open(fn, "w") as f:
                for ti, t in enumerate(remaining):
                    hdr = {"ev": "reset", "trace": str(t["id"])}
                    hdr.update(t.get("header", {}))
                    f.write(json.dumps(hdr, sort_keys=True) + "\n")
                    index.append((ti, -1))
                    for ei, ev in enumerate(t["events"]):
                        f.write(json.dumps(ev, sort_keys=True) + "\n")
                        index.append((ti, ei))
            r = self.validate(module, cfg, fn, timeout=timeout, env=env)
            states += r["distinct"]
            if r["accepted"]:
                accepted += len(remaining)
                break
            if r["line"] is None or r["line"] < 1 or r["line"] > len(index):
                raise ToolError("cannot locate rejected event:\n" + r["output"][-4000:])
            ti, ei = index[r["line"] - 1]
            t = remaining[ti]
            rejected.append({"trace": t, "line": ei, "event": (t["events"][ei] if ei >= 0 else None),
                             "reason": r["reason"], "detail": r.get("detail", ""),
                             "state": r.get("state", "")})
            accepted += ti
            remaining = remaining[ti + 1:]
            if len(rejected) >= max_reports:
                log("too many rejected traces; stopping after %d" % len(rejected))
                break
        self.cov["trace_states"] = self.cov.get("trace_states", 0) + states
        return accepted, rejected

    # -------------------------------------------------------------- verdicts
    def load_known(self):
        try:
            with open(KNOWN) as f:
                return json.load(f)
        except FileNotFoundError:
            return {"findings": []}

    def report(self, sig, what, replay_obj):
        """Record a violation observed on the real code. sig: stable signature string used to
        match KNOWN_FINDINGS entries (status 'known' only)."""
        for k in self.load_known().get("findings", []):
            if k.get("property") == self.pid and k.get("status") == "known" and \
                    re.fullmatch(k["signature"], sig):
                if k["id"] not in [x["id"] for x in self.known_hit]:
                    self.known_hit.append(k)
                return False
        for v in self.violations:
            if v["sig"] == sig:
                v["count"] += 1
                return True
        os.makedirs(os.path.join(REPLAY, self.pid), exist_ok=True)
        h = hashlib.sha1(sig.encode()).hexdigest()[:10]
        p = os.path.join(REPLAY, self.pid, "%s-%s.json" % (self.tier, h))
        with open(p, "w") as f:
            json.dump({"property": self.pid, "signature": sig, "what": what, "seed": self.seed,
                       "tier": self.tier, "replay": replay_obj}, f, indent=1, sort_keys=True,
                      default=str)
        self.violations.append({"sig": sig, "what": what, "replay": p, "count": 1})
        return True

    def finish(self, level, coverage, assumptions=None):
        cov = dict(coverage)
        cov.update({k: v for k, v in self.cov.items() if k not in cov})
        if self.tlc_runs:
            cov.setdefault("tlc_runs", self.tlc_runs)
        cov["known_findings_seen"] = [k["id"] for k in self.known_hit]
        cov["violation_signatures"] = [v["sig"] for v in self.violations]
        ev = {"property_id": self.pid, "tier": self.tier, "seed": self.seed, "level": level,
              "coverage": cov, "assumptions": (assumptions or []) + self.assumptions,
              "wall_s": round(time.time() - self.t0, 2), "violations": len(self.violations)}
        # ids starting with X are areas beyond the listed properties: their evidence is kept apart
        evid = EVID if not self.pid.startswith("X") else os.path.join(os.path.dirname(EVID), "extra-evidence")
        os.makedirs(evid, exist_ok=True)
        with open(os.path.join(evid, self.pid + ".json"), "w") as f:
            json.dump(ev, f, indent=1, sort_keys=True, default=str)
            f.write("\n")
        for k in self.known_hit:
            print("KNOWN-FINDING: property=%s %s" % (self.pid, k["what"]))
        for v in self.violations:
            log("violation: %s (%d x): %s" % (v["sig"], v["count"], v["what"]))
            print("VIOLATION property=%s replay=%s" % (self.pid, v["replay"]))
        sys.stdout.flush()
        return 1 if self.violations else 0


def sha(b):
    return hashlib.sha256(b).hexdigest()


def sample(rng, items, k):
    items = list(items)
    if len(items) <= k:
        return items
    return rng.sample(items, k)

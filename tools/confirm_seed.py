#!/usr/bin/env python3
"""tools/confirm_seed.py <seeded-dir> <demo-dest-dir-in-repo> [go test args...]

Confirms a seeded breaking change in a scratch worktree of /repo (never in /repo itself):
  1. patch applies to HEAD; go build ./... with and without -tags verif
  2. the repository's full test suite passes with the change (ExampleNew excluded: it fails at
     baseline for lack of network)
  3. the demonstration test fails with the change
  4. the demonstration test passes without the change
Writes the outcome into <seeded-dir>/confirm.json. Removes the worktree afterwards."""
import glob
import json
import os
import shutil
import subprocess
import sys
import tempfile

ENV = dict(os.environ, GOFLAGS="-mod=mod", GOPROXY="off", GOSUMDB="off", GOTOOLCHAIN="local")


def sh(cmd, cwd, timeout=1500):
    r = subprocess.run(cmd, cwd=cwd, env=ENV, shell=True, capture_output=True, text=True, timeout=timeout)
    return r.returncode, (r.stdout + r.stderr)


def main():
    sd = os.path.abspath(sys.argv[1])
    dest = sys.argv[2]
    extra = " ".join(sys.argv[3:])
    wt = tempfile.mkdtemp(prefix="seedwt-")
    os.rmdir(wt)
    res = {"seed": os.path.basename(sd), "demo_dest": dest}
    try:
        rc, out = sh("git -C /repo worktree add -q --detach %s HEAD" % wt, "/")
        if rc:
            raise SystemExit("worktree: " + out)
        res["repo_head"] = subprocess.check_output(["git", "-C", "/repo", "rev-parse", "HEAD"], text=True).strip()
        demos = glob.glob(os.path.join(sd, "*_test.go"))
        pkgdir = os.path.join(wt, dest)

        def put_demo():
            for d in demos:
                shutil.copy(d, pkgdir)

        def rm_demo():
            for d in demos:
                p = os.path.join(pkgdir, os.path.basename(d))
                if os.path.exists(p):
                    os.remove(p)
        # 4. demo passes without the change
        put_demo()
        rc, out = sh("go test -vet=off -count=1 %s ./%s" % (extra or "-run 'Demo|demo|C[0-9][0-9]|Crash'", dest), wt)
        res["demo_without_change_passes"] = rc == 0
        res["demo_without_tail"] = out[-600:]
        rm_demo()
        # 1. apply + build
        rc, out = sh("git apply %s" % os.path.join(sd, "patch.diff"), wt)
        res["applies"] = rc == 0
        if rc:
            res["apply_out"] = out[-600:]
        rc1, o1 = sh("go build ./... && go build -tags verif ./...", wt)
        res["builds"] = rc1 == 0
        # 2. suite
        rc, out = sh("go test -vet=off -count=1 ./... 2>&1 | grep -E '^(FAIL|---|ok|panic)' | grep -v '^ok' ", wt)
        fails = [l for l in out.splitlines() if l.startswith("--- FAIL") or l.startswith("FAIL")]
        res["suite_failures"] = fails
        res["suite_passes"] = all(("ExampleNew" in l) or l.strip() in ("FAIL", "FAIL\tgithub.com/regclient/regclient") or
                                  l.startswith("FAIL\tgithub.com/regclient/regclient\t") for l in fails)
        # 3. demo fails with the change
        put_demo()
        rc, out = sh("go test -vet=off -count=1 %s ./%s" % (extra or "-run 'Demo|demo|C[0-9][0-9]|Crash'", dest), wt)
        res["demo_with_change_fails"] = rc != 0
        res["demo_with_tail"] = out[-600:]
        res["confirmed"] = bool(res["applies"] and res["builds"] and res["suite_passes"] and
                                res["demo_with_change_fails"] and res["demo_without_change_passes"])
    finally:
        sh("git -C /repo worktree remove --force %s" % wt, "/")
        shutil.rmtree(wt, ignore_errors=True)
        sh("git -C /repo worktree prune", "/")
    with open(os.path.join(sd, "confirm.json"), "w") as f:
        json.dump(res, f, indent=1)
    print(json.dumps({k: res[k] for k in res if not k.endswith("tail")}, indent=1))
    sys.exit(0 if res.get("confirmed") else 1)


if __name__ == "__main__":
    main()

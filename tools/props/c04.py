"""C04 - copy writes children before parents, the tag last; failure never moves the tag.

(D) spec/ImageCopy.tla is model checked with a fault budget, cancellation and (every state being a
crash state) process death; TLC-generated request schedules with fault / cancel / death positions
and a sweep of single faults (every fault kind, cancellation, death) over every request position of
every shape are imposed on the real regclient.ImageCopy through the gates of the model registries;
the target is observed after every write and every observed state is judged by TLC against the C04
obligations of (P) spec/CopyProp.tla.  See design.d/C03-C04-C14.md.
"""
from props import copy_common as cc
import vlib


def run(ctx):
    e = cc.Engine(ctx, "C04")
    e.setup()
    cc.check_shapes(e)
    if ctx.replay:
        pairs, acc, rej = cc.replay(e)
        return "model_checking", {"traces_validated_against_impl": acc, "rejected": len(rej), "replayed": 1,
                                  "states": 0, "transitions": 0}, []
    th = ctx.thorough
    rng = e.rng

    # 1. the design spec under faults, cancellation and death
    runs = [("ImageCopyMC", "C04_mc_quick.cfg", "img, two registries, 1 fault + cancel, full interleaving", {}),
            ("ImageCopyMC", "C04_mc_layout.cfg", "img, layout target, 1 fault + cancel", {}),
            ("ImageCopyMC", "C04_mc_shared.cfg", "diamond2 (one manifest under two parents), registry / layout target, full interleaving", {})]
    if th:
        runs += [("ImageCopyMC", "C04_mc_t1.cfg", "img, 3 registry-target pairings, mount on/off, 1 fault + cancel", {"timeout": 3000}),
                 ("ImageCopyMC", "C04_mc_t2.cfg", "schema1, corner targets, mount on/off, 2 faults + cancel", {"timeout": 3000}),
                 ("ImageCopyMC", "C04_mc_t3.cfg", "schema1 / inline / empty, default + force-recursive, 1 fault + cancel", {"timeout": 3000}),
                 ("ImageCopyMC", "C04_mc_t4.cfg", "layout targets, corner targets, 1 fault + cancel", {"timeout": 3000}),
                 ("ImageCopyMC", "C04_mc_t5.cfg", "diamond2, two registries, 1 fault + cancel, full interleaving", {"timeout": 3000})]
    mc, states, trans = cc.run_mc(ctx, runs)
    defect = cc.defect_model_run(ctx)
    late = ctx.tlc("ImageCopyMC", "C04_mc_latetag.cfg", allow_violation=True,
                   label="sigloop + digest tags: the finalFn retry writes after the tag (findings/C04-2): expected counterexample")["violated"]

    # 2. scenarios: TLC schedules with faults + single fault / cancel / death sweep
    scripts = cc.tlc_scripts(e, "C04_gen.cfg", 1500 if th else 400, "tlc")
    base = []
    pairs4 = ["tworeg", "samereg", "reg2dir", "dir2reg", "samerepo"]
    for sh in e.shapes:
        if sh in cc.LOOP_SHAPES:
            continue        # (every digest-tag run on them hits the known finding C04-2: a few explicit members below)
        for pr in pairs4:
            osets = e.option_sets(sh)
            for opts in (osets if th else [osets[0]] + rng.sample(osets[1:], min(2, len(osets) - 1))):
                if opts.get("reftgt") and pr == "samerepo":
                    continue
                fts = e.features(sh, opts)
                for ft in (fts if th else [rng.choice(fts)]):
                    base.append(e.scn(sh, pr, "base", opts=dict(opts), mode="fifo", tag0=rng.choice(["none", "stale"]),
                                      mount=rng.choice([0, 1]), extup=rng.choice([0, 1]), **ft))
    bres = e.run(base, "baselines")
    kinds = lambda p: cc.FATAL + cc.TRANSIENT + ["stall"]
    sw = e.sweep(bres, kinds, "sweep", double=(6 if th else 1))
    keyf = [lambda s: (s["shape"], s["pair"]),
            lambda s: (s["shape"], tuple((f["class"], f["kind"] in cc.FATAL) for f in s.get("faults") or [])),
            lambda s: (s["shape"], (s.get("cancel") or {}).get("class")),
            lambda s: (s["shape"], (s.get("death") or {}).get("class")),
            lambda s: tuple(f["kind"] for f in s.get("faults") or [])]
    sw = cc.cover_sample(rng, sw, 12000 if th else 1350, keyf)
    # faults on the requests of objects that several parts of the image share (a waiter depends on another
    # task's copy there), under several random schedules each
    shared = {"idx2": ["L"], "nested": ["L1"], "docker": ["L"], "dup": ["L1"], "art": ["E"], "artidx": ["L1", "E"]}
    sh_sw = []
    for sc, tr in bres:
        if sc["shape"] not in shared or sc["pair"] not in ("tworeg", "reg2dir", "samereg", "dir2reg"):
            continue
        for p in e.positions(tr):
            if p["n"] in shared[sc["shape"]] and p["class"] in ("blob_get", "upload_post", "upload_put", "mount_post"):
                for k in ("404", "503"):
                    for _ in range(6 if th else 2):
                        s2 = dict(sc)
                        e.n += 1
                        s2.update(id="shared-%d" % e.n, origin="shared", faults=[dict(p, kind=k)], mode="random",
                                  seed=rng.randrange(1 << 30))
                        sh_sw.append(s2)
    sh_sw = cc.cover_sample(rng, sh_sw, 3000 if th else 480, [lambda s: (s["shape"], s["pair"], s["faults"][0]["class"])])
    # slow requests (every request of every fault-free run held back as long as anything else can move), in
    # particular the PUT of a manifest that two parents share; and the double fault PUT + rewind on one blob
    slow = e.slow_requests(bres, "slow")
    slow = cc.cover_sample(rng, slow, 6000 if th else 440,
                           [lambda s: (s["shape"], s["hold"][0]["class"]), lambda s: (s["shape"], s["pair"]),
                            lambda s: (s["shape"] in ("diamond", "diamond2", "nested", "idx2"), s["pair"], s["hold"][0]["class"], s["hold"][0]["n"])])
    rew = e.rewinds(bres, "rewind")
    rew = cc.cover_sample(rng, rew, 2500 if th else 220, [lambda s: (s["shape"], s["pair"]), lambda s: (s["faults"][0]["kind"], s["faults"][1]["kind"])])
    # the scenario that shows findings/C04-1 reliably (a class that has produced a violation stays in every tier)
    demo = e.scn("big", "reg2dir", "c04-1-demo", mode="script", cancel_cb={"n": "LB", "occ": 2},
                 script=[{"op": "rel", "host": "src", "class": "manifest_get", "n": "S"},
                         {"op": "rel", "host": "src", "class": "blob_get", "n": "L2"}, {"op": "settle"},
                         {"op": "rel", "host": "src", "class": "blob_get", "n": "LB"}, {"op": "settle"}])
    # (round 5) a second user of the same client closing the layout target (alone / after its own copy into it) at
    # every request position and after every stored blob of the running copy; warm caches of the same client
    cl = e.closers("closer")
    cl = cc.cover_sample(rng, cl, 1200 if th else 170, [lambda s: (s["shape"], s["pair"], bool(s.get("closer_cb"))),
                                                      lambda s: (s["closer_op"], (s.get("closer") or {}).get("class"))])
    wm = e.warm_cache("warm")
    wm = cc.cover_sample(rng, wm, 300 if th else 60, [lambda s: (s["shape"], s["prior"], s["prior_arg"])])
    scns = scripts + sw + sh_sw + slow + rew + e.client_history("history") + e.round4("round4") + cl + wm
    loopy = [x for x in scns if x["shape"] in cc.LOOP_SHAPES and x["opts"].get("dtags")]
    keep = set(id(x) for x in loopy[:(30 if th else 6)])
    scns = [x for x in scns if not (x["shape"] in cc.LOOP_SHAPES and x["opts"].get("dtags")) or id(x) in keep]
    scns, dropped = cc.limit_defect_prone(rng, scns, 700 if th else 300)
    res = bres + e.run(scns + [demo], "faults")

    # 3. validation against (P)
    # the class in which the known defect C04-1 shows is validated on its own, so that its rejections
    # (each costs a TLC restart) cannot use up the report budget of everything else
    res_b = [(sc, t) for sc, t in res if cc.defect_prone(sc)]
    res_a = [(sc, t) for sc, t in res if not cc.defect_prone(sc)]
    acc, rej = e.validate(res_a, "C04", max_reports=40)
    acc_b, rej_b = e.validate(res_b, "C04-layout-faults", max_reports=80)
    acc, rej = acc + acc_b, rej + rej_b

    # 4. binding demo
    e.check_stalls()
    demos = e.binding_demo(res) if not ctx.violations else []

    cov = cc.summarize(res)
    cov["preparation_copies_that_did_not_return"] = {"count": len(e.prior_hangs), "first": e.prior_hangs[:3]}
    cov.update({
        "states": states, "transitions": trans, "traces_validated_against_impl": acc, "rejected": len(rej),
        "samples": cc.samples_of(res), "evaluations": len(res), "distinct_nontrivial": cov.pop("distinct"),
        "rule": "an evaluation = one ImageCopy of a catalogue shape on the real code under a request schedule with fault / "
                "cancel / death positions (TLC generated, or swept over every request position of a fault-free run), every "
                "observed target state judged; distinct = distinct (configuration, fault positions, request sequence)",
        "exhaustive": False, "model_vs_code": cc.model_agreement(res), "defect_model": defect, "latetag_model": late,
        "defect_prone_scenarios_dropped": dropped, "binding_demos": demos,
        "fault_kinds": cc.FATAL + cc.TRANSIENT + ["stall", "cancel", "death"], "entry_points": cc.ENTRY_POINTS,
    })
    return "model_checking", cov, cc.ASSUMPTIONS

"""X03 - editing an image index with `regctl index create / add / delete` (extra area).

(D) spec/IndexEdit.tla (world: IndexEditWorld, alphabets: IndexEditAlpha) is model checked by TLC in
lock step with the monitor (P) spec/IndexEditProp.tla (IndexEditMC): every sequence of commands of an
alphabet from every initial target state x registry / layout x target inside the source repository
x referrers by API / fallback tag; four switches re-create other designs and must be noticed (model
sanity).  spec/IndexEditGen.tla prints the world and scenarios (every alphabet command alone and
after a create; random alphabet sequences; free random commands) with what the design expects;
harness/cmd/x03drv builds the content from the world, runs the REAL regctl binary against model
registries on 127.0.0.1 / OCI layouts and records every state change of the target; every trace is
validated by TLC against (P) through spec/IndexEditTrace.tla.  Verdicts come only from rejected
traces; differences to the design's expectation are drift (evidence only).
"""
import concurrent.futures
import copy
import json
import os
import random
import re

import vlib

SANITY = ("X03_mc_known_descplat.cfg", "X03_mc_known_platlookup.cfg", "X03_mc_known_equal.cfg", "X03_mc_sw_putfirst.cfg",
          "X03_mc_sw_dedup.cfg", "X03_mc_sw_delone.cfg")
D_ACTIONS = ("MBegin", "MCheckType", "MLoad", "MParsePlats", "MRefHead", "MCopyBegin", "MCopyStep", "MCopyEnd", "MHeads",
             "MMerge", "MPut", "MClose", "MRefuse")


def world_of(out):
    for line in out.splitlines():
        m = re.match(r'^<<"WORLD", "(.*)">>$', line.strip())
        if m:
            return json.loads(m.group(1).encode().decode("unicode_escape"))
    raise vlib.ToolError("the generator did not print the world")


def cmd_key(c):
    return json.dumps(c, sort_keys=True)


def scn_key(s):
    return json.dumps([s["init"], s["tkind"], s["same"], s["env"], s["fault"], s["cmds"]], sort_keys=True)


def bad_dplat(world_plats, c):
    return c["op"] != "delete" and c["dplat"] in ("linux/amd64/bad!", "lin ux/amd64")


def features(s):
    """coverage classes a scenario touches"""
    f = set()
    f.add("init:" + s["init"])
    f.add("tkind:" + s["tkind"] + ("/same" if s["same"] else ""))
    f.add("src:" + s["env"]["skind"] + ("" if s["env"]["srcapi"] else "/noapi"))
    if s["fault"]["cmd"]:
        f.add("fault")
    for c in s["cmds"]:
        f.add("op:" + c["op"])
        for k in ("refs", "plats", "digs", "dann", "ann"):
            if c[k]:
                f.add("%s:%s" % (c["op"], k))
        for k in ("dplat", "at", "subj"):
            if c[k]:
                f.add("%s:%s" % (c["op"], k))
        for k in ("bydig", "dtags", "rfr"):
            if c[k]:
                f.add("%s:%s" % (c["op"], k))
        if c["op"] == "create":
            f.add("create:mt=" + c["mt"])
        for r in c["refs"]:
            f.add("ref:" + r)
        for p in c["plats"]:
            f.add("plat:" + p)
    return f


def sig_of(detail, reason, cmd, read_refused=False, bare_ann=False):
    """signature = command kind : obligation of the monitor that failed (: input class).  Input classes:
    `config-read-refused` a command during which the environment refused a blob read (fault kind read);
    `annotation-without-value` the trace used a --desc-annotation without value before / in this command."""
    d = (detail or "").strip('"') or reason
    op = cmd["op"] if cmd else "setup"
    cls = ":config-read-refused" if read_refused else ":annotation-without-value" if bare_ann else ""
    return "x03:%s:%s%s" % (op, d, cls)


def bare_ann(s):
    return any(f["v"] == "" for c in s["cmds"] for f in c["dann"])


def read_fault(s):
    return s["fault"]["cmd"] > 0 and s["fault"].get("kind") == "read" and s["tkind"] == "reg"


def run(ctx):
    rng = random.Random(ctx.seed)
    ctx.build("x03drv")
    ctx.build_repo_cmd("./cmd/regctl", "regctl")
    thorough = ctx.thorough

    # 1. model checking of (D) against (P), model sanity and the generators: independent TLC runs, side by side
    n_alpha, n_rand = (1500, 2500) if thorough else (150, 260)
    jobs = {
        "quick": lambda: ctx.tlc("IndexEditMC", "X03_mc_quick.cfg", workers=4, extra=["-coverage", "1"],
                                 label="full alphabet (30 commands), sequences of 2"),
        "fix1": lambda: ctx.tlc("IndexEditMC", "X03_mc_descplat_fixed.cfg", workers=2,
                                label="alphabet with unparsable --desc-platform values (repaired in 9d51d78)"),
        "fix2": lambda: ctx.tlc("IndexEditMC", "X03_mc_platlookup_fixed.cfg", workers=2, extra=["-coverage", "1"],
                                label="repaired platform lookup; refused writes and reads, small alphabet, sequences of 2"),
        "fix3": lambda: ctx.tlc("IndexEditMC", "X03_mc_equal_fixed.cfg", workers=2,
                                label="alphabet with annotations without value (Descriptor.Equal repaired in c2e01d2)"),
        "each": lambda: ctx.tlc_scenarios("IndexEditGen", "X03_gen_each.cfg", workers=2, label="generator: each alphabet command"),
        "alpha": lambda: ctx.tlc_scenarios("IndexEditGen", "X03_gen_alpha.cfg", workers=1, simulate="num=%d" % n_alpha, depth=300,
                                           extra=["-seed", str(ctx.seed)], label="generator: random alphabet sequences"),
        "rand": lambda: ctx.tlc_scenarios("IndexEditGen", "X03_gen_rand.cfg", workers=1, simulate="num=%d" % n_rand, depth=300,
                                          extra=["-seed", str(ctx.seed + 1000)], label="generator: free random commands"),
    }
    if thorough:
        jobs["t1"] = lambda: ctx.tlc("IndexEditMC", "X03_mc_t1.cfg", workers=6, label="full alphabet, sequences of 3, faults",
                                     timeout=3000)
        jobs["t2"] = lambda: ctx.tlc("IndexEditMC", "X03_mc_t2.cfg", workers=4, label="small alphabet (7), sequences of 5",
                                     timeout=3000)
    # model sanity: the as-found behaviours behind the three findings (X03-1, X03-3 fixed in /repo, X03-2 known) and
    # three other designs must keep producing their counterexamples
    for cfg in SANITY:
        jobs[cfg] = (lambda c: lambda: ctx.tlc("IndexEditMC", c, workers=2, allow_violation=True,
                                               label="expected counterexample " + c, record=False))(cfg)
    res = {}
    with concurrent.futures.ThreadPoolExecutor(max_workers=2 if thorough else 3) as ex:       # shared machine: few JVMs at a time
        futs = {k: ex.submit(f) for k, f in jobs.items()}
        for k, f in futs.items():
            res[k] = f.result()        # a ToolError of any run ends the check
    mc = [res[k] for k in ("quick", "t1", "t2", "fix1", "fix2", "fix3") if k in res]
    states = sum(r["distinct"] for r in mc)
    trans = sum(r["generated"] for r in mc)
    # every action of (D) is taken (TLC's per-action statistics)
    taken = {}
    for k in ("quick", "fix2"):
        for m in re.findall(r"^<(M[A-Za-z]+) line [^>]*>: \d+:(\d+)", res[k]["output"], re.M):
            taken[m[0]] = taken.get(m[0], 0) + int(m[1])
    never = [a for a in D_ACTIONS if taken.get(a, 0) == 0]
    if never:
        raise vlib.ToolError("actions of the design spec never taken: %s" % never)
    sanity = {}
    for cfg in SANITY:
        r = res[cfg]
        if not r["violated"]:
            raise vlib.ToolError("model sanity: %s did not violate the monitor" % cfg)
        m = re.findall(r'/\\ bad = "([^"]+)"', r["output"])
        sanity[cfg] = m[-1] if m else r["violated"]

    # 2. scenarios
    world = world_of(res["each"]["output"])
    each = res["each"]["scenarios"]
    ga, gr = res["alpha"], res["rand"]
    # merge alternatives of one scenario (a source that cannot be copied leaves different leftovers)
    merged = {}
    order = []
    for src, lst in (("each", each), ("alpha", ga["scenarios"]), ("rand", gr["scenarios"])):
        for s in lst:
            k = scn_key(s)
            if k not in merged:
                s["src"] = src
                s["alts"] = []
                merged[k] = s
                order.append(k)
            merged[k]["alts"].append(s["exp"])
    scns = [merged[k] for k in order]
    if not thorough:
        # quick: every alphabet command on a registry target from every initial state (alone), after a create on
        # a seeded sample of initial states / target kinds; all random scenarios
        keep = []
        for s in scns:
            if s["src"] != "each":
                keep.append(s)
            elif len(s["cmds"]) == 1 and (s["tkind"] == "reg" or s["init"] in ("seedA", "empty")):
                keep.append(s)
            elif any(bad_dplat(world, c) for c in s["cmds"]) or read_fault(s) or bare_ann(s):
                # the directed scenarios of the findings X03-1 / X03-3 (fixed) and X03-2 (known): two variants each
                if s["tkind"] == "reg" and s["init"] in ("seedA", "empty"):
                    keep.append(s)
            elif len(s["cmds"]) == 2 and rng.random() < 0.35:
                keep.append(s)
        scns = keep
    dropped_known = 0      # (before 9d51d78 the traces of finding X03-1 were capped here: each rejection costs a TLC run)
    if len(scns) < 100:
        raise vlib.ToolError("generator produced only %d scenarios" % len(scns))
    wfile = ctx.path("x03", "world.json")
    with open(wfile, "w") as f:
        json.dump(world, f)
    scn_file = ctx.path("x03", "scn.jsonl")
    with open(scn_file, "w") as f:
        for i, s in enumerate(scns):
            s["id"] = "%s-%d" % (s["src"], i)
            f.write(json.dumps({k: v for k, v in s.items() if k not in ("alts", "exp")}) + "\n")
    out = ctx.path("x03", "traces.jsonl")
    ctx.run(["x03drv", "-world", wfile, "-regctl", os.path.join(ctx.bin, "regctl"), "-in", scn_file, "-out", out,
             "-scratch", ctx.path("x03", "run", "x"), "-workers", str(min(8, os.cpu_count() or 4))], timeout=1500)

    # 3. traces, drift against the design's expectation
    by_id = {s["id"]: s for s in scns}
    traces = []
    drift = {}
    drift_samples = []
    errors = []
    ncmds = 0
    rc_hist = {}
    cov = set()
    obs_events = 0
    with open(out) as f:
        for line in f:
            if not line.strip():
                continue
            t = json.loads(line)
            s = by_id[t["id"]]
            if t.get("meta", {}).get("error"):
                errors.append("%s: %s" % (t["id"], t["meta"]["error"]))
                continue
            cov |= features(s)
            res = t["meta"]["results"]
            ncmds += len(res)
            obs_events += sum(1 for e in t["events"] if e["ev"] == "obs")
            for r in res:
                rc_hist[str(r["rc"])] = rc_hist.get(str(r["rc"]), 0) + 1
            if not s["fault"]["cmd"] or s["tkind"] != "reg":
                # compare with every alternative the design allows; the first differing command names the drift
                best = None
                for alt in s["alts"]:
                    d = None
                    loose = False      # after a copy that cannot complete the leftovers depend on the schedule
                    for i, (e, r) in enumerate(zip(alt, res)):
                        if loose:
                            break       # what the target holds from here on depends on the schedule of the failed copy
                        loose = "S1:ixb" in s["cmds"][i]["refs"]
                        ok = (e["out"] == "ok") == (r["rc"] == 0)
                        if not ok:
                            d = "exit:%s:%s" % (s["cmds"][i]["op"], e["out"])
                        elif e["tag"] != r["tag"]:
                            d = "tag:%s" % s["cmds"][i]["op"]
                        elif not loose and sorted(e["have"]) != sorted(r["have"]):
                            d = "have:%s:%s" % (s["cmds"][i]["op"], s["tkind"])
                        elif not loose and sorted(e["xt"]) != sorted(r["xt"]):
                            d = "xt:%s" % s["cmds"][i]["op"]
                        if d:
                            break
                    if d is None:
                        best = None
                        break
                    best = best or d
                if best:
                    drift[best] = drift.get(best, 0) + 1
                    if len(drift_samples) < 6:
                        drift_samples.append({"id": t["id"], "drift": best})
            traces.append({"id": t["id"], "header": t["header"], "events": t["events"],
                           "scenario": {k: v for k, v in s.items() if k not in ("alts", "exp")}})
    if errors:
        raise vlib.ToolError("driver could not run %d scenarios, e.g. %s" % (len(errors), "; ".join(errors[:3])))
    if len(traces) != len(scns):
        raise vlib.ToolError("driver returned %d traces for %d scenarios" % (len(traces), len(scns)))

    # traces of the known finding X03-2 (a refused config read) are validated in a batch of their own, so that
    # the large batch passes in one TLC run
    kf = [t for t in traces if read_fault(t["scenario"])]
    rest = [t for t in traces if t not in kf]
    accepted, rejected = ctx.validate_batch("IndexEditTrace", "X03_trace.cfg", rest, timeout=3000, max_reports=40)
    if kf:
        a2, r2 = ctx.validate_batch("IndexEditTrace", "X03_trace.cfg", kf, timeout=3000, max_reports=200)
        accepted += a2
        rejected += r2
    for r in rejected:
        t = r["trace"]
        evs = t["events"]
        cmd = None
        ncmd = 0
        bare = False
        for e in evs[:max(r["line"], 0) + 1]:
            if e["ev"] == "cmd":
                cmd = e
                ncmd += 1
                bare = bare or any(f["v"] == "" for f in e["dann"])
        done = next((e for e in evs[max(r["line"], 0):] if e["ev"] == "done"), {})
        rr = read_fault(t["scenario"]) and t["scenario"]["fault"]["cmd"] == ncmd and done.get("faulted") == 1
        sig = sig_of(r["detail"], r["reason"], cmd, rr, bare)
        what = "%s at event %d (%s) of trace %s: regctl %s" % (
            (r["detail"] or r["reason"]), r["line"], (r["event"] or {}).get("ev"), t["id"], (cmd or {}).get("argv", ""))
        ctx.report(sig, what, {"scenario": t["scenario"], "header": t["header"], "events": evs, "rejected_at": r["line"],
                               "cmd": "tools/check X03 --replay <this file>"})

    # 4. binding demo: corrupted observations must be rejected
    demos = 0
    base = next((t for t in traces if t not in [r["trace"] for r in rejected]
                 and sum(1 for e in t["events"] if e["ev"] == "done" and e["rc"] == 0 and e["tag"]["k"] == "idx"
                         and len(e["tag"]["v"]["ents"]) >= 2) >= 1
                 and any(e["ev"] == "obs" for e in t["events"])), None)
    if base is None:
        raise vlib.ToolError("no accepted trace with a two entry index and an observation to demonstrate the binding")

    def mutate(name, fn):
        m = copy.deepcopy(base)
        m["id"] = "demo-" + name
        fn(m)
        a, rj = ctx.validate_batch("IndexEditTrace", "X03_trace.cfg", [m])
        if not rj:
            raise vlib.ToolError("binding demo %s was accepted: the trace spec does not bind" % name)
        return 1

    def last_ok(m):
        return [e for e in m["events"] if e["ev"] == "done" and e["rc"] == 0 and e["tag"]["k"] == "idx"
                and len(e["tag"]["v"]["ents"]) >= 2][-1]

    def swap(m):
        e = last_ok(m)["tag"]["v"]["ents"]
        e[0], e[1] = e[1], e[0]

    def dropent(m):
        last_ok(m)["tag"]["v"]["ents"].pop()

    def ann(m):
        last_ok(m)["tag"]["v"]["ents"][0]["ann"] = "zz=1"

    def dangling(m):
        next(e for e in m["events"] if e["ev"] == "obs")["missing"] = ["a64"]

    def rcflip(m):
        last_ok(m)["rc"] = 1

    def topfield(m):
        last_ok(m)["tag"]["v"]["ann"] = "zz=1"

    all_demos = (("swap-entries", swap), ("dangling-obs", dangling), ("exit-status", rcflip), ("drop-entry", dropent),
                 ("entry-annotation", ann), ("index-annotation", topfield))
    for name, fn in (all_demos if thorough else all_demos[:3]):
        demos += mutate(name, fn)

    alphabet_cmds = {cmd_key(c) for s in each for c in s["cmds"]}
    run_cmds = {cmd_key(c) for s in scns for c in s["cmds"]}
    sample = []
    for t in traces[:1] + traces[-1:]:
        sample.append({"id": t["id"], "init": t["scenario"]["init"], "tkind": t["scenario"]["tkind"],
                       "argv": [e["argv"] for e in t["events"] if e["ev"] == "cmd"],
                       "rc": [e["rc"] for e in t["events"] if e["ev"] == "done"]})
    coverage = {
        "states": states, "transitions": trans,
        "traces_validated_against_impl": accepted,
        "rejected": len(rejected),
        "evaluations": len(traces),
        "commands_executed": ncmds,
        "exit_status_histogram": rc_hist,
        "target_state_changes_observed": obs_events,
        "distinct_commands": len(run_cmds),
        "alphabet_commands_executed": len(alphabet_cmds & run_cmds), "alphabet_commands": len(alphabet_cmds),
        "coverage_classes": sorted(cov),
        "scenarios_by_source": {k: sum(1 for s in scns if s["src"] == k) for k in ("each", "alpha", "rand")},
        "known_finding_scenarios_dropped": dropped_known,
        "design_drift": drift, "design_drift_samples": drift_samples,
        "model_sanity_counterexamples": sanity,
        "design_actions_taken": taken,
        "binding_demos_rejected": demos,
        "samples": sample,
        "rule": "a trace = one scenario (initial target state, 1-4 regctl index commands) executed by the real regctl "
                "binary; every state change of a registry target and the state after every command are observed",
        "exhaustive": False,
        "entry_points": ["regctl index create", "regctl index add", "regctl index delete"],
    }
    assumptions = [
        "exhaustive only within the model checked alphabets (30 commands, sequences of 2, thorough: 3 with refused writes; 7 commands, sequences of 5)",
        "one client at a time: concurrent editors of one tag lose updates by design (no compare-and-swap in the protocol)",
        "intermediate states are observed on registry targets only (simreg After hook); layouts are audited after each command",
        "platform semantics of IndexEditWorld (normalisation, windows build numbers) are those documented in types/platform; C16 checks them in depth",
        "descriptor fields outside the OCI image spec (unknown keys) are not in the seeded indexes: regclient re-marshals descriptors through its own struct",
    ]
    if drift:
        vlib.log("X03: design-spec drift (not a violation): %s" % drift)
    return "model_checking", coverage, assumptions

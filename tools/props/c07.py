"""C07 - an OCI layout survives a crash at any point of any write (scheme/ocidir, image.go).

(D) spec/LayoutFS.tla: every layout operation as a program over atomic system calls with Crash
    enabled between any two, Retry and a fresh reader after the crash; checked exhaustively by TLC
    (LayoutFSMC) against the crash-state predicates O1-O6.
(P) spec/LayoutFSProp.tla: the crash-state predicates over observed facts only.
(C) R: the operation x start-state list drives harness/cmd/c07drv (real regclient on ocidir://,
       ONE operation per process) under strace.
    V: a replayer (this file) reconstructs the directory after every prefix of mutating system
       calls (= what a SIGKILL at that instant leaves behind), abstracts it with an independent
       checker (marker / index / tag table / digest audit / closure walk, python std lib only),
       has every selected prefix directory opened by a FRESH real client and the interrupted
       operation re-run on it (c07drv -mode probe), and writes all of that as flat facts into a
       trace that TLC validates against (P) (spec/LayoutFSTrace.tla), every invariant at every event.
       The recorded system-call sequences are also validated against (D) (spec/LayoutFSDTrace.tla):
       a mismatch there is drift, never a violation.
    A seed-selected subset of crash points is confirmed by really SIGKILLing the driver at that
    system call (strace inject) and comparing the directory with the replayer's reconstruction.
"""
import concurrent.futures
import copy
import hashlib
import json
import os
import random
import re
import shutil
import subprocess

import vlib

# ----------------------------------------------------------------------------------------------
# strace parsing
# ----------------------------------------------------------------------------------------------

TRACE_SET = ("open,openat,openat2,creat,write,pwrite64,writev,pwritev,pwritev2,copy_file_range,sendfile,"
             "splice,rename,renameat,renameat2,unlink,unlinkat,rmdir,mkdir,mkdirat,close,ftruncate,"
             "truncate,link,linkat,symlink,symlinkat,dup,dup2,dup3,fallocate,chdir,fchdir")
# calls that can change a file system but that the replayer does not model: a use of one of them
# on the layout directory is a tooling error (exit 2), never silently ignored
UNSUPPORTED = {"writev", "pwritev", "pwritev2", "copy_file_range", "sendfile", "splice", "link", "linkat",
               "symlink", "symlinkat", "fallocate", "openat2", "chdir", "fchdir"}

_line = re.compile(r"^(\d+)\s+(.*)$")
_call = re.compile(r"^(\w+)\((.*)\)\s+= (-?\d+|\?)(.*)$", re.S)


def _unhex(s):
    return bytes.fromhex(s.replace("\\x", ""))


def split_args(s):
    """Split a strace argument list. Strings are pure \\xNN sequences because of -xx (no quote, comma or bracket
    inside), so the text is cut at the quotes first and only the short parts outside strings are scanned
    character by character (a write of a 16 MiB index.json is one 64 MB argument)."""
    out, cur, depth = [], [], 0
    parts = s.split('"')
    for i, part in enumerate(parts):
        if i % 2 == 1:
            cur.append('"' + part + '"')
            continue
        for ch in part:
            if ch in "([{":
                depth += 1
                cur.append(ch)
            elif ch in ")]}":
                depth -= 1
                cur.append(ch)
            elif ch == "," and depth == 0:
                out.append("".join(cur).strip())
                cur = []
            else:
                cur.append(ch)
    if cur:
        out.append("".join(cur).strip())
    return out


def arg_bytes(a):
    if a.endswith('"...'):
        raise vlib.ToolError("strace truncated a string (raise -s)")
    if len(a) < 2 or a[0] != '"' or a[-1] != '"':
        raise vlib.ToolError("cannot parse strace string argument: %r" % a[:80])
    try:
        return _unhex(a[1:-1])
    except ValueError:
        raise vlib.ToolError("cannot parse strace string argument: %r" % a[:80])


def parse_strace(fn):
    """Yield (pid, name, args, ret, complete) in the order of completion. A call that never
    completed (process killed) is yielded with ret None."""
    pending = {}
    calls = []
    killed = False
    with open(fn, errors="replace") as f:
        for raw in f:
            m = _line.match(raw.rstrip("\n"))
            if not m:
                continue
            pid, rest = int(m.group(1)), m.group(2)
            if rest.startswith("---"):
                continue
            if rest.startswith("+++"):
                if "killed" in rest:
                    killed = True
                continue
            if rest.endswith("<unfinished ...>"):
                pending[pid] = rest[:-len("<unfinished ...>")].rstrip()
                mc = re.match(r"^close\((\d+)", pending[pid])
                if mc:
                    # the descriptor number is free for reuse by another thread from the moment the
                    # call is entered: apply a close at its entry, everything else at its completion
                    calls.append((pid, "close", [mc.group(1)], 0))
                    pending[pid] = None
                continue
            mm = re.match(r"^<\.\.\. (\w+) resumed>(.*)$", rest, re.S)
            if mm:
                if pid not in pending:
                    raise vlib.ToolError("strace: resumed without unfinished: " + rest[:100])
                head = pending.pop(pid)
                if head is None:
                    continue
                rest = head + mm.group(2)
            c = _call.match(rest)
            if not c:
                if rest.startswith("exit") or "= ?" in rest:
                    continue
                raise vlib.ToolError("strace: cannot parse line: " + rest[:200])
            name, args, ret, tail = c.group(1), c.group(2), c.group(3), c.group(4)
            calls.append((pid, name, split_args(args), None if ret == "?" else int(ret)))
    for pid, rest in pending.items():
        if rest is None:
            continue
        mm = re.match(r"^(\w+)\((.*)$", rest, re.S)
        if mm:
            calls.append((pid, mm.group(1), split_args(mm.group(2)), None))
    return calls, killed


# ----------------------------------------------------------------------------------------------
# file-system model + replayer
# ----------------------------------------------------------------------------------------------

class FS:
    """The part of the file system below one root: files (relative path -> bytes) and dirs."""

    def __init__(self, root):
        self.root = root.rstrip("/")
        self.files = {}
        self.dirs = set()
        self.exists = False      # the root directory itself

    def clone(self):
        c = FS(self.root)
        c.files = dict(self.files)   # bytes are immutable: sharing is safe
        c.dirs = set(self.dirs)
        c.exists = self.exists
        return c

    @classmethod
    def load(cls, root):
        fs = cls(root)
        if not os.path.isdir(root):
            return fs
        fs.exists = True
        for dp, dn, fnames in os.walk(root):
            rel = os.path.relpath(dp, root)
            if rel != ".":
                fs.dirs.add(rel)
            for n in fnames:
                p = os.path.join(dp, n)
                with open(p, "rb") as f:
                    fs.files[os.path.normpath(os.path.join(rel, n))] = f.read()
        return fs

    def dump(self, root):
        if not self.exists:
            return
        os.makedirs(root, exist_ok=True)
        for d in sorted(self.dirs):
            os.makedirs(os.path.join(root, d), exist_ok=True)
        for p, b in self.files.items():
            fp = os.path.join(root, p)
            os.makedirs(os.path.dirname(fp), exist_ok=True)
            with open(fp, "wb") as f:
                f.write(b)

    def rel(self, path):
        """relative path below the root, '' for the root itself, None when outside"""
        path = os.path.normpath(path)
        if path == self.root:
            return ""
        if path.startswith(self.root + "/"):
            return path[len(self.root) + 1:]
        return None

    def same(self, other):
        return self.exists == other.exists and self.files == other.files and \
            (self.dirs == other.dirs)


class Replayer:
    """Applies the recorded system calls one by one to an FS model. step() returns an event
    description when the call changed the layout, else None."""

    def __init__(self, fs, cwd):
        self.fs = fs
        self.cwd = cwd
        self.fd = {}      # fd -> dict(path=rel or None, off=int, append=bool, abspath=...)

    def _abs(self, dirfd, path):
        p = path.decode("utf-8", "surrogateescape")
        if os.path.isabs(p):
            return os.path.normpath(p)
        if dirfd == "AT_FDCWD":
            return os.path.normpath(os.path.join(self.cwd, p))
        try:
            base = self.fd[int(dirfd)]["abspath"]
        except (KeyError, ValueError):
            raise vlib.ToolError("strace: relative path with unknown dirfd %s" % dirfd)
        return os.path.normpath(os.path.join(base, p))

    def _parent_ok(self, rel):
        d = os.path.dirname(rel)
        return self.fs.exists and (d == "" or d in self.fs.dirs)

    def step(self, call):
        pid, name, a, ret = call
        fs = self.fs
        if ret is None:
            return None          # never completed: no effect (killed at syscall entry)
        if name in ("open", "openat", "creat"):
            if name == "openat":
                dirfd, path, flags = a[0], a[1], a[2]
            elif name == "open":
                dirfd, path, flags = "AT_FDCWD", a[0], a[1]
            else:
                dirfd, path, flags = "AT_FDCWD", a[0], "O_CREAT|O_WRONLY|O_TRUNC"
            if ret < 0:
                return None
            ap = self._abs(dirfd, arg_bytes(path))
            rel = fs.rel(ap)
            fl = set(flags.split("|"))
            self.fd[ret] = {"path": rel, "abspath": ap, "off": 0, "append": "O_APPEND" in fl,
                            "w": bool(fl & {"O_WRONLY", "O_RDWR"})}
            if rel is None or rel == "" or "O_DIRECTORY" in fl:
                return None
            if rel in fs.dirs:
                return None
            if rel not in fs.files:
                if "O_CREAT" not in fl:
                    raise vlib.ToolError("replayer: open of unknown file %s succeeded" % rel)
                if not self._parent_ok(rel):
                    raise vlib.ToolError("replayer: create below unknown directory: %s" % rel)
                fs.files[rel] = b""
                return {"call": "openat_creat", "path": rel, "excl": "O_EXCL" in fl}
            if "O_TRUNC" in fl and self.fd[ret]["w"]:
                changed = fs.files[rel] != b""
                fs.files[rel] = b""
                # a truncating open of an existing file is always an event: it is the hazard
                return {"call": "openat_trunc", "path": rel, "noop": not changed}
            return None
        if name == "close":
            if ret == 0 and a and a[0].isdigit():
                self.fd.pop(int(a[0]), None)
            return None
        if name in ("write", "pwrite64"):
            if ret is None or ret < 0 or not a[0].isdigit():
                return None
            ent = self.fd.get(int(a[0]))
            if ent is None or ent["path"] is None:
                return None
            rel = ent["path"]
            if rel not in fs.files:
                # written through an fd whose name was renamed or unlinked
                rel = ent.get("moved")
                if rel is None or rel not in fs.files:
                    return None
            data = arg_bytes(a[1])[:ret]
            if len(data) != ret:
                raise vlib.ToolError("strace: write payload shorter than the byte count")
            cur = fs.files[rel]
            if name == "pwrite64":
                off = int(a[3])
            elif ent["append"]:
                off = len(cur)
            else:
                off = ent["off"]
            if off > len(cur):
                cur = cur + b"\0" * (off - len(cur))
            fs.files[rel] = cur[:off] + data + cur[off + len(data):]
            if name == "write":
                ent["off"] = off + len(data)
            return {"call": "write", "path": rel, "n": ret}
        if name in ("ftruncate", "truncate"):
            if ret != 0:
                return None
            if name == "ftruncate":
                ent = self.fd.get(int(a[0]))
                rel = ent["path"] if ent else None
            else:
                rel = fs.rel(self._abs("AT_FDCWD", arg_bytes(a[0])))
            if rel is None or rel not in fs.files:
                return None
            n = int(a[1])
            cur = fs.files[rel]
            fs.files[rel] = cur[:n] + b"\0" * max(0, n - len(cur))
            return {"call": "truncate", "path": rel}
        if name in ("rename", "renameat", "renameat2"):
            if ret != 0:
                return None
            if name == "rename":
                src, dst = self._abs("AT_FDCWD", arg_bytes(a[0])), self._abs("AT_FDCWD", arg_bytes(a[1]))
            else:
                src, dst = self._abs(a[0], arg_bytes(a[1])), self._abs(a[2], arg_bytes(a[3]))
            rs, rd = fs.rel(src), fs.rel(dst)
            if rs is None and rd is None:
                return None
            if rs is None or rd is None or rs not in fs.files:
                raise vlib.ToolError("replayer: rename across the layout boundary or of a directory: %s -> %s" % (src, dst))
            fs.files[rd] = fs.files.pop(rs)
            for ent in self.fd.values():
                if ent["path"] == rs:
                    ent["path"] = rd
            return {"call": "rename", "path": rd, "from": rs}
        if name in ("unlink", "unlinkat", "rmdir"):
            if ret != 0:
                return None
            if name == "unlinkat":
                ap = self._abs(a[0], arg_bytes(a[1]))
                isdir = "AT_REMOVEDIR" in a[2]
            else:
                ap = self._abs("AT_FDCWD", arg_bytes(a[0]))
                isdir = name == "rmdir"
            rel = fs.rel(ap)
            if rel is None:
                return None
            if isdir:
                if rel == "":
                    fs.exists = False
                else:
                    fs.dirs.discard(rel)
                return {"call": "rmdir", "path": rel}
            if rel not in fs.files:
                raise vlib.ToolError("replayer: unlink of unknown file %s succeeded" % rel)
            del fs.files[rel]
            return {"call": "unlink", "path": rel}
        if name in ("mkdir", "mkdirat"):
            if ret != 0:
                return None
            ap = self._abs(a[0], arg_bytes(a[1])) if name == "mkdirat" else self._abs("AT_FDCWD", arg_bytes(a[0]))
            rel = fs.rel(ap)
            if rel is None:
                return None
            if rel == "":
                fs.exists = True
            else:
                fs.dirs.add(rel)
            return {"call": "mkdir", "path": rel}
        if name in ("dup", "dup2", "dup3"):
            if ret is not None and ret >= 0 and a[0].isdigit():
                ent = self.fd.get(int(a[0]))
                if ent is not None and ent["path"] is not None and ent["w"]:
                    raise vlib.ToolError("replayer: dup of a writable layout descriptor is not modelled")
                if ent is not None:
                    self.fd[ret] = dict(ent)
            return None
        if name in UNSUPPORTED:
            if ret is not None and ret >= 0:
                txt = " ".join(a)
                hexroot = "".join("\\x%02x" % c for c in self.fs.root.encode())
                fds = [x for x in a if x.isdigit() and int(x) in self.fd and self.fd[int(x)]["path"] is not None]
                if hexroot in txt or fds:
                    raise vlib.ToolError("replayer: unsupported system call %s touches the layout" % name)
            return None
        return None


# ----------------------------------------------------------------------------------------------
# independent checker: abstraction of a directory state (python std lib only, no regclient code)
# ----------------------------------------------------------------------------------------------

REFNAME = "org.opencontainers.image.ref.name"
MT_INDEX = ("application/vnd.oci.image.index.v1+json", "application/vnd.docker.distribution.manifest.list.v2+json")
HEXLEN = {"sha256": 64, "sha512": 128}


class Abstractor:
    def __init__(self, catalog):
        self.name = {o["digest"]: o["name"] for o in catalog}
        self.name.update({o["digest512"]: o["name"] for o in catalog if o.get("digest512")})
        self.cat = {o["name"]: o for o in catalog}
        self._hash = {}

    def nm(self, dig):
        if dig in self.name:
            return self.name[dig]
        return "x" + dig.split(":")[-1][:10]

    def hash_ok(self, alg, hexname, data):
        key = (alg, hexname, len(data), hash(data))
        r = self._hash.get(key)
        if r is None:
            r = hashlib.new(alg, data).hexdigest() == hexname
            self._hash[key] = r
        return r

    def file_class(self, rel):
        if rel == "oci-layout":
            return "marker"
        if rel == "index.json":
            return "index"
        if rel == "" or rel == "blobs" or re.fullmatch(r"blobs/[a-z0-9]+", rel):
            return "dir"
        m = re.fullmatch(r"blobs/([a-z0-9]+)/([^/]+)", rel)
        if m:
            alg, n = m.group(1), m.group(2)
            if alg in HEXLEN and re.fullmatch(r"[0-9a-f]{%d}" % HEXLEN[alg], n):
                o = self.cat.get(self.name.get(alg + ":" + n, ""))
                if o is None:
                    return "cas"
                return "casblob" if o["kind"] in ("layer", "config") else "casman"
            if n.endswith(".tmp"):
                return "mantmp" if re.match(r"^[0-9a-f]{64,}\.", n) else "blobtmp"
            return "blobother"
        if re.fullmatch(r"index\.json\..*tmp", rel):
            return "indextmp"
        if rel.startswith("oci-layout"):
            return "markertmp"
        return "other"

    def abstract(self, fs, opobj=None, subj=None):
        """-> dict of flat facts about one directory state"""
        f = {}
        mk = fs.files.get("oci-layout")
        if mk is None:
            f["marker"] = "absent"
        elif mk == b"":
            f["marker"] = "empty"
        else:
            try:
                j = json.loads(mk.decode("utf-8"))
                f["marker"] = "complete" if isinstance(j, dict) and j.get("imageLayoutVersion") == "1.0.0" else "other"
            except (ValueError, UnicodeDecodeError):
                f["marker"] = "partial"
        tags, untagged = {}, []
        ib = fs.files.get("index.json")
        if ib is None:
            f["index"] = "absent"
        else:
            try:
                j = json.loads(ib.decode("utf-8"))
                if not isinstance(j, dict) or not isinstance(j.get("manifests", []), list):
                    raise ValueError("shape")
                f["index"] = "ok"
                for e in j.get("manifests") or []:
                    t = (e.get("annotations") or {}).get(REFNAME)
                    if t is None:
                        untagged.append(e["digest"])
                    elif t not in tags:
                        tags[t] = e["digest"]
            except (ValueError, UnicodeDecodeError, KeyError, TypeError, AttributeError):
                f["index"] = "torn"
        # digest audit (O1) and temp files
        bad, temps, present = [], 0, {}
        for rel, data in fs.files.items():
            m = re.fullmatch(r"blobs/([a-z0-9]+)/([^/]+)", rel)
            if not m:
                if rel not in ("oci-layout", "index.json"):
                    temps += 1
                continue
            alg, n = m.group(1), m.group(2)
            if alg in HEXLEN and re.fullmatch(r"[0-9a-f]{%d}" % HEXLEN[alg], n):
                ok = self.hash_ok(alg, n, data)
                present[alg + ":" + n] = ok
                if not ok:
                    bad.append(self.nm(alg + ":" + n))
            else:
                temps += 1
        f["badfiles"] = sorted(bad)
        f["temps"] = temps
        # closure walk (O4)
        memo = {}

        def complete(dig, depth=0):
            if dig in memo:
                return memo[dig]
            memo[dig] = False
            if depth > 8 or not present.get(dig):
                return False
            alg, hx = dig.split(":", 1)
            data = fs.files["blobs/%s/%s" % (alg, hx)]
            try:
                j = json.loads(data.decode("utf-8"))
            except (ValueError, UnicodeDecodeError):
                return False
            if not isinstance(j, dict):
                return False
            ok = True
            for e in j.get("manifests") or []:
                mt = e.get("mediaType", "")
                if mt and "manifest" not in mt and "image.index" not in mt:
                    # an index entry that is a blob, not a manifest (buildkit cache export: layers + cache config)
                    ok = ok and bool(present.get(e.get("digest", "")))
                else:
                    ok = ok and complete(e.get("digest", ""), depth + 1)
            cfg = j.get("config")
            if isinstance(cfg, dict) and cfg.get("digest"):
                ok = ok and bool(present.get(cfg["digest"]))
            for e in j.get("layers") or []:
                if e.get("urls"):
                    continue
                ok = ok and bool(present.get(e.get("digest", "")))
            memo[dig] = ok
            return ok

        f["tag_t"] = sorted(tags)
        f["tag_d"] = [self.nm(tags[t]) for t in sorted(tags)]
        f["untagged"] = sorted(set(self.nm(d) for d in untagged))
        f["dangling"] = [t for t in sorted(tags) if not complete(tags[t])]
        f["dangling_u"] = sorted(set(self.nm(d) for d in untagged if not complete(d)))
        if opobj is not None and opobj in self.cat:
            f["has"] = 1 if (present.get(self.cat[opobj]["digest"]) or present.get(self.cat[opobj].get("digest512", ""))) else 0
        else:
            f["has"] = 0
        return f

    def fresh_facts(self, fr, subj=None):
        """facts logged by the fresh real client (c07drv -mode probe), digests mapped to names"""
        f = {"tl": fr["tl"]}
        ts = sorted(fr["res"])
        f["res_t"] = ts
        f["res_d"] = [self.nm(fr["res"][t]) for t in ts]
        f["unres"] = sorted(fr["unres"])
        f["broken"] = sorted(fr["broken"])
        refs = []
        if subj is not None and subj in self.cat:
            s = fr["refs"].get(self.cat[subj]["digest"], "")
            refs = sorted(self.nm(d) for d in s.split(",") if d)
            f["refs_err"] = 1 if self.cat[subj]["digest"] in fr["refserr"] else 0
        else:
            f["refs_err"] = 0
        f["refs"] = refs
        return f


# ----------------------------------------------------------------------------------------------
# scenarios: start state x operation, and what each operation intends (input to (P))
# ----------------------------------------------------------------------------------------------

SRC_TAGS = {"m1": "M1", "m2": "M2", "m3": "M3", "ix": "IX", "ib": "IB", "in": "IN"}
TARS = {"m1": "M1", "m2": "M2", "m3r": "M3", "ix": "IX"}
SRC_REFERRERS = {"M1": ["A1"]}          # referrers present in the source layout (mksrc)

SCENARIOS = [
    # from nothing (the directory does not exist)
    ("E", "blob_put:L3"), ("E", "blob_put:L4"), ("E", "put_tag:v1:M1"), ("E", "put_digest:M2"),
    ("E", "put_child:M2"), ("E", "put_index:ix:IX"), ("E", "put_ref:art:A1"),
    ("E", "copy:v1:m1+gc"), ("E", "copy:ix:ix+gc"), ("E", "copy_ref:v1:m1+gc"),
    ("E", "import:v2:m2+gc"), ("E", "import:v3:m3r+gc"), ("E", "import:ix:ix+gc"),
    # an existing empty directory
    ("E0", "blob_put:L3"), ("E0", "put_tag:v1:M1"), ("E0", "copy:v1:m1+gc"),
    # one tag
    ("P1", "blob_put:L3"), ("P1", "blob_put:L1"), ("P1", "put_tag:v2:M2"), ("P1", "put_tag:v1:M2"),
    ("P1", "put_tag:v1:M1+gc"), ("P1", "put_digest:M2"), ("P1", "put_child:M2"), ("P1", "put_index:ix:IX"),
    ("P1", "put_ref:art:A1"), ("P1", "put_refd:A1"), ("P1", "tag_delete:v1"), ("P1", "tag_delete:v1+gc"),
    ("P1", "man_delete:M1"), ("P1", "man_delete:M1+gc"), ("P1", "copy:v2:m2+gc"), ("P1", "copy:ix:ix+gc"),
    ("P1", "copy_ref:v1:m1+gc"), ("P1", "import:v2:m2+gc"), ("P1", "import:v3:m3r+gc"),
    # two tags sharing a layer
    ("P2", "put_tag:v3:M3"), ("P2", "put_tag:v2:M1"), ("P2", "tag_delete:v2"), ("P2", "tag_delete:v2+gc"),
    ("P2", "man_delete:M2"), ("P2", "man_delete:M2+gc"), ("P2", "put_ref:art:A1+gc"), ("P2", "copy:v3:m3+gc"),
    ("P2", "copy:v1:m2+gc"), ("P2", "import:ix:ix+gc"),
    # a tag and an index whose children include the tagged image
    ("PX", "tag_delete:ix+gc"), ("PX", "man_delete:IX+gc"), ("PX", "put_tag:v2:M2"), ("PX", "copy:v2:m2+gc"),
    ("PX", "tag_delete:v1+gc"),
    # a tag with one / two referrers (fall-back tag)
    ("PR", "put_refd:A2"), ("PR", "put_ref:art2:A2+gc"), ("PR", "man_delete:A1"), ("PR", "man_delete:A1+gc"),
    ("PR", "tag_delete:v1+gc"), ("PR", "man_delete:M1"),
    ("PR2", "man_delete:A1"), ("PR2", "man_delete:A2+gc"), ("PR2", "put_refd:A1"),
    # two tags plus leftovers of an earlier interrupted writer (stale temp files, an orphan blob)
    ("PT", "put_tag:v3:M3+gc"), ("PT", "tag_delete:v2+gc"), ("PT", "copy:v3:m3+gc"), ("PT", "blob_delete:L4"),
    # copy inside one layout (retag): new tag, and an existing tag moved to another image (+GC of the old one)
    ("P2", "retag:v3:v1"), ("P2", "retag:v2:v1+gc"),
    # --- input dimensions (design.d/C07.md "Input dimensions") ---
    # content that does not match its descriptor: wrong digest (true size), wrong size (true digest), manifest
    # pushed to a digest reference that is not its digest - the operation must fail and leave O1-O4 intact
    ("P1", "blob_bad:L3:L2:digest"), ("E", "blob_bad:L3:L4:digest"), ("P1", "blob_bad:L4:L4:size"),
    ("E0", "blob_bad:L3:L3:size"), ("P2", "man_bad:M3:M2"),
    # descriptor completeness: neither digest nor size (computed by the layout), digest without size
    ("P1", "blob_put:L3:nd"), ("E", "blob_put:L4:nd"), ("P1", "blob_put:L3:ns"),
    # size boundaries: empty blob (no write call), exactly one copy buffer, one byte more
    ("P1", "blob_put:L0"), ("E", "blob_put:L0:nd"), ("P1", "blob_put:LK"), ("P1", "blob_put:LK1"),
    # spelling of the target reference: relative path (the GC state is keyed by the path), tag and digest together
    ("P1", "put_tag:v2:M2+gc~rel"), ("P2", "tag_delete:v2+gc~rel"), ("E", "copy:v1:m1+gc~rel"),
    ("P1", "import:v2:m2+gc~rel"), ("PR", "man_delete:A1+gc~rel"), ("P1", "put_tag:v2:M2~td"),
    # digest algorithm: sha512 blob (new directory blobs/sha512) and a tagged manifest stored under its sha512 digest
    ("P1", "blob_put:L3:s512"), ("E", "blob_put:L4:s512"), ("P1", "put_tag:v2:M2+gc~s512"),
    # shape of the stored content: PB holds a tag on a cache-export index (its entries are layer blobs plus a cache
    # config blob, not manifests) and a tag on an index nested in an index; every operation followed by the GC
    ("PB", "put_tag:v2:M2+gc"), ("PB", "tag_delete:v1+gc"), ("PB", "man_delete:IB+gc"), ("PB", "blob_put:L3"),
    ("PB", "tag_delete:cache+gc"), ("PB", "retag:c2:cache+gc"), ("PB", "tag_delete:nest+gc"),
    ("E", "copy:cache:ib+gc"), ("P1", "copy:cache:ib+gc"), ("E", "copy:nest:in+gc"), ("PB", "import:v3:m3r+gc"),
]
# copy SOURCE = a registry (the in-process model registry zzverif/simreg holding the same catalogue): the blob tasks of
# ImageCopy then depend on the caller's context and on the connection; base scenarios run uninterrupted, their
# interrupted variants (context cancelled / connection error / status 500 / truncated reply at request k, the process
# living on; ~c<k> cancel, ~e<k> connection error, ~h<k> status 500, ~t<k> truncated reply) are generated from the number of requests the base run made (interrupted_variants)
REG_SCENARIOS = [("E", "rcopy:v1:m1+gc"), ("P1", "rcopy:v2:m2+gc"), ("E", "rcopy:ix:ix+gc")]
REG_THOROUGH = [("P2", "rcopy:v3:m3+gc"), ("P1", "rcopy:ix:ix+gc"), ("E", "rcopy:cache:ib+gc")]
# the digest being written is ALREADY in the layout under another tag (second tag on an image, re-push, copy / import
# of an image that is there, an index whose children are there): whatever an interrupted writer undoes must not
# hurt the other owners of the digest-named files
SHARED_SCENARIOS = [("P1", "put_tag:v2:M1"), ("PX", "put_index:ix2:IX"), ("P1", "copy:v2:m1+gc"), ("P1", "import:v2:m1+gc"),
                    ("PX", "put_child:M1")]
INTR = re.compile(r"~[ceht]\d+")


def interrupted_variants(runs, rng, thorough):
    out = []
    for r in runs:
        if not r.op.startswith("rcopy:") or INTR.search(r.op):
            continue
        n = int(r.res.get("nreq", 0))
        ks = list(range(1, n + 1))
        cancel = ks if (thorough or n <= 5) else sorted(rng.sample(ks, 4))
        if not ks:
            continue
        other = [(c, k) for c in "eht" for k in sorted(rng.sample(ks, min(3, n)))] if thorough else [(rng.choice("eht"), rng.choice(ks))]
        out += [(r.start, "%s~c%d" % (r.op, k)) for k in cancel] + [(r.start, "%s~%s%d" % (r.op, c, k)) for c, k in other]
    return out


# size of the existing layout state: index.json padded to just above / below round sizes (two tags, like P2)
BIG_STATES = {"L1Mp": "P2", "L4Mm": "P2", "L4Mp": "P2", "L8Mp": "P2", "L16Mm": "P2", "L16Mp": "P2"}   # -> same content in (D)
BIG_QUICK = [("L1Mp", "put_tag:v3:M3+gc"), ("L4Mm", "put_tag:v3:M3+gc"), ("L4Mp", "put_tag:v3:M3+gc"),
             ("L4Mp", "tag_delete:v2+gc"), ("L4Mp", "copy:v3:m3+gc"), ("L4Mp", "import:v3:m3r+gc")]
BIG_THOROUGH = [("L8Mp", "put_tag:v3:M3+gc"), ("L16Mm", "put_tag:v3:M3+gc"), ("L16Mp", "put_tag:v3:M3+gc"),
                ("L16Mp", "put_ref:art:A1+gc"), ("L4Mp", "man_delete:M2+gc"), ("L4Mp", "put_index:ix:IX"),
                ("L4Mp", "put_child:M3")]
# histories of two operations: after a crash state of the first, ANOTHER operation that should complete the
# content (import / copy of the image concerned) instead of the retry: object -> (source tag, archive)
OBJ_SRC = {"M1": ("m1", "m1"), "M2": ("m2", "m2"), "M3": ("m3", "m3r"), "IX": ("ix", "ix"), "IB": ("ib", None), "IN": ("in", None)}


def follow_ops(r):
    """follow-up operations for the crash states of run r: [(op2, tag2, obj2)]"""
    if r.second or "~" in r.op or r.start in BIG_STATES:
        return []
    info, kind, pre = r.info, r.info["kind"], r.pre_tags
    gc = "+gc" in r.op
    if kind == "tag_delete" and gc:
        obj, tag = pre.get(info["optag"]), info["optag"]
    elif kind == "man_delete" and gc:
        obj = info["opobj"]
        tag = next((t for t in sorted(pre) if pre[t] == obj), "w")
    elif kind == "retag" and gc:
        obj, tag = pre.get(info["optag"]), "w"         # the image that lost the moved tag
    elif kind in ("copy", "import", "put_tag", "put_index"):
        obj, tag = info["opobj"], info["optag"]
    else:
        return []
    if obj not in OBJ_SRC:
        return []
    st, tar = OBJ_SRC[obj]
    ops = ["copy:%s:%s+gc" % (tag, st)] + (["import:%s:%s+gc" % (tag, tar)] if tar else [])
    return [(o, tag, obj) for o in ops if o != r.op]


NOT_IN_D = ("s512",)          # (D) has one abstract blobs/<alg> directory: the sha512 recordings are not matched against it
EXPECT_FAIL = ("blob_bad", "man_bad")
STATES = ["E", "E0", "P1", "P2", "PX", "PR", "PR2", "PT", "PB"]


def fallback_tag(ab, subj):
    return ab.cat[subj]["digest"].replace(":", "-", 1)


def op_info(ab, op, pre):
    """What the operation is meant to achieve, as header fields for (P). pre: tag -> name."""
    op = op.split("~")[0]
    a = op[:-3].split(":") if op.endswith("+gc") else op.split(":")
    kind = a[0]
    h = {"kind": kind, "optag": "", "opobj": "", "subj": "", "fbtag": "", "wantrefs": [], "norefs": [], "tgt": []}
    if kind in ("blob_put", "blob_delete", "put_digest", "put_child"):
        h["opobj"] = a[1]
    elif kind == "blob_bad":
        h["opobj"] = a[1]          # the object whose digest is claimed
        h["dobj"] = a[2]           # the bytes really sent (for the design spec: number of write calls)
    elif kind == "man_bad":
        h["opobj"] = a[1]
        h["dobj"] = a[2]
    elif kind == "retag":
        h.update(optag=a[1], opobj=pre.get(a[2], ""), tgt=[a[1]])
    elif kind in ("put_tag", "put_index"):
        h.update(optag=a[1], opobj=a[2], tgt=[a[1]])
    elif kind == "put_ref":
        s = ab.cat[a[2]]["subject"]
        h.update(optag=a[1], opobj=a[2], subj=s, fbtag=fallback_tag(ab, s), wantrefs=[a[2]])
        h["tgt"] = [a[1], h["fbtag"]]
    elif kind == "put_refd":
        s = ab.cat[a[1]]["subject"]
        h.update(opobj=a[1], subj=s, fbtag=fallback_tag(ab, s), wantrefs=[a[1]])
        h["tgt"] = [h["fbtag"]]
    elif kind == "tag_delete":
        h.update(optag=a[1], tgt=[a[1]])
    elif kind == "man_delete":
        h.update(opobj=a[1], tgt=sorted(t for t, d in pre.items() if d == a[1]))
        s = ab.cat[a[1]].get("subject")
        if s:
            h.update(subj=s, fbtag=fallback_tag(ab, s), norefs=[a[1]])
            h["tgt"] = sorted(set(h["tgt"] + [h["fbtag"]]))
    elif kind in ("copy", "rcopy"):
        h.update(optag=a[1], opobj=SRC_TAGS[a[2]], tgt=[a[1]])
    elif kind == "copy_ref":
        o = SRC_TAGS[a[2]]
        h.update(optag=a[1], opobj=o, subj=o, fbtag=fallback_tag(ab, o), wantrefs=SRC_REFERRERS.get(o, []))
        h["tgt"] = [a[1], h["fbtag"]]
    elif kind == "import":
        h.update(optag=a[1], opobj=TARS[a[2]], tgt=[a[1]])
    else:
        raise vlib.ToolError("unknown operation " + op)
    return h


# ----------------------------------------------------------------------------------------------
# running one scenario under strace and replaying its prefixes
# ----------------------------------------------------------------------------------------------

def _sh(argv, timeout=300, **kw):
    try:
        return subprocess.run(argv, capture_output=True, text=True, timeout=timeout, **kw)
    except subprocess.TimeoutExpired:
        raise vlib.ToolError("timed out (tooling): " + " ".join(argv[:8]))


def strace_argv(out, inject=None):
    a = ["strace", "-f", "-xx", "-s", "34000000", "-e", "trace=" + TRACE_SET]
    if inject:
        a += ["-e", "inject=%s:signal=KILL:when=%d" % inject]
    return a + ["-o", out]


class Run:
    """One operation of the real code on one start state, recorded by strace and replayed."""

    def __init__(self, sid, start, op):
        self.sid, self.start, self.op = sid, start, op
        self.events = []       # per mutating call: dict(call, cls, path, facts)
        self.snaps = []        # FS after event i (index 0 = start state)
        self.notes = {}        # crash point -> error texts of the probes (diagnostics only, not validated)


def run_scenario(env, sid, start, op, crashed=None):
    """crashed = (first-level Run, k): start from the directory that run's crash point k left behind (the
    operation below is then the RETRY, and its own prefixes are states after a second crash)"""
    ab, drv, src, work = env["ab"], env["drv"], env["src"], env["work"]
    r = Run(sid, start, op)
    r.ab = ab
    base = os.path.join(work, sid)
    d = os.path.join(base, "d")
    os.makedirs(base)
    if crashed is not None:
        crashed[0].snaps[crashed[1]].dump(d)
    else:
        tmpl = os.path.join(env["states"], start)
        if os.path.isdir(tmpl):
            shutil.copytree(tmpl, d)
    fs = FS.load(d)
    fs.root = d
    r.pre_fs = crashed[0].pre_fs if crashed is not None else fs.clone()   # O3 refers to the tags before the FIRST attempt
    r.second = crashed is not None
    r.origin = None
    if crashed is not None:
        e0 = crashed[0].events[crashed[1] - 1]
        r.origin = "%s:%s[marker=%s,index=%s]" % (e0["call"], e0["cls"], e0["facts"]["marker"], e0["facts"]["index"])
    st = os.path.join(base, "strace.txt")
    p = _sh(strace_argv(st) + [drv, "-mode", "op", "-dir", d, "-src", src, "-op", op, "-res", os.path.join(base, "res.json")],
            cwd=base)
    if p.returncode != 0:
        raise vlib.ToolError("driver failed under strace (%s %s): rc=%d %s" % (start, op, p.returncode, p.stderr[-2000:]))
    with open(os.path.join(base, "res.json")) as f:
        r.res = json.load(f)
    if crashed is not None:
        r.res["ok"] = 1      # a retry may legitimately report an error (e.g. "not found" after an interrupted delete)
    calls, _ = parse_strace(st)
    r.calls = calls
    rp = Replayer(fs, base)
    pre0 = ab.abstract(r.pre_fs)
    r.pre_tags = dict(zip(pre0["tag_t"], pre0["tag_d"]))
    info = r.info = op_info(ab, op, r.pre_tags)
    r.snaps.append(fs.clone())
    counts = {}
    for c in calls:
        counts[c[1]] = counts.get(c[1], 0) + 1
        counts[(c[0], c[1])] = counts.get((c[0], c[1]), 0) + 1
        ev = rp.step(c)
        if ev is None:
            continue
        ev["cls"] = ab.file_class(ev["path"])
        ev["sysname"], ev["sysidx"] = c[1], counts[c[1]]
        ev["tididx"] = counts[(c[0], c[1])]           # strace counts `when=` per thread
        ev["facts"] = facts_of(ab, fs, info)
        r.events.append(ev)
        r.snaps.append(fs.clone())
    real = FS.load(d)
    real.root = d
    if not fs.same(real):
        diff = sorted(set(fs.files) ^ set(real.files)) + [p for p in fs.files if p in real.files and fs.files[p] != real.files[p]]
        raise vlib.ToolError("replayer does not reproduce the directory of %s %s: %s" % (start, op, diff[:6]))
    r.final_dir = d
    return r


def facts_of(ab, fs, info):
    return ab.abstract(fs, info["opobj"], info["subj"])


# ----------------------------------------------------------------------------------------------
# crash states -> probe jobs -> trace events
# ----------------------------------------------------------------------------------------------

def select_points(runs, rng, budget):
    """Crash points that get a fresh client + retry. Always: every distinct (operation kind,
    call, target class, marker state) point; the rest of the budget is a seeded sample."""
    allp, must, seen = [], [], set()
    for r in runs:
        for k in range(1, len(r.events) + 1):
            e = r.events[k - 1]
            key = (r.op.split(":")[0], e["call"], e["cls"], e["facts"]["marker"], e["facts"]["index"])
            if key not in seen:
                seen.add(key)
                must.append((r.sid, k))
            else:
                allp.append((r.sid, k))
    if budget is None or len(must) + len(allp) <= budget:
        return set(must + allp), len(seen)
    extra = rng.sample(allp, max(0, budget - len(must)))
    return set(must + extra), len(seen)


def probe_all(env, runs, selected, faults=()):
    """Materialise the selected crash directories, let c07drv open each with a fresh real client,
    re-run the interrupted operation and probe again; abstract the directory after the retry."""
    ab, work = env["ab"], env["work"]
    jobs = []
    for r in runs:
        base = os.path.join(work, r.sid)
        for k in range(1, len(r.events) + 1):
            if (r.sid, k) not in selected:
                continue
            d = os.path.join(base, "c%03d" % k)
            r.snaps[k].dump(d)
            jobs.append({"id": "%s#%d" % (r.sid, k), "dir": d, "op": r.op, "src": env["src"]})
            for i, (op2, _, _) in enumerate(follow_ops(r)):
                d2 = os.path.join(base, "f%03d_%d" % (k, i))
                r.snaps[k].dump(d2)
                jobs.append({"id": "%s#%d~f%d" % (r.sid, k, i), "dir": d2, "op": op2, "src": env["src"]})
        jobs.append({"id": "%s#end" % r.sid, "dir": r.final_dir, "op": "", "src": env["src"]})
    for f in faults:
        jobs.append({"id": f.id, "dir": f.dir, "op": f.run.op, "src": env["src"]})
    jf, of = os.path.join(work, "jobs.jsonl"), os.path.join(work, "probe.jsonl")
    with open(jf, "w") as f:
        for j in jobs:
            f.write(json.dumps(j) + "\n")
    p = _sh([env["drv"], "-mode", "probe", "-jobs", jf, "-out", of, "-par", "12"], timeout=1500)
    if p.returncode != 0:
        raise vlib.ToolError("probe driver failed: rc=%d %s" % (p.returncode, p.stderr[-3000:]))
    out = {}
    with open(of) as f:
        for line in f:
            if line.strip():
                o = json.loads(line)
                out[o["id"]] = o
    if len(out) != len(jobs):
        raise vlib.ToolError("probe driver answered %d of %d jobs" % (len(out), len(jobs)))
    dirs = {j["id"]: j["dir"] for j in jobs}
    return out, dirs


def build_trace(env, r, probes, dirs, selected, faults=()):
    ab = env["ab"]
    fat = {}
    for f in faults:
        if f.run is r:
            fat.setdefault(f.k, []).append(f)
    pre = ab.abstract(r.pre_fs)
    info = op_info(ab, r.op, dict(zip(pre["tag_t"], pre["tag_d"])))
    hdr = dict(info)
    hdr.update({"marker": pre["marker"], "index": pre["index"], "pre_t": pre["tag_t"], "pre_d": pre["tag_d"],
                "start": r.start, "opname": r.op})
    evs = []
    for k in range(1, len(r.events) + 1):
        e = r.events[k - 1]
        ev = {"ev": "sys", "k": k, "call": e["call"], "cls": e["cls"]}
        ev.update(e["facts"])
        evs.append(ev)
        for f in fat.get(k, []):
            # the k-th mutating call FAILED with f.errno instead (directory as after call k-1), the process went on
            # through its error path and returned: the directory it left, a fresh client on it, then the repetition
            pf = probes[f.id]
            fe = {"ev": "fault", "k": k, "errno": f.errno, "ok": int(f.res["ok"]), "fcall": f.call, "fcls": f.cls}
            fe.update(facts_of(ab, f.fs, info))
            fe.update(ab.fresh_facts(pf["fresh"], info["subj"]))
            evs.append(fe)
            fr = {"ev": "fretry", "k": k, "errno": f.errno, "ok": 1 if pf["retry_ok"] else 0, "fcall": f.call, "fcls": f.cls}
            fr.update(facts_of(ab, FS.load(f.dir), info))
            fr.update(ab.fresh_facts(pf["after"], info["subj"]))
            evs.append(fr)
            r.notes["x%d" % k] = {"errno": f.errno, "failed_call": "%s %s" % (f.call, f.path), "op_err": f.res.get("err", "")[:300],
                                  "fresh": pf["fresh"].get("notes", [])[:4], "retry_err": pf.get("retry_err", ""),
                                  "after": pf["after"].get("notes", [])[:4]}
        if (r.sid, k) not in selected:
            continue
        pr = probes["%s#%d" % (r.sid, k)]
        fe = {"ev": "fresh", "k": k}
        fe.update(ab.fresh_facts(pr["fresh"], info["subj"]))
        evs.append(fe)
        after = FS.load(dirs[pr["id"]])
        re_ = {"ev": "retry", "k": k, "ok": 1 if pr["retry_ok"] else 0}
        re_.update(facts_of(ab, after, info))
        re_.update(ab.fresh_facts(pr["after"], info["subj"]))
        evs.append(re_)
        for i, (op2, tag2, obj2) in enumerate(follow_ops(r)):
            pf = probes["%s#%d~f%d" % (r.sid, k, i)]
            fo = {"ev": "follow", "k": k, "ok": 1 if pf["retry_ok"] else 0, "op2": op2, "kind2": op2.split(":")[0],
                  "optag2": tag2, "opobj2": obj2, "tgt2": [tag2]}
            fo.update(facts_of(ab, FS.load(dirs[pf["id"]]), info))
            fo.update(ab.fresh_facts(pf["after"], info["subj"]))
            evs.append(fo)
        r.notes[k] = {"fresh": pr["fresh"].get("notes", [])[:4], "tl_err": pr["fresh"].get("tl_err", ""),
                      "retry_err": pr.get("retry_err", ""), "after": pr["after"].get("notes", [])[:4]}
    pe = probes["%s#end" % r.sid]
    end = {"ev": "end", "trace": r.sid, "n": len(r.events), "ok": int(r.res["ok"]), "second": 1 if r.second else 0}
    fin = FS.load(r.final_dir)
    end.update(facts_of(ab, fin, info))
    end.update(ab.fresh_facts(pe["fresh"], info["subj"]))
    evs.append(end)
    return {"id": r.sid, "header": hdr, "events": evs, "scenario": {"start": r.start, "op": r.op}, "origin": r.origin}


# ----------------------------------------------------------------------------------------------
# TLC trace validation: every trace its own behaviour, -continue reports every violating state
# ----------------------------------------------------------------------------------------------

def validate_traces(ctx, traces, label):
    fn = ctx.path("traces", "%s.ndjson" % label)
    index = []
    with open(fn, "w") as f:
        for ti, t in enumerate(traces):
            hdr = {"ev": "reset", "trace": str(t["id"])}
            hdr.update(t["header"])
            f.write(json.dumps(hdr, sort_keys=True) + "\n")
            index.append((ti, -1))
            for ei, ev in enumerate(t["events"]):
                f.write(json.dumps(ev, sort_keys=True) + "\n")
                index.append((ti, ei))
    res = ctx.tlc("LayoutFSTrace", "C07_trace.cfg", workers=1, timeout=1500, record=False, allow_violation=True,
                  extra=["-continue", "-difftrace"],
                  env={"VERIF_TRACE": fn, "JAVA_TOOL_OPTIONS": "-Xss64m"})
    out = res["output"]
    done = set(re.findall(r'<<"DONE", "([^"]*)">>', out))
    missing = [t["id"] for t in traces if str(t["id"]) not in done]
    if missing:
        raise vlib.ToolError("trace validation did not consume traces %s:\n%s" % (missing[:5], out[-3000:]))
    viol = []   # (trace idx, event idx, [obligations])
    for block in out.split("Error: Invariant Ok is violated.")[1:]:
        block = block.split("Error: Invariant")[0]
        l, bad = None, None
        for m in re.finditer(r"^/\\ (l|bad) = (.*)$", block, re.M):
            if m.group(1) == "l":
                l = int(m.group(2))
            else:
                bad = m.group(2)
        if l is None or bad is None:
            raise vlib.ToolError("cannot parse TLC counterexample:\n" + block[-2000:])
        ti, ei = index[l - 2]        # l is the NEXT line to consume; the state was produced by line l-1
        viol.append((ti, ei, re.findall(r'"([^"]+)"', bad)))
    other = re.search(r"Error: (?!Invariant Ok is violated|The behavior up to this point)(.*)", out)
    if other:
        raise vlib.ToolError("TLC error during trace validation: %s\n%s" % (other.group(1), out[-3000:]))
    ctx.cov["trace_states"] = ctx.cov.get("trace_states", 0) + res["distinct"]
    return viol


def signature(t, ei, obl):
    """class of a violation: operation kind / obligation @ phase : crash point class [marker state there]"""
    ev = t["events"][ei]
    kind = t["header"]["kind"]
    # a run that is itself the retry of a crash state carries the class of that first crash point
    sfx = "<-2nd:" + t["origin"] if t.get("origin") else ""
    if ev["ev"] == "end":
        return "%s/%s@end%s" % (kind, obl, sfx)
    k = ev["k"]
    se = next(e for e in t["events"] if e["ev"] == "sys" and e["k"] == k)
    if ev["ev"] in ("fault", "fretry"):
        # the state BEFORE the failed call is the one the error path starts from
        sp = next((e for e in t["events"] if e["ev"] == "sys" and e["k"] == k - 1), None)
        mk, ix = (sp["marker"], sp["index"]) if sp else (t["header"]["marker"], t["header"]["index"])
        phase = "fault-" + ev["errno"] if ev["ev"] == "fault" else "fault-retry"
        return "%s/%s@%s:%s:%s[marker=%s,index=%s]%s" % (kind, obl, phase, ev["fcall"], ev["fcls"], mk, ix, sfx)
    phase = {"sys": "crash", "fresh": "fresh", "retry": "retry", "follow": "then-" + ev.get("kind2", "")}[ev["ev"]]
    return "%s/%s@%s:%s:%s[marker=%s,index=%s]%s" % (kind, obl, phase, se["call"], se["cls"], se["marker"], se["index"], sfx)


# ----------------------------------------------------------------------------------------------
# the check
# ----------------------------------------------------------------------------------------------

def prepare(ctx):
    ctx.build("c07drv")
    drv = os.path.join(ctx.bin, "c07drv")
    root = ctx.path("c07", "x")
    root = os.path.dirname(root)
    src = os.path.join(root, "src")
    p = _sh([drv, "-mode", "mksrc", "-src", src])
    if p.returncode != 0:
        raise vlib.ToolError("mksrc failed: " + p.stderr[-2000:])
    with open(os.path.join(root, "catalog.json")) as f:
        catalog = json.load(f)
    ab = Abstractor(catalog)
    states = os.path.join(root, "states")
    os.makedirs(states)
    for s in STATES + sorted(BIG_STATES if ctx.thorough else {x[0] for x in BIG_QUICK}):
        p = _sh([drv, "-mode", "setup", "-dir", os.path.join(states, s), "-src", src, "-state", s])
        if p.returncode != 0:
            raise vlib.ToolError("setup of start state %s failed: %s" % (s, p.stderr[-2000:]))
    work = os.path.join(root, "work")
    os.makedirs(work)
    if _sh(["strace", "-o", "/dev/null", "true"]).returncode != 0:
        raise vlib.ToolError("strace / ptrace is not available here: the crash states cannot be observed")
    return {"ab": ab, "drv": drv, "src": src, "work": work, "states": states, "root": root}


def run_all(env, scenarios, par=12, first=0):
    def one(x):
        i, (st, op) = x
        return run_scenario(env, "s%03d" % (first + i), st, op)
    with concurrent.futures.ThreadPoolExecutor(par) as ex:
        return list(ex.map(one, list(enumerate(scenarios))))


def _known_loader(ctx):
    """KNOWN_FINDINGS.json is assembled from known.d/*.json by tools/mkmanifest; read this property's
    fragment as well so that the check does not depend on the assembly having been re-run."""
    base = ctx.load_known

    def load():
        k = base()
        try:
            with open(os.path.join(vlib.VERIF, "known.d", "C07.json")) as f:
                mine = json.load(f)
        except (OSError, ValueError):
            return k
        # known.d/C07.json is the source of this property's entries (status included); the assembled file may lag
        k["findings"] = [x for x in k.get("findings", []) if x.get("property") != "C07"] + mine
        return k
    return load


def kill_confirm(env, runs, rng, n):
    """Really SIGKILL the driver at a seed-selected system call (strace inject, the call is not executed)
    and compare the directory it leaves behind with the replayer's reconstruction from that run's own
    log. A mismatch without another thread's call in flight is a tooling error."""
    cands = []
    for r in runs:
        for k, e in enumerate(r.events, 1):
            if e["sysname"] in ("openat", "write", "renameat", "unlinkat", "mkdirat"):
                cands.append((r, k, e))
    picks = vlib.sample(rng, cands, n)
    ok = inconclusive = 0
    points = []
    for i, (r, k, e) in enumerate(picks):
        base = os.path.join(env["work"], "kill%03d" % i)
        d = os.path.join(base, "d")
        os.makedirs(base)
        tmpl = os.path.join(env["states"], r.start)
        if os.path.isdir(tmpl):
            shutil.copytree(tmpl, d)
        fs = FS.load(d)
        fs.root = d
        st = os.path.join(base, "strace.txt")
        p = _sh(strace_argv(st, inject=(e["sysname"], e["sysidx"])) +
                [env["drv"], "-mode", "op", "-dir", d, "-src", env["src"], "-op", r.op, "-res", os.path.join(base, "res.json")],
                cwd=base)
        calls, killed = parse_strace(st)
        if not killed:
            # the numbering of concurrent calls differs from run to run: the chosen invocation did not occur
            inconclusive += 1
            continue
        rp = Replayer(fs, base)
        for c in calls:
            rp.step(c)
        real = FS.load(d)
        real.root = d
        inflight = sum(1 for c in calls if c[3] is None)
        if fs.same(real):
            ok += 1
            points.append("%s %s: %s #%d (before %s %s)" % (r.start, r.op, e["sysname"], e["sysidx"], e["call"], e["cls"]))
        elif inflight > 1:
            inconclusive += 1
        else:
            diff = sorted(set(fs.files) ^ set(real.files)) + [x for x in fs.files if x in real.files and fs.files[x] != real.files[x]]
            raise vlib.ToolError("SIGKILL at %s #%d of %s %s leaves a directory that differs from the replayer's "
                                 "reconstruction: %s" % (e["sysname"], e["sysidx"], r.start, r.op, diff[:6]))
    return ok, inconclusive, points


# ----------------------------------------------------------------------------------------------
# interruption by an ERROR RETURN: the k-th mutating system call fails (disk full, file size limit, descriptor
# table full, permission, I/O error), the process lives on and leaves through its error path (incl. the
# Close / garbage collection a command line tool runs after a failed command)
# ----------------------------------------------------------------------------------------------

ERRNOS = {"openat": ["ENOSPC", "EMFILE", "EACCES", "EDQUOT"], "write": ["ENOSPC", "EFBIG", "EIO", "EDQUOT"],
          "renameat": ["ENOSPC", "EACCES", "EIO"], "unlinkat": ["EACCES", "EBUSY", "EIO"], "mkdirat": ["ENOSPC", "EACCES", "EMLINK"]}


class Fault:
    pass


def select_faults(runs, rng, budget):
    """One fault point per class (operation kind, call, target class, was the written object already in the layout,
    marker / index state there), then a seeded sample up to the budget."""
    must, rest, seen = [], [], set()
    for r in runs:
        if r.second:
            continue
        pre_has = facts_of(r.ab, r.snaps[0], r.info)["has"]
        for k, e in enumerate(r.events, 1):
            if e["sysname"] not in ERRNOS:
                continue
            key = (r.info["kind"], e["call"], e["cls"], pre_has, e["facts"]["index"])
            (rest if key in seen else must).append((r, k))
            seen.add(key)
    # when the classes exceed the budget: first those where the written digest was already there (what an error path
    # undoes is then not its own), then the control files, the remainder by the seed
    def prio(x):
        r, k = x
        e = r.events[k - 1]
        return (0 if facts_of(r.ab, r.snaps[0], r.info)["has"] and r.info["kind"] not in ("blob_delete", "man_delete") else
                1 if e["cls"] in ("index", "indextmp", "marker", "markertmp") else 2)
    if len(must) >= budget:
        must.sort(key=prio)
        n2 = sum(1 for x in must if prio(x) < 2)
        picks = must[:budget] if n2 >= budget else must[:n2] + vlib.sample(rng, must[n2:], budget - n2)
    else:
        picks = must + vlib.sample(rng, rest, budget - len(must))
    return [(r, k, rng.choice(ERRNOS[r.events[k - 1]["sysname"]])) for r, k in picks], len(seen)


def fault_runs(env, picks):
    ab = env["ab"]

    def one(x):
        i, (r, k, errno) = x
        e = r.events[k - 1]
        f = Fault()
        f.id, f.run, f.k, f.errno, f.hit, f.died, f.readside = "x%03d" % i, r, k, errno, 0, 0, 0
        base = os.path.join(env["work"], f.id)
        d = os.path.join(base, "d")
        os.makedirs(base)
        tmpl = os.path.join(env["states"], r.start)
        if os.path.isdir(tmpl):
            shutil.copytree(tmpl, d)
        st = os.path.join(base, "strace.txt")
        p = _sh(["strace", "-f", "-e", "trace=" + e["sysname"], "-e", "inject=%s:error=%s:when=%d" % (e["sysname"], errno, e["tididx"]),
                 "-o", st, env["drv"], "-mode", "op", "-dir", d, "-src", env["src"], "-op", r.op, "-res", os.path.join(base, "res.json")],
                cwd=base)
        f.call, f.cls, f.path = e["call"], e["cls"], e["path"]
        if p.returncode != 0 or not os.path.exists(os.path.join(base, "res.json")):
            # the per-thread numbering made the error land in a call outside the layout (the driver's own result
            # file, the source): not this dimension
            if "(INJECTED)" not in open(st, errors="replace").read():
                raise vlib.ToolError("driver failed under fault injection without an injected call (%s %s, %s %s): rc=%d %s"
                                     % (r.start, r.op, e["sysname"], errno, p.returncode, p.stderr[-1500:]))
            f.died = 1
            return f
        with open(st, errors="replace") as fh:
            inj = [ln for ln in fh if "(INJECTED)" in ln]
        f.hit = len(inj)
        if inj and e["sysname"] != "write":
            # the call that really failed (the numbering of concurrent calls differs from run to run)
            qs = re.findall(r'"([^"]*)"', inj[0])
            if qs:
                path = qs[-1] if e["sysname"] == "renameat" else qs[0]
                path = os.path.normpath(path if os.path.isabs(path) else os.path.join(base, path))
                rel = path[len(d) + 1:] if path.startswith(d + "/") else ("" if path == d else None)
                if e["sysname"] == "openat" and not re.search(r"O_CREAT|O_WRONLY|O_RDWR|O_TRUNC|O_APPEND", inj[0]):
                    f.hit = 0          # an open for READING failed: read-side faults are not this dimension (design.d/C07.md)
                    f.readside = 1
                elif rel is None:
                    f.hit = 0          # a call outside the layout failed: not this dimension
                else:
                    f.cls, f.path = ab.file_class(rel), rel
        with open(os.path.join(base, "res.json")) as fh:
            f.res = json.load(fh)
        f.dir = d
        f.fs = FS.load(d)
        f.fs.root = d
        return f
    with concurrent.futures.ThreadPoolExecutor(12) as ex:
        return list(ex.map(one, list(enumerate(picks))))


def binding_demo(ctx, traces, dtraces, matched, mode):
    """The trace specs must reject corrupted copies of accepted real traces."""
    clean = [t for t in traces if t["header"]["index"] == "ok" and t["header"]["pre_t"] and
             any(e["ev"] == "fresh" for e in t["events"]) and
             t["header"]["kind"] in ("put_tag", "tag_delete", "copy", "import", "put_index") and
             not set(t["header"]["pre_t"]) <= set(t["header"]["tgt"])]
    if not clean:
        raise vlib.ToolError("no trace to demonstrate the binding of (P)")
    base = clean[0]
    keep = next(t for t in base["header"]["pre_t"] if t not in base["header"]["tgt"])

    def mut(name, fn):
        m = copy.deepcopy(base)
        m["id"] = name
        for e in m["events"]:
            if e["ev"] == "end":
                e["trace"] = name
        fn(m)
        return m

    def first(m, kind):
        return next(i for i, e in enumerate(m["events"]) if e["ev"] == kind)

    def set_ev(kind, **kw):
        def f(m):
            m["events"][first(m, kind)].update(kw)
        return f

    def retag(kind, tf, df):
        def f(m):
            e = m["events"][first(m, kind)]
            i = e[tf].index(keep)
            e[df][i] = "Mwrong"
        return f

    def drop(m):
        del m["events"][first(m, "sys")]

    def untag_end(m):
        e = m["events"][first(m, "end")]
        for tf, df in (("tag_t", "tag_d"), ("res_t", "res_d")):
            e[tf], e[df] = [], []
    muts = [
        (mut("demo-badfile", set_ev("sys", badfiles=["L1"])), "O1"),
        (mut("demo-torn-index", set_ev("sys", index="torn")), "O2-index"),
        (mut("demo-retag", retag("sys", "tag_t", "tag_d")), "O3"),
        (mut("demo-dangling", set_ev("sys", dangling=[keep])), "O4"),
        (mut("demo-fresh-unreadable", set_ev("fresh", tl="err")), "O2-readable"),
        (mut("demo-fresh-retag", retag("fresh", "res_t", "res_d")), "O3-fresh"),
        (mut("demo-drop-syscall", drop), "seq"),
        (mut("demo-end-tags-lost", untag_end), "O3"),
    ]
    viol = validate_traces(ctx, [m for m, _ in muts], "demo")
    for i, (m, want) in enumerate(muts):
        got = set(o for ti, ei, obls in viol if ti == i for o in obls)
        if want not in got:
            raise vlib.ToolError("binding demo %s: (P) did not report %s (reported %s): the trace spec does not bind"
                                 % (m["id"], want, sorted(got)))
    # (D): a recorded call sequence with two calls swapped must not be a behaviour of LayoutFS (shown on a
    # sequence that (D) matches; when the code has drifted from (D) everywhere there is nothing to show it on)
    d0 = next((d for d in dtraces if d["id"] in matched and d["header"]["kind"] == "put_tag" and
               any(e.get("call") == "rename" and e.get("cls") == "index" for e in d["events"])), None)
    if d0 is None:
        return len(muts)
    dm = copy.deepcopy(d0)
    dm["id"] = "demo-d-swap"
    i = next(i for i, e in enumerate(dm["events"]) if e.get("call") == "rename" and e.get("cls") == "index")
    dm["events"][i], dm["events"][i - 1] = dm["events"][i - 1], dm["events"][i]
    done, drift = validate_dtraces(ctx, [d0, dm], mode, "demo-d")
    if d0["id"] not in done or dm["id"] in done:
        raise vlib.ToolError("binding demo: LayoutFSDTrace accepted a call sequence with rename(index.json) before "
                             "the write of its temp file (or rejected the original)")
    return len(muts) + 1


CONCURRENT = ("copy", "copy_ref")
S4_SIG = re.compile(r"[a-z_]+/[^<]*:openat_trunc:marker\[marker=empty,index=ok\]")
GCCOPY_SIG = re.compile(r"[a-z_]+/O4(-fresh)?@then-copy:unlink:[^<]*")
REFCOPY_SIG = re.compile(r"copy_ref/O6-referrers@retry:[^<]*")


def run(ctx):
    rng = random.Random(ctx.seed)
    ctx.load_known = _known_loader(ctx)
    env = prepare(ctx)
    thorough = ctx.thorough
    scenarios = list(SCENARIOS) + BIG_QUICK + SHARED_SCENARIOS + REG_SCENARIOS
    if thorough:
        scenarios += BIG_THOROUGH + REG_THOROUGH
        # more interleavings of the concurrent operations
        scenarios += [sc for sc in SCENARIOS if sc[1].split(":")[0] in CONCURRENT] * 3
    if ctx.replay:
        with open(ctx.replay) as f:
            rp = json.load(f)["replay"]
        scenarios = [(rp["scenario"]["start"], rp["scenario"]["op"])]
    runs = run_all(env, scenarios)
    if not ctx.replay:
        # interruption by cancellation / connection faults at request k of a copy from a registry: k ranges over the
        # requests the uninterrupted copy made
        variants = interrupted_variants(runs, rng, thorough)
        runs += run_all(env, variants, first=len(scenarios))
        scenarios = scenarios + variants
    # an uninterrupted operation that fails is no violation by itself, but the scenario did not exercise what it was
    # written for: tooling error - unless the same tree also shows real violations, which must not be hidden by it
    not_run = ["%s %s: %s" % (r.start, r.op, r.res["err"][:160]) for r in runs
               if not r.res["ok"] and r.op.split(":")[0] not in EXPECT_FAIL and not INTR.search(r.op)]
    mode = marker_mode(runs)
    first_level = list(runs)
    if thorough and not ctx.replay:
        # two crashes on the real code: the retry of a seeded sample of crash states runs under strace itself
        pts = [(r, k) for r in first_level for k in range(1, len(r.events) + 1)]
        picks = vlib.sample(rng, pts, 80)

        def second(x):
            i, (r, k) = x
            return run_scenario(env, "t%03d" % i, "%s~%s@%d" % (r.start, r.op, k), INTR.sub("", r.op), crashed=(r, k))
        with concurrent.futures.ThreadPoolExecutor(12) as ex:
            runs += list(ex.map(second, list(enumerate(picks))))
    # really kill the process at sampled system calls and compare what is left with the replayer's reconstruction
    kill_ok, kill_inconclusive, kill_points = (0, 0, []) if ctx.replay else kill_confirm(env, first_level, rng, 40 if ctx.thorough else 10)
    import time
    tick = [time.time()]

    def lap(what):
        now = time.time()
        vlib.log("C07: %-40s %6.1fs" % (what, now - tick[0]))
        tick[0] = now
    lap("%d operations under strace" % len(runs))
    # interruption by an error return of the k-th mutating system call (the process lives on)
    if ctx.replay:
        want = rp.get("rejected_event", {}).get("errno")
        picks = [(r, k, want or rng.choice(ERRNOS[e["sysname"]])) for r in first_level for k, e in enumerate(r.events, 1)
                 if e["sysname"] in ERRNOS]
        nfclasses = len(picks)
    else:
        picks, nfclasses = select_faults(first_level, rng, 700 if thorough else 260)
    faults_all = fault_runs(env, picks)
    faults = [f for f in faults_all if f.hit >= 1]
    lap("%d runs with a failing system call (%d hit the layout)" % (len(faults_all), len(faults)))

    # 1. the design spec, exhaustively, against the property monitor (in a background thread, while the crash states
    # of the real code are probed: TLC and the probes do not depend on each other)
    def design_runs():
        mc, rc_, gcc, s4 = [], None, None, None
        if not ctx.replay:
            # baseline of (D) = the code since 5457c02 (MarkerMode = ifbad): must hold with crashes anywhere
            mc.append(ctx.tlc("LayoutFSMC", "C07_mc_quick.cfg", timeout=900,
                              label="baseline (marker written only when missing/unreadable): 80 scenarios, crash anywhere + retry"))
            rc_ = ctx.tlc("LayoutFSMC", "C07_mc_refcopyq.cfg", allow_violation=True, timeout=900,
                          label="image copy with referrers (counterexample expected: interrupted referrer copy not repaired)")
            mc.append(rc_)
            mc.append(ctx.tlc("LayoutFSMC", "C07_mc_follow.cfg", timeout=900,
                              label="baseline, histories: crash state of one operation, then import / copy of the image concerned"))
            mc.append(ctx.tlc("LayoutFSMC", "C07_mc_fault.cfg" if thorough else "C07_mc_faultq.cfg", timeout=1800,
                              label="baseline, interruption without death: error return of a system call / failing source reader "
                                    "(cancelled context), error path + Close, then the retry (%s)" % ("two faults" if thorough else "one fault, subset")))
            gcc = ctx.tlc("LayoutFSMC", "C07_mc_gccopy.cfg", allow_violation=True, timeout=900,
                          label="copy of an index after an interrupted sweep (counterexample expected: child with a leftover manifest file is skipped)")
            mc.append(gcc)
            # the as-found switch (MarkerMode = rewrite) with its expected counterexample: always in thorough, and in
            # quick when this tree is observed to rewrite oci-layout in place (e.g. the fix reverted)
            if thorough or mode == "rewrite":
                s4 = ctx.tlc("LayoutFSMC", "C07_mc_asfound_s4.cfg", allow_violation=True, timeout=900,
                             label="as-found switch: populated layouts, crash while oci-layout is truncated (counterexample expected: C07-1)")
                mc.append(s4)
            if thorough:
                mc.append(ctx.tlc("LayoutFSMC", "C07_mc_t2.cfg", timeout=2400,
                                  label="baseline, the retry may be killed as well (two crashes)"))
                sim = ctx.tlc("LayoutFSMC", "C07_sim_ix.cfg", timeout=1200,
                              workers=8, simulate="num=%d" % 200, depth=400, extra=["-seed", str(ctx.seed)],
                              label="baseline, copy of a two-image index, one goroutine per blob: 1600 random behaviours (BFS does not finish)")
                m = re.search(r"The number of states generated: (\d+)", sim["output"])
                if not m:
                    raise vlib.ToolError("simulation run printed no state count:\n" + sim["output"][-2000:])
                sim["generated"] = int(m.group(1))          # simulation mode has no distinct-state count
                ctx.tlc_runs[-1]["generated"] = sim["generated"]
                mc.append(sim)
                mc.append(ctx.tlc("LayoutFSMC", "C07_mc_asfound.cfg", timeout=900,
                                  label="as-found switch, crashes excluded from the truncation window: holds (the window was the only hazard)"))

        return mc, rc_, gcc, s4
    mc_pool = concurrent.futures.ThreadPoolExecutor(1)
    mc_future = mc_pool.submit(design_runs)

    # 2. crash states of the real code -> facts -> (P)
    budget = None if (thorough or ctx.replay) else 1500
    selected, nclasses = select_points(runs, rng, budget)
    probes, dirs = probe_all(env, runs, selected, faults)
    traces = [build_trace(env, r, probes, dirs, selected, faults) for r in runs]
    byid = {r.sid: r for r in runs}
    lap("probes + retries of %d crash states" % len(selected))
    viol = validate_traces(ctx, traces, "impl")
    lap("TLC validation against (P)")
    mc, rc_, gcc, s4 = mc_future.result()
    mc_pool.shutdown()
    states = sum(r["distinct"] for r in mc)
    trans = sum(r["generated"] for r in mc)
    lap("TLC on the design spec (%d runs; waited for after the probes)" % len(mc))
    rejected = set()
    sigs = {}
    for ti, ei, obls in viol:
        t = traces[ti]
        rejected.add(ti)
        for obl in obls:
            sigs.setdefault(signature(t, ei, obl), []).append((ti, ei, obl))
    known_re = [re.compile(kf["signature"]) for kf in ctx.load_known().get("findings", [])
                if kf.get("property") == "C07" and kf.get("status") == "known"]
    groups_reported = set()
    for sig in sorted(sigs, key=lambda s: sigs[s][0]):
        ti, ei, obl = sigs[sig][0]
        t, ev = traces[ti], traces[ti]["events"][ei]
        k = ev.get("k")
        r = byid[t["id"]]
        if not any(kr.fullmatch(sig) for kr in known_re):
            # one replay file per (operation kind, crash point class); every signature stays in the evidence
            group = sig.split("/")[0] + "|" + (sig.split("@", 1)[1].split(":", 1)[-1])
            if group in groups_reported or len(groups_reported) >= 8:
                continue
            groups_reported.add(group)
        where = "after the operation returned" if ev["ev"] == "end" else \
            "%s state after mutating call %d (%s %s)" % ({"sys": "crash", "fresh": "crash", "retry": "retried",
                                                          "follow": "crash + %s," % ev.get("op2", ""),
                                                          "fault": "error-path (%s returned instead of the call)" % ev.get("errno"),
                                                          "fretry": "error-path (%s) + retried" % ev.get("errno")}[ev["ev"]],
                                                         k - 1 if ev["ev"] in ("fault", "fretry") else k,
                                                         r.events[k - 1]["call"], r.events[k - 1]["path"])
        what = "%s violated %s of %s on start state %s (%d x): %s" % (
            obl, where, t["scenario"]["op"], t["scenario"]["start"], len(sigs[sig]),
            json.dumps({x: ev[x] for x in ("marker", "index", "tag_t", "tag_d", "badfiles", "dangling", "tl", "res_t",
                                           "res_d", "unres", "broken", "refs", "has", "untagged") if x in ev}))
        ctx.report(sig, what, {"scenario": t["scenario"], "header": t["header"], "rejected_event": ev,
                               "crash_point": k, "notes": r.notes.get("x%d" % k if ev["ev"] in ("fault", "fretry") else k, {}),
                               "syscalls": [[e["call"], e["path"]] for e in r.events[:(k or len(r.events))]],
                               "cmd": "tools/check C07 --replay <this file>"})
    if not_run:
        if not ctx.violations:
            raise vlib.ToolError("scenarios do not run on this tree (uninterrupted operation failed): " + "; ".join(not_run[:4]))
        vlib.log("C07: %d scenarios did not run on this tree: %s" % (len(not_run), "; ".join(not_run[:4])))
    ncrash = sum(len(r.events) for r in runs)
    cov = {
        "states": states, "transitions": trans,
        "traces_validated_against_impl": len(traces) - len(rejected),
        "traces_total": len(traces), "traces_rejected": len(rejected),
        "crash_states": ncrash, "crash_states_probed_and_retried": len(selected),
        "crash_point_classes": nclasses,
        "evaluations": sum(len(t["events"]) for t in traces),
        "follow_up_operations": sum(1 for t in traces for e in t["events"] if e["ev"] == "follow"),
        "syscall_fault_runs": len(faults_all), "syscall_fault_runs_hit": len(faults), "syscall_fault_classes": nfclasses,
        "syscall_fault_runs_outside_layout": sum(1 for f in faults_all if f.died),
        "syscall_fault_runs_read_side_skipped": sum(1 for f in faults_all if f.readside),
        "syscall_fault_errnos": sorted(set(f.errno for f in faults)),
        "interrupted_copy_scenarios": sorted(op for _, op in scenarios if INTR.search(op)),
        "distinct_nontrivial": nclasses,
        "rule": "an evaluation = one observed directory state (crash state after a prefix of the mutating system calls of "
                "one real operation, the same state read by a fresh client, the state after the operation was repeated "
                "on it, or the state at the return) judged by (P) under TLC; distinct = distinct (operation kind, call, "
                "target file class, marker state, index state) crash points",
        "exhaustive": len(selected) == ncrash,
        "marker_mode_observed": mode, "scenarios_not_run": not_run,
        "sigkill_confirmed": kill_ok, "sigkill_inconclusive": kill_inconclusive, "sigkill_points": kill_points[:10],
        "violating_states": len(viol), "violation_signature_count": len(sigs),
        "all_violation_signatures": sorted(sigs),
        "scenarios": len(scenarios), "start_states": STATES,
        "entry_points": ["regclient.BlobPut", "regclient.ManifestPut (tag, digest, child, with subject)", "regclient.TagDelete",
                         "regclient.ManifestDelete", "regclient.Close (ocidir GC)", "regclient.ImageCopy (+ImageWithReferrers)",
                         "regclient.ImageImport", "fresh client: TagList, ManifestGet, BlobGet, ReferrerList"],
    }
    if ctx.replay:
        return "model_checking", cov, []

    # 3. consistency of the design spec's counterexamples with the real code (never a verdict by itself)
    seen_s4 = any(S4_SIG.fullmatch(s) for s in sigs)
    seen_rc = any(REFCOPY_SIG.fullmatch(s) for s in sigs)
    cov["design_counterexamples"] = {
        "marker_rewrite_window": {"tlc": (s4["violated"] if s4 else None), "reproduced_on_real_code": seen_s4},
        "referrer_copy_retry": {"tlc": rc_["violated"], "reproduced_on_real_code": seen_rc},
        "copy_after_gc_crash": {"tlc": gcc["violated"], "reproduced_on_real_code": any(GCCOPY_SIG.fullmatch(s) for s in sigs)},
    }
    if s4 is not None and not s4["violated"]:
        raise vlib.ToolError("LayoutFS with MarkerMode=rewrite and crashes in the marker window satisfies the property: "
                             "the as-found switch does not contain the hazard it was kept to expose")
    # the referrer copy is part of the baseline; the marker window only concerns a tree observed to rewrite in place
    checks = [("referrer copy", rc_["violated"], seen_rc),
              ("copy after gc crash", gcc["violated"], any(GCCOPY_SIG.fullmatch(s) for s in sigs))]
    if mode == "rewrite":
        checks.append(("marker rewrite window", s4["violated"], seen_s4))
    elif seen_s4:
        checks.append(("marker rewrite window", None, seen_s4))
    for name, tl, real in checks:
        if bool(tl) != bool(real):
            vlib.log("C07: design spec and code disagree on '%s' (TLC: %s, real code: %s) - model drift, not a verdict"
                     % (name, tl, real))
            cov.setdefault("model_drift", []).append(name)

    # 4. binding of (D): the recorded call sequences are behaviours of LayoutFS
    dts = [dtrace_of(env["ab"], r) for r in first_level]
    # the two copies of a two-image index (9 goroutines) cost ~40 s each to match: thorough only, one recording each
    nbase = len(SCENARIOS)
    dts = [d for i, d in enumerate(dts)
           if not (d["header"]["kind"] in CONCURRENT and d["header"]["o"] in ("IX", "IN")) or (thorough and i < nbase)]
    dts = [d for d in dts if not any(x in byid[d["id"]].op for x in NOT_IN_D) and not INTR.search(byid[d["id"]].op)]
    done, drift = validate_dtraces(ctx, dts, "ifbad", "dtrace")
    cov["design_traces_matched"] = len(done)
    cov["design_traces_total"] = len(dts)
    cov["drift"] = len(drift)
    if drift and mode == "rewrite":
        # this tree rewrites oci-layout in place: is its drift from the baseline what the as-found switch describes?
        done2, _ = validate_dtraces(ctx, [d for d in dts if d["id"] in drift], "rewrite", "dtrace-asfound")
        cov["drift_explained_by_as_found_model"] = len(done2)
    lap("TLC validation against (D)")
    if drift:
        det = {}
        for sid, i in drift.items():
            d = next(x for x in dts if x["id"] == sid)
            det["%s %s" % (byid[sid].start, byid[sid].op)] = {"unmatched_event_index": i, "event": d["events"][min(i, len(d["events"]) - 1)]}
        cov["drift_detail"] = det
        vlib.log("C07: %d recorded call sequences are not behaviours of LayoutFS (drift, not a violation): %s"
                 % (len(drift), json.dumps(det)[:1500]))

    # 6. binding demo
    cov["binding_demos_rejected"] = binding_demo(ctx, traces, dts, done, "ifbad")
    t0 = traces[0]
    cov["samples"] = [{"id": t0["id"], "scenario": t0["scenario"], "header": t0["header"], "events": t0["events"][:6]},
                      {"id": traces[-1]["id"], "scenario": traces[-1]["scenario"], "events": traces[-1]["events"][-3:]}]
    assumptions = [
        "crash = death of the writing process (SIGKILL) between two system calls; no power loss, no page-cache loss "
        "(missing fsync is out of scope, as in the statement)",
        "a system call is atomic; with concurrent goroutines the order of completion in the strace log is taken as the order of effect",
        "ideal hash in (D); the independent checker re-hashes every digest-named file with hashlib",
        "bounds: content catalogue of 17 objects (3 images sharing a layer, a two-image index, two referrers), 8 start states, "
        "%d operation scenarios; one crash + retry (two crashes in the thorough model run)" % len(SCENARIOS),
        "the intended end state is derived from the operation's arguments by (P), not from what the code did",
    ]
    return "model_checking", cov, assumptions


# ----------------------------------------------------------------------------------------------
# binding (D) to the code: the recorded system-call sequences must be behaviours of LayoutFS
# ----------------------------------------------------------------------------------------------

def dtrace_of(ab, r):
    info = r.info
    hdr = {"start": BIG_STATES.get(r.start, r.start), "kind": {"rcopy": "copy"}.get(info["kind"], info["kind"]), "t": info["optag"], "o": info.get("dobj", info["opobj"]),
           "gc": 1 if "+gc" in r.op else 0}
    evs = []
    for e in r.events:
        obj = ""
        m = re.fullmatch(r"blobs/([a-z0-9]+)/([0-9a-f]{64,})", e["path"])
        if m:
            obj = ab.nm(m.group(1) + ":" + m.group(2))
        evs.append({"ev": "dsys", "call": e["call"], "cls": e["cls"], "obj": obj})
    evs.append({"ev": "dend"})
    return {"id": r.sid, "header": hdr, "events": evs}


def marker_mode(runs):
    """How does this tree write oci-layout? 'ifbad': never rewritten while it is valid (the code since
    5457c02, baseline of (D)); 'rewrite': truncating open of an existing marker (as found before)."""
    for r in runs:
        for e in r.events:
            if e["call"] == "openat_trunc" and e["cls"] == "marker":
                return "rewrite"
    return "ifbad"


def validate_dtraces(ctx, dtraces, mode, label):
    """-> (matched ids, drift: id -> index of the first event that (D) cannot match)"""
    fn = ctx.path("traces", "%s.ndjson" % label)
    starts = {}
    n = 0
    with open(fn, "w") as f:
        for t in dtraces:
            n += 1
            starts[n] = t
            hdr = {"ev": "reset", "trace": str(t["id"])}
            hdr.update(t["header"])
            f.write(json.dumps(hdr, sort_keys=True) + "\n")
            for ev in t["events"]:
                n += 1
                f.write(json.dumps(ev, sort_keys=True) + "\n")
    res = ctx.tlc("LayoutFSDTrace", "C07_dtrace.cfg" if mode == "ifbad" else "C07_dtrace_asfound.cfg", workers=1,
                  timeout=1500, record=False,
                  env={"VERIF_TRACE": fn, "JAVA_TOOL_OPTIONS": "-Xss64m"})
    out = res["output"]
    done = set(re.findall(r'<<"DONE", "([^"]*)">>', out))
    hw = {}
    m = re.search(r'<<\s*"HIGHWATER",(.*?)>>\s*\n', out, re.S)
    if m:
        for a, b in re.findall(r"(\d+) :> (\d+)", m.group(1)):
            hw[int(a)] = int(b)
        if not hw:      # a single trace prints as a sequence
            for i, b in enumerate(re.findall(r"\d+", m.group(1))):
                hw[sorted(starts)[i]] = int(b)
    drift = {}
    for line, t in starts.items():
        if str(t["id"]) not in done:
            reached = hw.get(line, line + 1)
            drift[t["id"]] = max(0, reached - line - 1)
    ctx.cov["dtrace_states"] = ctx.cov.get("dtrace_states", 0) + res["distinct"]
    return done, drift

"""X04 - resolution of the effective per-registry host configuration (extra area).

(D) spec/HostConf.tla transcribes config.Host.Merge, HostNewDefName, parseName, the docker
config conversion, regclient.New's option handling (hostLoad / hostSet), reg.hostGet and the
TLS part of reghttp.getHost; TLC checks it against the monitor (P) spec/HostConfProp.tla
(HostConfMC / HostConfGen).  TLC generated scenarios (every Merge transition of the field groups,
every HostNewDefName call, JSON round trips, option sequences, TLS set-ups) are executed on the
real code by harness/cmd/x04drv; every recorded trace is validated by TLC against (P) through
spec/HostConfTrace.tla.  A verdict comes only from a real trace rejected by (P).
"""
import concurrent.futures
import copy
import json
import os
import random
import re
import time

import vlib

ALL_FIX = ["mergeToken", "hubDefault", "hubHostname", "legacyAlias", "cloneTransport"]
# repaired behaviours present in the tree under test ((D) mirrors the code: Fix = PRESENT);
# add a name here when the corresponding findings/X04-*.patch has been committed to /repo
#   mergeToken      /repo 8cb3b1d (finding X04-1)
#   cloneTransport  /repo 2d99b41 (finding X04-2)
PRESENT = {"mergeToken", "cloneTransport"}
if os.environ.get("X04_FIX_PRESENT"):          # e.g. when checking a tree with some patches applied
    PRESENT = {x for x in os.environ["X04_FIX_PRESENT"].split(",") if x in ALL_FIX}

MIRROR_STRINGS = {"", "m1.test", "r2.test", "m1.test,r2.test", "r2.test,m1.test", "u.test", "docker.io"}
HUB = {"docker.io", "registry-1.docker.io", "https://index.docker.io/v1/", "index.docker.io"}
OBS = ("req", "done", "tls", "merge", "newname", "json")
REJ_RE = re.compile(r'<<\s*"REJ",\s*"([^"]*)",\s*(\d+),\s*"([^"]*)"\s*>>')


def fixset(names):
    return "{" + ", ".join('"%s"' % n for n in ALL_FIX if n in names) + "}"


def cfgv(ctx, base, fix, tag, **over):
    """A variant of spec/<base> in the scratch copy of spec/: Fix and other constants replaced."""
    d = ctx._specdir()
    with open(os.path.join(d, base)) as f:
        txt = f.read()
    over = dict(over)
    over["Fix"] = fixset(fix)
    for k, v in over.items():
        txt, n = re.subn(r"(?m)^ %s = .*$" % re.escape(k), " %s = %s" % (k, v), txt)
        if n != 1:
            raise vlib.ToolError("cfg %s has no constant %s" % (base, k))
    name = "%s__%s.cfg" % (base[:-4], tag)
    with open(os.path.join(d, name), "w") as f:
        f.write(txt)
    return name


def rn(name):
    """registry a written name denotes (mirrors RN of HostConfProp; used for signatures only)"""
    if name in HUB:
        return "docker.io"
    for p in ("http://", "https://"):
        if name.startswith(p):
            name = name[len(p):].rstrip("/")
    return "" if "/" in name or name == "" else name


def slug(s):
    return re.sub(r"[^a-z0-9]+", "-", s.lower()).strip("-")[:70]


def load_known_extra(ctx):
    """known.d/X04.json is merged into KNOWN_FINDINGS.json by tools/mkmanifest; until that has
    been run the fragment is read directly (same semantics: status known suppresses)."""
    orig = ctx.load_known

    def merged():
        k = orig()
        try:
            with open(os.path.join(vlib.VERIF, "known.d", "X04.json")) as f:
                frag = json.load(f)
        except (OSError, ValueError):
            frag = []
        have = {x.get("id") for x in k.get("findings", [])}
        k = {"findings": list(k.get("findings", [])) + [x for x in frag if x.get("id") not in have]}
        return k
    ctx.load_known = merged


# ------------------------------------------------------------------ signatures
def merge_cause(ev):
    b, n = ev["b"], ev["n"]
    if n["helper"] == "" and n["pass"] == "" and (b["token"] != "") != (n["token"] != ""):
        return "host-token-tested"
    return "other"


def resolve_cause(events, ei, detail):
    """name the configuration pattern that precedes a rejected observation (signature only)"""
    ev = events[ei]
    T = rn(ev["r"])
    addr = ev["o"]["addr"] if ev["ev"] == "req" else ""
    hosts = [e["e"] for e in events[:ei] if e["ev"] in ("host", "file")]
    dents = [e for e in events[:ei] if e["ev"] == "dentry"]
    defaults = [e["d"] for e in events[:ei] if e["ev"] == "default"]
    # the registry the observation is about: a mirror named by an entry of T, else T itself
    mirrors = set()
    for h in hosts:
        if rn(h["name"]) == T:
            mirrors |= set(x for x in h["mirrors"].split(",") if x)
    Tq = addr if addr in mirrors else T
    mine = [h for h in hosts if rn(h["name"]) == Tq]
    mined = [e for e in dents if rn(e["key"]) == Tq]
    # all entries for Tq in the order given (WithConfigHost entries and docker config entries)
    ents = [e["e"] if e["ev"] in ("host", "file") else e for e in events[:ei]
            if (e["ev"] in ("host", "file") and rn(e["e"]["name"]) == Tq) or (e["ev"] == "dentry" and rn(e["key"]) == Tq)]
    if Tq == "docker.io" and any(h["name"] == "index.docker.io" for h in hosts):
        return "legacy-alias"
    if Tq == "docker.io" and detail.startswith(("addr:", "mirrors:")):
        gave = [i for i, h in enumerate(mine) if h["hostname"] not in ("", "docker.io", "https://index.docker.io/v1/")]
        if gave and any(h["hostname"] == "" for h in mine[gave[0] + 1:]) and \
                (ev["ev"] == "done" or addr == "registry-1.docker.io"):
            return "hub-hostname-reset"
    if Tq == "docker.io" and defaults and not mine and not mined and ev["ev"] == "req":
        # what was observed is the built-in default although a host default was given
        if detail.startswith("cred:") and not (ev["o"]["user"] or ev["o"]["token"] or ev["o"]["hasked"]):
            return "hub-without-default"
        if detail.startswith("tls: TLS request") and ev["o"]["scheme"] == "https" and \
                any(d["tls"] == "disabled" for d in defaults):
            return "hub-without-default"
    if detail.startswith("cred: explicit credentials are shadowed") and ev["ev"] == "req":
        asked = ev["o"]["hasked"]
        hs = [i for i, h in enumerate(ents) if h["helper"] == asked]
        early = bool(hs) or any(d["helper"] == asked for d in defaults)
        first = hs[0] if hs else -1
        if early and any(h["token"] != "" and h["pass"] == "" and h["helper"] == "" for h in ents[first + 1:]):
            return "token-after-helper"
    return "other"


def signature(t, ei, detail):
    ev = t["events"][ei]
    fam = t["scenario"]["fam"]
    if ev["ev"] == "merge":
        return "x04:merge:%s:%s" % (slug(detail), merge_cause(ev))
    if ev["ev"] == "newname":
        return "x04:newname:%s:%s" % (slug(detail), "legacy-alias" if ev["n"] == "index.docker.io" else "other")
    if ev["ev"] == "json":
        return "x04:json:%s" % slug(detail)
    if ev["ev"] == "tls":
        return "x04:tls:%s:%s-transport" % (slug(detail), t["scenario"].get("tmode", "?"))
    return "x04:%s:%s:%s" % (fam, slug(detail), resolve_cause(t["events"], ei, detail))


# ------------------------------------------------------------------ validation
def validate_all(ctx, traces):
    """One TLC pass over all traces with the report-and-continue trace spec (TSpecAll)."""
    if not traces:
        return set(), []
    ctx._vround = getattr(ctx, "_vround", 0) + 1
    fn = ctx.path("traces", "HostConfTrace-all-%d.ndjson" % ctx._vround)
    index = {}
    n = 0
    with open(fn, "w") as f:
        for t in traces:
            f.write(json.dumps({"ev": "reset", "trace": str(t["id"])}, sort_keys=True) + "\n")
            n += 1
            for ei, ev in enumerate(t["events"]):
                f.write(json.dumps(ev, sort_keys=True) + "\n")
                n += 1
                index[n] = (t, ei)
    r = ctx.validate("HostConfTrace", "X04_trace_all.cfg", fn, timeout=3000)
    if not r["accepted"]:
        raise vlib.ToolError("trace validation (report-and-continue) stopped at line %s: %s\n%s"
                             % (r.get("line"), r.get("reason"), r["output"][-3000:]))
    ctx.cov["trace_states"] = ctx.cov.get("trace_states", 0) + r["distinct"]
    reports, bad_ids = [], set()
    for m in REJ_RE.finditer(r["output"]):
        line = int(m.group(2))
        if line not in index:
            raise vlib.ToolError("REJ line %d does not name an event" % line)
        t, ei = index[line]
        if str(t["id"]) != m.group(1):
            raise vlib.ToolError("REJ line %d: trace %s expected %s" % (line, m.group(1), t["id"]))
        bad_ids.add(t["id"])
        reports.append({"trace": t, "line": ei, "event": t["events"][ei], "detail": m.group(3)})
    return {t["id"] for t in traces if t["id"] not in bad_ids}, reports


def standard(ctx, name, events):
    """One trace on the standard path (TSpec + INVARIANT Ok): returns None when accepted, else
    (index of the rejected event, obligation).  Same as vlib.validate_batch for a single trace,
    but safe to run from several threads."""
    fn = ctx.path("traces", "HostConfTrace-%s.ndjson" % name)
    with open(fn, "w") as f:
        f.write(json.dumps({"ev": "reset", "trace": name}, sort_keys=True) + "\n")
        for ev in events:
            f.write(json.dumps(ev, sort_keys=True) + "\n")
    # a single trace: a small heap is enough (several of these run side by side)
    r = ctx.validate("HostConfTrace", "X04_trace.cfg", fn, timeout=1200,
                     env={"JAVA_TOOL_OPTIONS": "-Dtlc2.tool.queue.IStateQueue=StateDeque -Xss64m -Xmx1g"})
    if r["accepted"]:
        return None
    if r["line"] is None or r["line"] < 2:
        raise vlib.ToolError("cannot locate the rejected event of %s:\n%s" % (name, r["output"][-3000:]))
    return r["line"] - 2, (r.get("detail") or r["reason"]).strip('"')


def confirm(ctx, rep, earlier):
    """Re-validate one rejected trace on the standard path: without the observations rejected
    earlier in the same trace it must be rejected at the same event for the same obligation."""
    t = rep["trace"]
    drop = {e["line"] for e in earlier}
    keep = [i for i in range(len(t["events"])) if i not in drop]
    rj = standard(ctx, "confirm-%s-%d" % (t["id"], rep["line"]), [t["events"][i] for i in keep])
    if rj is None or keep[rj[0]] != rep["line"] or rj[1] != rep["detail"]:
        raise vlib.ToolError("rejection of %s at event %d (%s) not confirmed on the standard path: %s"
                             % (t["id"], rep["line"], rep["detail"], rj))


# ----------------------------------------------------------------------- drift
def proj(o):
    p = {k: o[k] for k in ("addr", "scheme", "prefix", "hasked", "hserver")}
    if o["hasked"] == "":
        p.update({k: o[k] for k in ("user", "pass", "token")})
    return json.dumps(p, sort_keys=True)


def drift_of(s, t):
    """does the real code differ from what (D) predicted for this scenario? (evidence only)"""
    evs = t["events"]
    fam = s["fam"]
    if fam == "merge":
        return evs[0]["a"] != s["d"]
    if fam == "newname":
        return evs[0]["r"] != s["p"]
    if fam == "json":
        return False
    if fam == "tls":
        return [e["o"] for e in evs if e["ev"] == "tls"] != s["pred"]
    # resolve / regctl: the observations after the last source against the predicted alternatives
    last = max([i for i, e in enumerate(evs) if e["ev"] in ("host", "default", "dentry", "file")] or [-1])
    tail = evs[last + 1:]
    for p in s["pred"]:
        got = sorted(proj(e["o"]) for e in tail if e["ev"] == "req" and e["kind"] == p["kind"] and e["r"] == p["r"])
        alts = [sorted(proj(o) for o in alt) for alt in p["alts"]]
        if got not in alts:
            return True
    return False


# ------------------------------------------------------------------------ run
def run_scenarios(ctx, scns, tag):
    scn_file = ctx.path("x04", "scn-%s.jsonl" % tag)
    with open(scn_file, "w") as f:
        for s in scns:
            f.write(json.dumps(s) + "\n")
    out = ctx.path("x04", "traces-%s.jsonl" % tag)
    scratch = ctx.path("x04", "drv-%s" % tag, "x")
    ctx.run(["x04drv", "-in", scn_file, "-out", out, "-scratch", os.path.dirname(scratch),
             "-regctl", os.path.join(ctx.bin, "regctl")], timeout=2400)
    by_id = {s["id"]: s for s in scns}
    traces = []
    with open(out) as f:
        for line in f:
            if line.strip():
                t = json.loads(line)
                traces.append({"id": t["id"], "events": t["events"], "meta": t.get("meta", {}),
                               "scenario": by_id[t["id"]]})
    if len(traces) != len(scns):
        raise vlib.ToolError("driver wrote %d traces for %d scenarios" % (len(traces), len(scns)))
    for t in traces:
        m = t["meta"]
        if "inconsistent" in m or "tls_error" in m or "merge_err" in m:
            raise vlib.ToolError("driver could not observe scenario %s: %s" % (t["id"], m))
        for e in t["events"]:
            for rec in (e.get("e"), e.get("d"), e.get("b"), e.get("n")):     # what was given, not the results
                if isinstance(rec, dict) and rec.get("mirrors", "") not in MIRROR_STRINGS:
                    raise vlib.ToolError("mirror list %r outside the universe of the specs (trace %s)"
                                         % (rec.get("mirrors"), t["id"]))
    return traces


def judge(ctx, traces):
    """validate, confirm one representative per signature, report; returns (accepted ids, reports)"""
    ok_ids, reports = validate_all(ctx, traces)
    by_sig = {}
    for i, r in enumerate(reports):
        r["sig"] = signature(r["trace"], r["line"], r["detail"])
        by_sig.setdefault(r["sig"], []).append(r)
    with concurrent.futures.ThreadPoolExecutor(max_workers=3) as ex:
        futs = []
        for sig, reps in sorted(by_sig.items()):
            rep = reps[0]
            earlier = [x for x in reports if x["trace"]["id"] == rep["trace"]["id"] and x["line"] < rep["line"]]
            futs.append(ex.submit(confirm, ctx, rep, earlier))
        for f in futs:
            f.result()
    for sig, reps in sorted(by_sig.items()):
        rep = reps[0]
        t = rep["trace"]
        what = "%s (%d traces; first: event %d of %s: %s)" % (
            rep["detail"], len({x["trace"]["id"] for x in reps}), rep["line"], t["id"],
            json.dumps(rep["event"], sort_keys=True)[:600])
        for _ in reps:
            ctx.report(sig, what, {"scenario": t["scenario"], "events": t["events"], "rejected_at": rep["line"],
                                   "obligation": rep["detail"], "cmd": "tools/check X04 --replay <this file>"})
    return ok_ids, reports


def binding_demo(ctx, traces, ok_ids):
    """an accepted trace with one corrupted field / one dropped source must be rejected"""
    def first(pred):
        for t in traces:
            if t["id"] in ok_ids and pred(t):
                return copy.deepcopy(t)
        return None
    demos = []
    t = first(lambda t: t["scenario"]["fam"] == "merge" and t["events"][0]["n"]["user"] != "")
    if t:
        t["events"][0]["a"]["user"] = "zz"
        demos.append(("demo-merge-explicit-field-lost", t))
    t = first(lambda t: t["scenario"]["fam"] == "merge" and t["events"][0]["n"]["tls"] == "" and
              t["events"][0]["b"]["tls"] in ("enabled", "insecure"))
    if t:
        t["events"][0]["a"]["tls"] = "disabled"
        demos.append(("demo-merge-tls-weakened", t))
    t = first(lambda t: t["scenario"]["fam"] == "resolve" and
              any(e["ev"] == "req" and e["o"]["scheme"] == "https" for e in t["events"]))
    if t:
        e = next(e for e in t["events"] if e["ev"] == "req" and e["o"]["scheme"] == "https")
        e["o"]["scheme"] = "http"
        demos.append(("demo-resolve-clear-text", t))
    t = first(lambda t: t["scenario"]["fam"] == "resolve" and
              any(e["ev"] == "req" and e["o"]["user"] == "u1" for e in t["events"]))
    if t:
        e = next(e for e in t["events"] if e["ev"] == "req" and e["o"]["user"] == "u1")
        e["o"]["addr"] = "u.test" if e["o"]["addr"] != "u.test" else "r2.test"
        demos.append(("demo-resolve-credentials-to-other-address", t))
    t = first(lambda t: t["scenario"]["fam"] == "resolve" and
              any(e["ev"] == "req" and e["o"]["user"] == "u1" for e in t["events"]) and
              sum(1 for e in t["events"] if e["ev"] in ("host", "dentry") and e.get("e", e).get("user") == "u1") == 1)
    if t:
        i = next(i for i, e in enumerate(t["events"]) if e["ev"] in ("host", "dentry") and e.get("e", e).get("user") == "u1")
        del t["events"][i]
        demos.append(("demo-resolve-source-dropped", t))
    t = first(lambda t: t["scenario"]["fam"] == "tls" and any(e["ev"] == "tls" and e["o"]["conn"] == "tls-verify-fail" for e in t["events"]))
    if t:
        e = next(e for e in t["events"] if e["ev"] == "tls" and e["o"]["conn"] == "tls-verify-fail")
        e["o"]["conn"] = "tls-ok"
        demos.append(("demo-tls-unverified", t))
    t = first(lambda t: t["scenario"]["fam"] == "json" and t["events"][0]["h"]["tls"] != "")
    if t:
        t["events"][0]["h2"]["tls"] = ""
        demos.append(("demo-json-field-lost", t))
    if len(demos) < 5:
        raise vlib.ToolError("only %d binding demos could be built from the accepted traces" % len(demos))
    with concurrent.futures.ThreadPoolExecutor(max_workers=3) as ex:
        res = list(ex.map(lambda d: standard(ctx, d[0], d[1]["events"]), demos))
    for (name, t), rj in zip(demos, res):
        if rj is None:
            raise vlib.ToolError("binding demo %s was accepted: the trace spec does not bind" % name)
    return ["%s: %s" % (d[0], rj[1]) for d, rj in zip(demos, res)]


def replay(ctx):
    with open(ctx.replay) as f:
        rp = json.load(f)
    s = rp["replay"]["scenario"]
    ctx.build("x04drv")
    ctx.build_repo_cmd("./cmd/regctl", "regctl")
    traces = run_scenarios(ctx, [s], "replay")
    ok_ids, reports = judge(ctx, traces)
    cov = {"replayed": s["id"], "rejected": len(reports), "states": 0, "transitions": 0,
           "traces_validated_against_impl": len(ok_ids), "samples": [traces[0]["events"][:10]]}
    return "model_checking", cov, ["replay of one recorded scenario"]


def run(ctx):
    load_known_extra(ctx)
    if ctx.replay:
        return replay(ctx)
    ctx.build("x04drv")
    ctx.build_repo_cmd("./cmd/regctl", "regctl")
    rng = random.Random(ctx.seed)
    thorough = ctx.thorough
    missing = [f for f in ALL_FIX if f not in PRESENT]
    pool = concurrent.futures.ThreadPoolExecutor(max_workers=3)

    # ---- 1. model checking: (D) against (P)
    # values per field: new entry 3; existing entry 2 (quick) / 3 (thorough)
    mvb = "3" if thorough else "2"
    jobs = []   # (future, label, expect_violation)

    def mc(base, fix, tag, label, expect=False, **over):
        kw = dict(workers=4, label=label, allow_violation=expect, timeout=3000, heap="2g")
        cfg = cfgv(ctx, base, fix, tag, **over)
        jobs.append((pool.submit(ctx.tlc, "HostConfGen", cfg, **kw), label, expect))

    groups = ["cred", "conn", "mirror", "num", "cert", "misc", "credtls"]
    for g in groups:
        over = {} if g == "credtls" else {"MVals": "3", "MValsB": mvb}
        mc("X04_mc_merge_%s.cfg" % g, ALL_FIX, "all", "Merge x (P), group %s, repaired" % g, **over)
    mc("X04_mc_newname.cfg", ALL_FIX, "all", "HostNewDefName x (P), repaired")
    mc("X04_mc_tls.cfg", ALL_FIX, "all", "getHost TLS x (P), repaired")
    mc("X04_mc_regctl.cfg", ALL_FIX, "all", "regctl config layer x (P), repaired")
    mc("X04_mc_res_quick.cfg", ALL_FIX, "all", "sources x (P), 2 sources, repaired")
    if thorough:
        mc("X04_mc_res_t.cfg", ALL_FIX, "all", "sources x (P), 3 sources, repaired")
        mc("X04_mc_res_t2.cfg", ALL_FIX, "all", "sources x (P), 2 sources wide, repaired")
    # every repair switched off again must show as a counterexample of (D) against (P): the as-found
    # behaviour stays in the spec as a switch, also for the repairs that are in the tree by now
    mc("X04_mc_merge_asfound.cfg", [x for x in ALL_FIX if x != "mergeToken"], "no-mergeToken",
       "Merge x (P) without repair mergeToken (expected counterexample)", expect=True)
    mc("X04_mc_tls_asfound.cfg", [x for x in ALL_FIX if x != "cloneTransport"], "no-cloneTransport",
       "getHost TLS x (P) without repair cloneTransport (expected counterexample)", expect=True)
    for f in ALL_FIX:
        if f != "cloneTransport":
            mc("X04_mc_res_quick.cfg", [x for x in ALL_FIX if x != f], "no-" + f,
               "sources x (P) without repair %s (expected counterexample)" % f, expect=True)
    if missing:
        mc("X04_mc_res_quick.cfg", PRESENT, "tree", "sources x (P), (D) as the tree is (expected counterexample)", expect=True)

    # ---- 2. scenarios from TLC ((D) as the tree under test is: Fix = PRESENT)
    gens = []

    def gen(base, tag, label, **kw):
        over = kw.pop("over", {})
        cfg = cfgv(ctx, base, PRESENT, tag, **over)
        gens.append((pool.submit(ctx.tlc_scenarios, "HostConfGen", cfg, workers=1, label="generator " + label,
                                 timeout=3000, heap="2g", **kw), label))

    for g in groups:
        over = {} if g == "credtls" else {"MVals": "3", "MValsB": mvb}
        gen("X04_gen_merge_%s.cfg" % g, "gen", "merge-" + g, over=over)
    gen("X04_gen_newname.cfg", "gen", "newname")
    jg = '{"tls", "user", "token", "helper", "expire", "mirrors", "prio", "repoauth", "ao1", "bmax", "rps", "api", "scheme", "name"}' \
        if thorough else '{"tls", "user", "expire", "mirrors", "repoauth", "ao1", "rps", "api", "name"}'
    gen("X04_gen_json.cfg", "gen", "json", over={"MGroup": jg})
    gen("X04_gen_tls_t.cfg" if thorough else "X04_gen_tls.cfg", "gen", "tls")
    gen("X04_gen_regctl.cfg", "gen", "regctl")
    sim = dict(depth=8, extra=["-seed", str(ctx.seed)])
    gen("X04_gen_res.cfg", "gen", "resolve", simulate="num=%d" % (2500 if thorough else 260), **sim)
    gen("X04_gen_res_alias.cfg", "gen", "resolve-alias", simulate="num=%d" % (150 if thorough else 24), **sim)
    if thorough:
        gen("X04_gen_res_wide.cfg", "gen", "resolve-wide", simulate="num=600", **sim)

    t0 = time.time()
    mc_runs = []
    for fut, label, expect in jobs:
        r = fut.result()
        if expect and not r["violated"]:
            raise vlib.ToolError("%s: (D) as found satisfies (P); the model no longer shows the defect" % label)
        mc_runs.append(r)
    scns, per_gen = [], {}
    for fut, label in gens:
        g = fut.result()
        per_gen[label] = len(g["scenarios"])
        if not g["scenarios"]:
            raise vlib.ToolError("generator %s produced no scenario" % label)
        if label == "regctl":
            # one process of the real binary per probe: a seeded sample of the enumerated set-ups
            g["scenarios"] = vlib.sample(rng, g["scenarios"], 1000 if thorough else 45)
            per_gen["regctl-sampled"] = len(g["scenarios"])
        for i, s in enumerate(g["scenarios"]):
            s["id"] = "%s-%d" % (label, i)
            if s["fam"] in ("resolve", "regctl"):
                s["probelist"] = [{"kind": p["kind"], "r": p["r"]} for p in s["pred"]]
            scns.append(s)
    pool.shutdown()
    clean = [r for (f, l, e), r in zip(jobs, mc_runs) if not e]
    states = sum(r["distinct"] for r in clean)
    trans = sum(r["generated"] for r in clean)

    # ---- 3. the real code, 4. trace validation
    vlib.log("X04: TLC model checking and generators done after %.0fs" % (time.time() - t0))
    traces = run_scenarios(ctx, scns, "main")
    vlib.log("X04: driver done after %.0fs" % (time.time() - t0))
    ok_ids, reports = judge(ctx, traces)
    vlib.log("X04: validation done after %.0fs" % (time.time() - t0))
    drift = {}
    for t in traces:
        if drift_of(t["scenario"], t):
            fam = t["scenario"]["fam"]
            drift[fam] = drift.get(fam, 0) + 1
            drift.setdefault("first_" + fam, t["id"])

    # ---- 5. binding demo
    demos = binding_demo(ctx, traces, ok_ids) if not ctx.violations else []

    fams = {}
    kinds = {"host": 0, "default": 0, "dentry": 0, "file": 0, "req": 0, "tls": 0, "merge": 0, "newname": 0, "json": 0}
    for t in traces:
        fams[t["scenario"]["fam"]] = fams.get(t["scenario"]["fam"], 0) + 1
        for e in t["events"]:
            if e["ev"] in kinds:
                kinds[e["ev"]] += 1
    never = [k for k, v in kinds.items() if v == 0]
    if never:
        raise vlib.ToolError("no trace exercised: %s" % never)
    sample = []
    for fam in ("merge", "resolve", "regctl", "tls"):
        t = next((t for t in traces if t["scenario"]["fam"] == fam and t["id"] in ok_ids), None)
        if t:
            sample.append({"id": t["id"], "events": t["events"][:6]})
    rej_by_obl = {}
    for r in reports:
        rej_by_obl[r["sig"]] = rej_by_obl.get(r["sig"], 0) + 1
    cov = {
        "states": states, "transitions": trans,
        "traces_validated_against_impl": len(ok_ids),
        "evaluations": len(traces), "scenarios_per_generator": per_gen, "traces_per_family": fams,
        "events_per_kind": kinds,
        "merge_transitions_executed": fams.get("merge", 0),
        "rejected_observations": len(reports), "rejected_by_signature": rej_by_obl,
        "model_drift": drift,
        "asfound_counterexamples": [r["label"] + ": " + str(r["violated"]) for (f, l, e), r in zip(jobs, mc_runs) if e],
        "binding_demos_rejected": demos,
        "samples": sample,
        "rule": "a trace = one TLC generated scenario executed on the real code (one Merge / HostNewDefName / "
                "JSON call, or an option sequence with pings and manifest heads after every option, or a TLS "
                "set-up with three pings); all are non trivial by construction of the universes",
        "exhaustive": False,
        "repairs_assumed_present": sorted(PRESENT),
        "entry_points": ["config.Host.Merge", "config.HostNewDefName", "config.HostNewName", "config.Host JSON",
                         "config.DockerLoadFile (via WithDockerCredsFile)", "regclient.New", "regclient.WithConfigHost",
                         "regclient.WithConfigHostDefault", "regclient.WithDockerCredsFile", "RegClient.Ping",
                         "RegClient.ManifestHead", "reg.WithTransport", "config.Host.GetCred (credential helper exec)",
                         "cmd/regctl (binary): config file + docker config + --host flags, manifest head"],
    }
    assumptions = [
        "finite universes: 5 registries plus the Docker Hub aliases, <= 4 sources, 2-4 values per field",
        "string functions of the code (parseName, Trim) are tables over the name universe",
        "TLC, the model registry simreg (as token service too), Go's crypto/tls for the handshakes are trusted",
        "regctl family: the binary talks to a proxy on 127.0.0.1 that terminates TLS with a CA given through "
        "SSL_CERT_FILE, so verified and insecure TLS are not told apart there (they are in the tls family)",
        "the order of the entries of one docker config.json (random in the code) is not varied: generated "
        "files never hold two entries for one registry",
    ]
    if drift:
        vlib.log("X04: design-spec drift (not a violation): %s" % drift)
    return "model_checking", cov, assumptions

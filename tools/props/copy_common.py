"""Shared engine of C03 / C04 / C14 (image copy: complete, ordered, minimal).

(D) spec/ImageCopy.tla (+ImageCopyMC / ImageCopyGen) is model checked by TLC and generates request
schedules with fault / cancel / death positions; harness/cmd/copydrv imposes them (and seeded
random / arrival-order / ungated schedules over the whole graph catalogue, every pairing, option
set and pre-existing target state) on the real regclient.ImageCopy through the gates of the model
registries; every recorded trace is validated by TLC against (P) spec/CopyProp.tla through
spec/CopyTrace.tla.  The three checks differ in the obligations that are latched (constant Groups)
and in where the scenario budget goes.
"""
import copy
import itertools
import json
import os
import random

import vlib

PAIRS = ["tworeg", "samereg", "samerepo", "reg2dir", "dir2reg", "dir2dir"]
REG_TARGET = ["tworeg", "samereg", "samerepo", "dir2reg"]
INDEX_SHAPES = ["idx2", "nested", "docker", "artidx", "bentry", "sha512", "dupentry", "diamond", "sigloop"]
LOOP_SHAPES = ["sigloop"]     # graphs with a loop that runs through an index entry (deferred to finalFn by the code)
REF_SHAPES = ["art", "artidx", "artshare", "sha512"]
DTAG_SHAPES = ["dtag", "loop", "art", "sigloop"]
AT_SBOM = "application/vnd.zzverif.sbom.v1"
AT_SIG = "application/vnd.zzverif.sig.v1"

# fault kinds: how the client sees them (see internal/reghttp): 503/404/401/403 end the request,
# 429/500/reset/trunc are retried, resetall = the connection fails on every attempt
FATAL = ["503", "404", "401", "resetall"]
TRANSIENT = ["429", "500", "reset", "trunc"]
RETRYABLE = ["429", "500", "reset"]     # absorbed by reghttp on every request class when fewer than the retry limit
RETRYABLE_ALL = RETRYABLE + ["502", "504", "408"]     # every status reghttp backs off on and retries
# round 5: what the same client did before the observed copy (its caches / feature memos carry over)
WARM_PRIORS = [("reflist", AT_SBOM), ("reflist", AT_SIG), ("reflist", ""), ("taglist", ""), ("head", "")]


def load_jsonl(fn):
    out = []
    with open(fn) as f:
        for line in f:
            if line.strip():
                out.append(json.loads(line))
    return out


class Engine:
    def __init__(self, ctx, pid):
        self.ctx = ctx
        self.pid = pid
        self.rng = random.Random(ctx.seed * 7919 + {"C03": 3, "C04": 4, "C14": 14}[pid])
        self.n = 0
        self.cat = None
        self.batch = 0
        self.stalls = []
        self.prior_hangs = []

    # ------------------------------------------------------------------ plumbing
    def setup(self):
        self.ctx.build("copydrv")
        r = self.ctx.run(["copydrv", "-mode", "catalogue"], timeout=60)
        self.cat = {s["name"]: s for s in json.loads(r.stdout)}
        # shapes for the general scenario families ("big" = demo of findings/C04-1, "xref" = the graph on
        # which ImageCopy with referrers dead-locks, findings/C03-obs-2: both only in dedicated scenarios)
        self.shapes = [n for n in self.cat if n not in ("big", "xref")]
        return self.cat

    def names(self, shape):
        return [n["name"] for n in self.cat[shape]["nodes"]]

    def closure(self, shape):
        return list(self.cat[shape]["closure"])

    def scn(self, shape, pair, origin, **kw):
        self.n += 1
        s = {"id": "%s-%d" % (origin, self.n), "shape": shape, "pair": pair, "mount": 1, "headdigest": 1,
             "refapi_src": 1, "refapi_tgt": 1, "extup": 0, "cancel202": self.rng.choice([0, 1]), "opts": {}, "init": [],
             "tag0": "none",
             "conc": 16, "mode": "random", "seed": self.rng.randrange(1 << 30), "origin": origin,
             # environment dimensions, drawn per scenario (pairwise coverage with everything else comes from the
             # number of scenarios): progress callback, manifest / referrer cache of the reg scheme, chunked
             # uploads (blobs above 128 bytes in 96 byte chunks), paged tag / referrer listings
             "callback": self.rng.choice([0, 1]), "cache": self.rng.choice([0, 0, 1]),
             "chunked": self.rng.choice([0, 0, 1]), "pagesize": self.rng.choice([0, 0, 1, 2])}
        # what the same client did before (caches and feature memos carry over), for registry targets; the order
        # in which registries list tags / referrers
        if pair in ("tworeg", "samereg", "dir2reg"):
            s["prior"] = self.rng.choice(["", "", "copy", "get"])
            if s["prior"] and self.rng.random() < 0.7:
                s["cache"] = 1
        # (round 5) earlier listings / HEADs by the same client: artifact list [--filter-artifact-type], tag ls,
        # manifest head; a repeat of the same copy (by this client or by another one) onto what the first left
        if pair in ("tworeg", "samereg", "reg2dir") and not s.get("prior") and self.rng.random() < 0.2:
            s["prior"], s["prior_arg"] = self.rng.choice(WARM_PRIORS)
            s["cache"] = self.rng.choice([1, 1, 0])
        if pair != "samerepo" and not s.get("prior") and self.rng.random() < 0.1:
            s.update(prior=self.rng.choice(["recopy", "recopy-other"]), wipe="", cache=self.rng.choice([0, 1]))
        s["listorder"] = self.rng.choice(["", "", "rev", "ins", "rand"])
        # host configuration: an (empty) mirror named for the target / source registry; a source that has the
        # referrers API and left-over sha256-<hex> tags (only with a target that has the API: otherwise the client's
        # own fall-back listing and the copied tag compete for the same name)
        s["mirror"] = self.rng.choice(["", "", "", "tgt", "src", "both"])
        if self.rng.random() < 0.25:
            s["leftover"] = 1
        # a client that made the same copy before, after which content vanished from the target (cache off: a
        # cached client trusts its cache by design)
        if pair != "samerepo" and self.rng.random() < 0.12:
            s.update(prior="recopy", wipe=self.rng.choice(["all", "blobs"]), cache=0)
        s.update(kw)
        if s.get("leftover") and not (s.get("refapi_src") and s.get("refapi_tgt")):
            s["leftover"] = 0
        if s.get("prior") == "recopy" and s.get("wipe"):
            s["cache"] = 0
        if s["mode"] == "script":
            s.update(prior="", mirror="", wipe="", prior_arg="")
            if s.get("leftover") and not (kw.get("leftover")):
                s["leftover"] = 0
            # (D) has one request per upload / listing and no cache: keep its scripts exact
            s.update(cache=0, chunked=0, pagesize=0)
        return s

    def run(self, scns, label):
        """Execute scenarios on the real code; returns list of (scenario, trace)."""
        if not scns:
            return []
        self.batch += 1
        d = self.ctx.path("copy", "b%d" % self.batch, "x")
        d = os.path.dirname(d)
        fin, fout = os.path.join(d, "scn.jsonl"), os.path.join(d, "traces.jsonl")
        with open(fin, "w") as f:
            for s in scns:
                f.write(json.dumps(s) + "\n")
        scr = os.path.join(d, "scratch")
        os.makedirs(scr, exist_ok=True)
        self.ctx.run(["copydrv", "-mode", "run", "-in", fin, "-out", fout, "-scratch", scr, "-par", "8"],
                     timeout=1500)
        trs = load_jsonl(fout)
        if len(trs) != len(scns):
            raise vlib.ToolError("driver returned %d traces for %d scenarios (%s)" % (len(trs), len(scns), label))
        # a copy that neither returns nor issues a request (a hang of the code under test): not a verdict
        # of these properties; remembered, and a tooling error at the end unless a violation explains it
        for sc, t in zip(scns, trs):
            if "stall" in (t.get("meta") or {}):
                self.stalls.append("%s (%s/%s %s): %s" % (t["id"], sc["shape"], sc["pair"], json.dumps(sc["opts"]), t["meta"]["stall"]))
        # a copy of the preparation phase (the same client copying before the observed copy) that did not return:
        # the scenario is dropped and counted; termination is not the subject of these properties
        for sc, t in zip(scns, trs):
            if "prior_hang" in (t.get("meta") or {}):
                self.prior_hangs.append("%s (%s/%s %s)" % (t["id"], sc["shape"], sc["pair"], json.dumps(sc["opts"])))
        return [(sc, t) for sc, t in zip(scns, trs) if "stall" not in (t.get("meta") or {}) and "prior_hang" not in (t.get("meta") or {})]

    def check_stalls(self):
        if self.stalls and not self.ctx.violations:
            raise vlib.ToolError("ImageCopy hung in %d scenario(s) (neither returned nor issued a request): %s"
                                 % (len(self.stalls), "; ".join(self.stalls[:3])))

    # ------------------------------------------------------------- scenario space
    def option_sets(self, shape):
        """Option sets that make sense for a shape (default first)."""
        out = [{}]
        out.append({"force": 1})
        if shape in INDEX_SHAPES:
            out += [{"platforms": "linux/amd64"}, {"platforms": "linux/arm64,linux/amd64"}, {"platforms": "windows/amd64"}]
        if shape in REF_SHAPES:
            out += [{"referrers": 1}, {"referrers": 1, "reffilter": AT_SBOM}, {"referrers": 1, "force": 1},
                    {"referrers": 1, "fast": 1},
                    # two filter options selecting different referrers, in both orders; a separate referrer target
                    {"referrers": 1, "reffilter": AT_SBOM, "reffilter2": AT_SIG},
                    {"referrers": 1, "reffilter": AT_SIG, "reffilter2": AT_SBOM},
                    {"referrers": 1, "reftgt": 1}, {"referrers": 1, "reftgt": 1, "force": 1}]
        if shape in DTAG_SHAPES:
            out += [{"dtags": 1}, {"dtags": 1, "force": 1}]
        if shape == "art":
            out.append({"dtags": 1, "referrers": 1})
        if shape in ("ext", "foreign"):
            out += [{"inclext": 1}, {"inclext": 1, "force": 1}]
        out.append({"fast": 1})
        return out

    def init_subsets(self, shape, limit, always=()):
        """Pre-existing target states: subsets of the shape's objects (all of them when the shape has
        at most 6 objects, otherwise a seeded sample that always holds the corner cases)."""
        names = self.names(shape)
        corner = [[], list(names)]
        cl = self.closure(shape)
        mans = [n["name"] for n in self.cat[shape]["nodes"] if n["kind"] != "blob"]
        blobs = [n for n in names if n not in mans]
        corner += [list(mans), list(blobs), [x for x in cl if x != self.cat[shape]["root"]]]
        corner += [list(a) for a in always]
        if len(names) <= 6:
            subs = [list(c) for k in range(len(names) + 1) for c in itertools.combinations(names, k)]
        else:
            subs = []
        if len(subs) > limit or not subs:
            pool = subs or [[n for n in names if self.rng.random() < 0.5] for _ in range(4 * limit)]
            subs = self.rng.sample(pool, min(limit, len(pool)))
        seen, out = set(), []
        for s in corner + subs:
            k = tuple(sorted(s))
            if k not in seen:
                seen.add(k)
                out.append(sorted(s))
        return out[:max(limit, len(corner))]

    def features(self, shape, opts):
        """Registry feature sets worth distinguishing for this shape / option set."""
        fs = [{}]
        fs.append({"headdigest": 0})
        if opts.get("referrers") or opts.get("dtags") or shape in REF_SHAPES:
            fs += [{"refapi_src": 0, "refapi_tgt": 0}, {"refapi_src": 1, "refapi_tgt": 0}, {"refapi_src": 0, "refapi_tgt": 1}]
        return fs

    def matrix(self, shapes, pairs, n_init, modes, origin, opt_filter=None, full=False):
        """shape x pairing x option set x features x pre-existing state x tag state."""
        out = []
        for sh in shapes:
            for pair in pairs:
                for opts in self.option_sets(sh):
                    if opt_filter and not opt_filter(opts):
                        continue
                    if opts.get("reftgt") and pair == "samerepo":
                        continue
                    feats = self.features(sh, opts)
                    if not full:
                        feats = [feats[0]] + self.rng.sample(feats[1:], min(1, len(feats) - 1))
                    for ft in feats:
                        inits = self.init_subsets(sh, n_init) if pair != "samerepo" else [[]]
                        for init in inits:
                            tags = ["none", "stale", "same"]
                            if not full:
                                tags = [self.rng.choice(tags)]
                            for tag0 in tags:
                                kw = dict(ft)
                                if pair == "samereg":
                                    kw["mount"] = self.rng.choice([0, 1]) if not full else 1
                                if sh == "ext":
                                    kw["extup"] = self.rng.choice([0, 1])
                                s = self.scn(sh, pair, origin, opts=dict(opts), init=init, tag0=tag0,
                                             mode=self.rng.choice(modes), conc=self.rng.choice([1, 3, 16]), **kw)
                                if self.rng.random() < 0.2:
                                    s["bydigest"] = self.rng.choice([1, 1, 2])     # by digest / by tag and digest
                                if self.rng.random() < 0.08 and pair != "samerepo":
                                    s["tgtbydigest"] = 1
                                out.append(s)
                                if full and pair == "samereg":
                                    s2 = copy.deepcopy(s)
                                    self.n += 1
                                    s2["id"] = "%s-%d" % (origin, self.n)
                                    s2["mount"] = 0
                                    out.append(s2)
        return out

    # ------------------------------------------------------------ fault sweeps
    def positions(self, trace):
        """Request positions (side, class, name, occurrence) of a recorded run, in serving order."""
        occ, out = {}, []
        for e in trace["events"]:
            if e["ev"] != "req" or e["side"] in ("ext", "other"):
                continue
            k = (e["side"], e["class"], e["n"])
            occ[k] = occ.get(k, 0) + 1
            out.append({"host": k[0], "class": k[1], "n": k[2], "occ": occ[k]})
        return out

    def sweep(self, base_pairs, kinds_per_pos, origin, double=0, cancel=True, death=True, modes=("random", "ungated", "fifo")):
        """base_pairs: [(scenario, trace)] of fault-free runs.  For every request position of each run:
        faults of the given kinds, cancellation and process death."""
        out = []
        for sc, tr in base_pairs:
            poss = self.positions(tr)
            for p in poss:
                kinds = kinds_per_pos(p)
                for k in kinds:
                    s = copy.deepcopy(sc)
                    self.n += 1
                    s.update(id="%s-%d" % (origin, self.n), origin=origin, faults=[dict(p, kind=k)],
                             mode=self.rng.choice(modes), seed=self.rng.randrange(1 << 30))
                    out.append(s)
                for what, on in (("cancel", cancel), ("death", death)):
                    if on:
                        s = copy.deepcopy(sc)
                        self.n += 1
                        s.update(id="%s-%s-%d" % (origin, what, self.n), origin=origin + "-" + what,
                                 mode=self.rng.choice(modes), seed=self.rng.randrange(1 << 30))
                        s[what] = dict(p)
                        out.append(s)
            for _ in range(double):
                if len(poss) < 2:
                    break
                a, b = self.rng.sample(poss, 2)
                s = copy.deepcopy(sc)
                self.n += 1
                s.update(id="%s-dbl-%d" % (origin, self.n), origin=origin + "-double",
                         faults=[dict(a, kind=self.rng.choice(FATAL + TRANSIENT + ["stall"])),
                                 dict(b, kind=self.rng.choice(FATAL + TRANSIENT))],
                         mode=self.rng.choice(modes), seed=self.rng.randrange(1 << 30))
                out.append(s)
        return out

    def slow_requests(self, base_pairs, origin, classes=None):
        """Per-request latency pushed to the extreme: for every request (side, class, name) of a fault-free run
        one scenario in which exactly that request is served only when nothing else can move (mode delay)."""
        out = []
        for sc, tr in base_pairs:
            seen = set()
            for p in self.positions(tr):
                k = (p["host"], p["class"], p["n"])
                if k in seen or (classes and p["class"] not in classes):
                    continue
                seen.add(k)
                s = copy.deepcopy(sc)
                self.n += 1
                s.update(id="%s-%d" % (origin, self.n), origin=origin, mode="delay",
                         hold=[{"host": p["host"], "class": p["class"], "n": p["n"]}])
                out.append(s)
        return out

    def client_history(self, origin, shapes=("idx2", "nested", "docker", "dupentry", "diamond2", "artidx", "sha512")):
        """One cached client doing several things in sequence: the observed copy follows a copy of the same image to
        another repository of the target registry, or a fetch of every source manifest by digest."""
        out = []
        for sh in shapes:
            for pr in ("tworeg", "samereg", "dir2reg"):
                for prior in ("copy", "get"):
                    out.append(self.scn(sh, pr, origin, prior=prior, cache=1, mode=self.rng.choice(["fifo", "random", "ungated"]),
                                        tag0=self.rng.choice(["none", "stale"]), bydigest=self.rng.choice([0, 0, 1])))
        return out

    def warm_cache(self, origin, shapes=REF_SHAPES + ["dtag", "idx2"]):
        """Round 5 (seed C03-9): the observed copy follows listings / HEADs the same cached client made: referrers
        of every source manifest with an artifact-type filter (which the registry applies on its side) or without,
        the tag listing, manifest HEADs; then the copy with referrers (all / another filter) / digest tags."""
        out = []
        for sh in shapes:
            osets = [{"referrers": 1}, {"referrers": 1, "reffilter": AT_SIG}] if sh in REF_SHAPES else [{"dtags": 1}, {"referrers": 1, "dtags": 1}]
            for pr in ("tworeg", "samereg", "reg2dir"):
                for prior, arg in WARM_PRIORS:
                    for opts in osets:
                        out.append(self.scn(sh, pr, origin, prior=prior, prior_arg=arg, cache=1, opts=dict(opts), refapi_src=1,
                                            refapi_tgt=self.rng.choice([0, 1]), leftover=0, listorder=self.rng.choice(["", "", "rev"]),
                                            mode=self.rng.choice(["fifo", "random", "ungated"])))
        return out

    def repeats(self, origin, pairs=("tworeg", "samereg", "reg2dir", "dir2reg", "dir2dir")):
        """Round 5 (seed C14-9): the periodic re-sync - the same copy made a second time onto what the first left
        (by the same client, cache on / off, or by a fresh one), for every shape x option set (also options the
        shape gives nothing to do for: referrers / digest tags on a plain index switch the digest short-cut off)."""
        out = []
        for sh in self.shapes:
            if sh in LOOP_SHAPES:
                continue
            osets = self.option_sets(sh)
            for extra in ({"referrers": 1}, {"dtags": 1}, {"referrers": 1, "dtags": 1}, {"referrers": 1, "dtags": 1, "fast": 1}):
                if extra not in osets:
                    osets.append(extra)
            osets = [o for o in osets if not o.get("force") and not o.get("reftgt")]
            for opts in osets:
                pr = self.rng.choice(pairs)
                out.append(self.scn(sh, pr, origin, opts=dict(opts), prior=self.rng.choice(["recopy", "recopy", "recopy-other"]),
                                    wipe="", cache=self.rng.choice([0, 1]), mirror="", tag0=self.rng.choice(["none", "stale"]),
                                    mode=self.rng.choice(["fifo", "random", "ungated"]), conc=self.rng.choice([1, 3, 16]),
                                    refapi_src=self.rng.choice([0, 1, 1]), refapi_tgt=self.rng.choice([0, 1, 1]),
                                    bydigest=self.rng.choice([0, 0, 1])))
        return out

    def closers(self, origin, pairs=("reg2dir", "dir2dir")):
        """Round 5 (seeds C03-10 = C04-9): a second user of the same RegClient on the same layout target while the
        copy runs - rc.Close(target) (what regctl does after every copy), alone or after a copy of another image
        into the same layout - at every request position of the copy (before the source GET / HEAD of every object)
        and after every blob has been stored (progress callback)."""
        out = []
        for sh in self.shapes:
            if sh in LOOP_SHAPES:
                continue
            for pr in pairs:
                for n in self.cat[sh]["nodes"]:
                    isblob = n["kind"] == "blob"
                    for via in ("req", "cb"):
                        if via == "req" and pr == "dir2dir":
                            continue
                        if via == "cb" and not isblob:
                            continue
                        osets = self.option_sets(sh)
                        opts = self.rng.choice([osets[0], self.rng.choice(osets)])
                        if opts.get("reftgt"):
                            opts = {}
                        kw = {}
                        if via == "req":
                            # (the top manifest is asked for by tag: request name "S")
                            kw["closer"] = {"host": "src", "class": "blob_get" if isblob else self.rng.choice(["manifest_get", "manifest_head"]),
                                            "n": "S" if n["name"] == self.cat[sh]["root"] else n["name"], "occ": 1}
                            kw["bydigest"] = 0
                        else:
                            kw["closer_cb"] = {"host": "", "class": "", "n": n["name"], "occ": 1}
                        out.append(self.scn(sh, pr, origin, opts=dict(opts), closer_op=self.rng.choice(["close", "close", "copyclose"]),
                                            prior="", mirror="", tag0=self.rng.choice(["stale", "stale", "none"]),
                                            init=self.rng.choice([[], [], [x["name"] for x in self.cat[sh]["nodes"] if x["kind"] != "blob"][:1]]),
                                            mode=self.rng.choice(["fifo", "random", "ungated"]), conc=self.rng.choice([1, 3, 16]), **kw))
        return out

    def round4(self, origin):
        """Explicit members of the round-4 dimensions (they are also drawn at random everywhere)."""
        out = []
        for pr in ("tworeg", "samereg", "reg2dir", "dir2reg", "dir2dir"):
            for opts in ({"dtags": 1}, {"dtags": 1, "referrers": 1}, {"dtags": 1, "force": 1}):
                out.append(self.scn("sigloop", pr, origin, opts=dict(opts), leftover=0, prior=""))
            for opts in ({}, {"inclext": 1}):
                out.append(self.scn("foreign", pr, origin, opts=dict(opts), extup=self.rng.choice([0, 1]), prior=""))
        for sh in ("art", "artidx", "artshare"):
            for pr in ("tworeg", "samereg", "reg2dir"):
                for opts in ({"dtags": 1, "referrers": 1}, {"dtags": 1}, {"referrers": 1}):
                    out.append(self.scn(sh, pr, origin, opts=dict(opts), leftover=1, refapi_src=1, refapi_tgt=1, prior=""))
        for sh in ("img", "idx2", "dup", "docker"):
            blobs = [n["name"] for n in self.cat[sh]["nodes"] if n["kind"] == "blob"]
            for pr in ("tworeg", "samereg", "reg2dir", "dir2reg", "dir2dir"):
                for wipe in ("all", "blobs"):
                    out.append(self.scn(sh, pr, origin, prior="recopy", wipe=wipe, cache=0))
            for pr in ("tworeg", "samereg", "reg2dir"):
                for mir in ("tgt", "src", "both"):
                    out.append(self.scn(sh, pr, origin, mirror=mir, init=sorted(blobs[::2]), prior=""))
        return out

    def rewinds(self, base_pairs, origin, kinds=("404", "401", "503")):
        """The double fault on one blob: the closing upload PUT at the target fails without retry and the
        rewind of the source (its second GET) fails too."""
        out = []
        for sc, tr in base_pairs:
            poss = self.positions(tr)
            gets = set(p["n"] for p in poss if p["class"] == "blob_get" and p["host"] in ("src", "both"))
            for p in poss:
                if p["class"] == "upload_put" and p["occ"] == 1 and p["n"] in gets:
                    for k1 in kinds:
                        k2 = self.rng.choice(list(kinds))
                        s = copy.deepcopy(sc)
                        self.n += 1
                        s.update(id="%s-%d" % (origin, self.n), origin=origin, cancel202=1,
                                 mode=self.rng.choice(["fifo", "random", "ungated"]), seed=self.rng.randrange(1 << 30),
                                 faults=[{"host": p["host"], "class": "upload_put", "n": p["n"], "occ": 1, "kind": k1},
                                         {"host": "src", "class": "blob_get", "n": p["n"], "occ": 2, "kind": k2}])
                        out.append(s)
        return out

    # --------------------------------------------------------------- validation
    def validate(self, pairs, label, max_reports=20):
        """Validate traces against (P) with this property's obligations latched; report rejections."""
        ctx = self.ctx
        traces = [{"id": t["id"], "events": t["events"], "header": t.get("header", {}),
                   "scenario": sc, "meta": t.get("meta", {})} for sc, t in pairs]
        acc, rej = ctx.validate_batch("CopyTrace", "%s_trace.cfg" % self.pid, traces, timeout=3000,
                                      max_reports=max_reports)
        for r in rej:
            t = r["trace"]
            sc = t["scenario"]
            ob = (r["detail"] or r["reason"]).strip('"')
            sig = "copy:%s:%s:%s" % (ob, "layout" if sc["pair"] in ("reg2dir", "dir2dir") else "registry", cause_of(sc))
            if sc["shape"] in LOOP_SHAPES:
                sig += ":loopgraph"
            if ob == "C04:child-missing":
                sig += ":" + missing_class(t["events"], r["line"], sc)
            what = "%s at event %s of trace %s (shape %s, %s, opts %s, init %s, tag0 %s, mode %s, faults %s%s%s)" % (
                ob, json.dumps(r["event"], sort_keys=True)[:300], t["id"], sc["shape"], sc["pair"], json.dumps(sc["opts"]),
                ",".join(sc["init"]), sc["tag0"], sc["mode"], json.dumps(sc.get("faults", [])),
                " cancel " + json.dumps(sc["cancel"]) if sc.get("cancel") else "",
                " death " + json.dumps(sc["death"]) if sc.get("death") else "")
            ctx.report(sig, what, {"scenario": sc, "header": t["header"], "events": t["events"],
                                   "rejected_at": r["line"], "meta": t["meta"],
                                   "cmd": "tools/check %s --replay <this file>" % self.pid})
        return acc, rej

    def binding_demo(self, pairs):
        """Corrupt accepted traces in ways that break exactly this property; (P) must reject each."""
        ctx = self.ctx

        def tr(sc, t, tid):
            return {"id": tid, "events": copy.deepcopy(t["events"]), "header": dict(t.get("header", {}))}

        def pick(pred):
            for sc, t in pairs:
                if pred(sc, t):
                    return sc, t
            return None, None

        demos = []
        plain = lambda sc, t: (sc["pair"] == "tworeg" and not sc.get("faults") and not sc.get("cancel") and not sc.get("death")
                               and sc["shape"] != "big" and not sc.get("bydigest") and not sc.get("tgtbydigest")
                               and t["meta"].get("err") == "" and not sc["opts"] and sc["tag0"] != "same"
                               and sum(1 for e in t["events"] if e["ev"] == "req" and e.get("wr") == 1 and e["class"] == "upload_put") >= 2)
        sc, t = pick(plain)
        if t is None:
            raise vlib.ToolError("no plain two-registry trace for the binding demo")
        if self.pid == "C03":
            # 1. a required blob silently missing from the final target state
            m = tr(sc, t, "demo-missing-blob")
            victim = next(e["n"] for e in m["events"] if e["ev"] == "req" and e.get("wr") == 1 and e["class"] == "upload_put")
            for e in m["events"]:
                if "blobs" in e and e["ev"] != "init":
                    e["blobs"] = [b for b in e["blobs"] if b != victim]
            demos.append(m)
            # 2. same object present but with different bytes
            m = tr(sc, t, "demo-corrupt-blob")
            for e in m["events"]:
                if e["ev"] in ("result", "final") and victim in e["blobs"]:
                    e["blobs"] = [b for b in e["blobs"] if b != victim]
                    e["bad"] = sorted(e["bad"] + [victim])
            demos.append(m)
            # 3. the tag resolves to something else
            m = tr(sc, t, "demo-wrong-tag")
            for e in m["events"]:
                if e["ev"] in ("result", "final"):
                    e["tagv"] = ["OLDM" if k == "T" else v for k, v in zip(e["tagk"], e["tagv"])]
            demos.append(m)
        elif self.pid == "C04":
            # 1. the manifest PUT moved in front of the last blob commit
            m = tr(sc, t, "demo-put-before-blob")
            ev = m["events"]
            iput = next(i for i, e in enumerate(ev) if e["ev"] == "req" and e["class"] == "manifest_put" and e.get("wr") == 1)
            iblob = max(i for i, e in enumerate(ev) if e["ev"] == "req" and e["class"] == "upload_put" and e.get("wr") == 1 and i < iput)
            victim = ev[iblob]["n"]
            put = copy.deepcopy(ev[iput])
            put["blobs"] = [b for b in put["blobs"] if b != victim]
            blob = copy.deepcopy(ev[iblob])
            blob["mans"], blob["tagk"], blob["tagv"] = ev[iput]["mans"], ev[iput]["tagk"], ev[iput]["tagv"]
            ev[iblob], ev[iput] = put, blob
            demos.append(m)
            # 2. a write after the tag
            m = tr(sc, t, "demo-write-after-tag")
            ev = m["events"]
            iput = max(i for i, e in enumerate(ev) if e["ev"] == "req" and e["class"] == "manifest_put" and e.get("wr") == 1)
            extra = copy.deepcopy(ev[iblob])
            extra["blobs"], extra["mans"], extra["tagk"], extra["tagv"] = (ev[iput]["blobs"], ev[iput]["mans"],
                                                                           ev[iput]["tagk"], ev[iput]["tagv"])
            ev.insert(iput + 1, extra)
            demos.append(m)
            # 3. an error result with the tag moved to an incomplete image
            m = tr(sc, t, "demo-failed-but-tag-moved")
            for e in m["events"]:
                if e["ev"] == "result":
                    e["ok"], e["err"] = 0, "injected"
                if e["ev"] in ("result", "final"):
                    e["blobs"] = [b for b in e["blobs"] if b != victim]
            for e in m["events"]:
                if e["ev"] == "req" and e.get("wr") == 1 and e["class"] == "manifest_put":
                    e["blobs"] = [b for b in e["blobs"] if b != victim]
            demos.append(m)
        else:
            # 1. a blob fetched twice
            m = tr(sc, t, "demo-double-get")
            ev = m["events"]
            i = next(i for i, e in enumerate(ev) if e["ev"] == "req" and e["class"] == "blob_get" and e["st"] == 200)
            ev.insert(i + 1, copy.deepcopy(ev[i]))
            demos.append(m)
            # 2. a blob the target had is fetched
            m = tr(sc, t, "demo-get-present")
            victim = ev[i]["n"]
            for e in m["events"]:
                if e["ev"] == "init":
                    e["blobs"] = sorted(set(e["blobs"] + [victim]))
            demos.append(m)
            # 3. mount granted but bytes moved
            m = tr(sc, t, "demo-no-mount")
            m["header"]["mountok"] = 1
            demos.append(m)
        for m in demos:
            _, rj = ctx.validate_batch("CopyTrace", "%s_trace.cfg" % self.pid, [m])
            if not rj:
                raise vlib.ToolError("binding demo %s was accepted: the trace spec does not bind" % m["id"])
        return [m["id"] for m in demos]


def missing_class(events, upto, sc):
    """For a child-missing rejection: was the missing child the object of a request that got an injected
    *fatal* fault ("missing-faulted": the parent ignored that child's own error) or not ("missing-unfetched":
    the child was cancelled, possibly while a transient fault was being retried, or never fetched)?  Part of
    the violation signature."""
    kids, init_m, store, put = {}, set(), None, set()
    faulted = set(f.get("n") for f in (sc.get("faults") or []) if f.get("kind") in FATAL)
    faulted |= set(x.get("n") for x in (sc.get("script") or []) if x.get("op") == "fault" and x.get("kind") in FATAL)
    # ... and the fault was really injected in this run (a planned position may never be reached)
    faulted &= set(e.get("n") for e in events if e["ev"] == "req" and e.get("flt") == 1)
    for i, e in enumerate(events):
        if upto is not None and i > upto:
            break
        if e["ev"] == "edge" and e.get("psel") == 1 and e.get("role") != "ext":
            kids.setdefault(e["p"], set()).add(e["c"])
        elif e["ev"] == "init":
            init_m = set(e["mans"])
        if e["ev"] == "req" and e.get("class") == "manifest_put" and e.get("st") == 201:
            put.add(e.get("pn"))
        if "mans" in e and e["ev"] != "init":
            store = e
    if store is None:
        return "missing-unknown"
    present = set(store["blobs"]) | set(store["mans"])
    written = (set(store["mans"]) - init_m) | put
    missing = set()
    for m in written:
        missing |= kids.get(m, set()) - present
    if not missing:
        return "missing-unknown"
    return "missing-faulted" if missing & faulted else "missing-unfetched"


def optsig(sc):
    o = sc.get("opts", {})
    s = "+".join(k for k in sorted(o) if o[k]) or "default"
    if sc.get("faults") or sc.get("cancel") or sc.get("death"):
        s += ":faulted"
    return s


def summarize(pairs):
    """Coverage counters over executed scenarios."""
    cov = {"by_shape": {}, "by_pair": {}, "by_mode": {}, "results": {"ok": 0, "err": 0, "dead": 0},
           "script_exact": 0, "script_drift": 0, "requests": 0, "injected": 0}
    kinds = set()
    for sc, t in pairs:
        m = t.get("meta", {})
        cov["by_shape"][sc["shape"]] = cov["by_shape"].get(sc["shape"], 0) + 1
        cov["by_pair"][sc["pair"]] = cov["by_pair"].get(sc["pair"], 0) + 1
        cov["by_mode"][sc["mode"]] = cov["by_mode"].get(sc["mode"], 0) + 1
        if m.get("dead"):
            cov["results"]["dead"] += 1
        elif m.get("err"):
            cov["results"]["err"] += 1
        else:
            cov["results"]["ok"] += 1
        if sc["mode"] == "script":
            cov["script_exact" if m.get("exact") else "script_drift"] += 1
        cov["requests"] += m.get("served", 0)
        cov["injected"] += m.get("injected", 0)
        sig = json.dumps([sc["shape"], sc["pair"], sc["opts"], sc["init"], sc["tag0"], sc.get("faults"), sc.get("cancel"),
                          sc.get("death"), [(e["side"], e["class"], e["n"]) for e in t["events"] if e["ev"] == "req"]],
                         sort_keys=True)
        kinds.add(sig)
    cov["distinct"] = len(kinds)
    return cov


# ----------------------------------------------------------------------------- TLA+ catalogue
def shapes_tla(cat):
    """Render the driver's graph catalogue as spec/CopyShapes.tla (the runner checks that the
    committed module equals this rendering, so (D) and the driver talk about the same graphs)."""
    def s(x):
        return '"%s"' % x

    def setof(xs):
        return "{" + ", ".join(xs) + "}"

    out = ["----------------------------- MODULE CopyShapes -----------------------------",
           "(* Graph catalogue of C03 / C04 / C14, generated from harness/cmd/copydrv      *)",
           "(* (content.go: buildShape) by tools/props/copy_common.py:shapes_tla; the      *)",
           "(* runner refuses to run when this file and the driver disagree.  Per shape:   *)",
           "(* root; mans: manifest -> kind; kids: manifest -> sequence of descriptors     *)",
           "(* <<child, role, platform, inline>> in document order (duplicates kept);      *)",
           "(* refs: <<referrer, subject, artifact type>>; dtags: <<tag, on, to>>;         *)",
           "(* fbs: the fall-back referrer indexes <<index, subject>> a source without     *)",
           "(* referrers API holds under the tag sha256-<hex of subject>; long: objects     *)",
           "(* named by a sha512 digest (their fall-back tag is truncated, hence no digest  *)",
           "(* tag); uniq / uniqfb:                                                         *)",
           "(* objects that exactly one descriptor, referrer edge or digest tag names       *)",
           "(* (without / with those fall-back indexes), used by (D)'s reduction.           *)",
           "EXTENDS TLC", ""]
    names = []
    for sh in cat.values():
        mans = [n for n in sh["nodes"] if n["kind"] != "blob"]
        blobs = [n["name"] for n in sh["nodes"] if n["kind"] == "blob"]
        refs = [(n["name"], n["subject"], "sbom" if n.get("atype", "").endswith("sbom.v1") else "sig")
                for n in sh["nodes"] if n.get("subject")]
        subjects = []
        for r in refs:
            if r[1] not in subjects:
                subjects.append(r[1])
        kinds = " @@ ".join("(%s :> %s)" % (s(n["name"]), s(n["kind"])) for n in mans)
        kids = []
        size = {n["name"]: n["size"] for n in sh["nodes"]}
        for n in mans:
            # (a descriptor of size 0 carries its whole content: regclient treats it like inline data)
            seq = ", ".join("<<%s, %s, %s, %s>>" % (s(e["c"]), s(e["role"]), s(e.get("plat", "")),
                                                   "TRUE" if e.get("inline") or size[e["c"]] == 0 else "FALSE")
                            for e in n["edges"])
            kids.append("(%s :> <<%s>>)" % (s(n["name"]), seq))
        for sub in subjects:
            seq = ", ".join("<<%s, \"entry\", \"\", FALSE>>" % s(r[0]) for r in refs if r[1] == sub)
            kids.append("(%s :> <<%s>>)" % (s("FB:" + sub), seq))
        nm = "Shape_" + sh["name"]
        names.append(sh["name"])
        out.append("%s == [root |-> %s," % (nm, s(sh["root"])))
        out.append("  blobs |-> %s," % setof(s(b) for b in blobs))
        out.append("  mans |-> %s," % kinds)
        out.append("  kids |-> %s," % " @@\n           ".join(kids))
        out.append("  refs |-> %s," % setof("<<%s, %s, %s>>" % (s(a), s(b), s(c)) for a, b, c in refs))
        out.append("  dtags |-> %s," % setof("<<%s, %s, %s>>" % (s(d["sym"]), s(d["of"]), s(d["to"])) for d in (sh.get("dtags") or [])))
        out.append("  long |-> %s," % setof(s(n["name"]) for n in sh["nodes"] if n.get("alg") == "sha512"))
        out.append("  fbs |-> %s," % setof("<<%s, %s>>" % (s("FB:" + x), s(x)) for x in subjects))
        # objects named by exactly one descriptor / referrer edge / digest tag (or being the root):
        # without and with the fall-back indexes of the source (which name every referrer once more)
        inc = {n["name"]: 0 for n in sh["nodes"]}
        for n in mans:
            for e in n["edges"]:
                inc[e["c"]] += 1
        for r in refs:
            inc[r[0]] += 1
        for d in (sh.get("dtags") or []):
            inc[d["to"]] += 1
        inc[sh["root"]] += 1
        incfb = dict(inc)
        for r in refs:
            incfb[r[0]] += 1
        out.append("  uniq |-> %s," % setof(s(k) for k in inc if inc[k] == 1))
        out.append("  uniqfb |-> %s," % setof([s(k) for k in incfb if incfb[k] == 1] + [s("FB:" + x) for x in subjects]))
        out.append("  order |-> <<%s>>]" % ", ".join(s(n["name"]) for n in sh["nodes"]))
        out.append("")
    out.append("Shapes == " + " @@ ".join("(%s :> Shape_%s)" % (s(n), n) for n in names))
    out.append("=============================================================================")
    return "\n".join(out) + "\n"


def check_shapes(engine):
    want = shapes_tla(engine.cat)
    fn = os.path.join(vlib.SPEC, "CopyShapes.tla")
    try:
        have = open(fn).read()
    except OSError:
        have = ""
    if have != want:
        raise vlib.ToolError("spec/CopyShapes.tla does not describe the driver's catalogue; regenerate it with "
                             "tools/props/copy_common.py (shapes_tla) and review (D)")


# ------------------------------------------------------------------ TLC generated schedules
def conf_to_scn(engine, c, steps, origin):
    """Turn a configuration record of (D) and a step history into a driver scenario."""
    opts = {}
    for k in ("force", "referrers", "dtags", "inclext", "fast"):
        if c.get(k):
            opts[k] = 1
    fl = c.get("filter") or []
    if isinstance(fl, str):
        fl = [fl] if fl else []
    fl = [AT_SBOM if f == "sbom" else AT_SIG for f in fl]
    engine.rng.shuffle(fl)                  # the order of the filter options must not matter
    if fl:
        opts["reffilter"] = fl[0]
    if len(fl) > 1:
        opts["reffilter2"] = fl[1]
    if c.get("refTgt"):
        opts["reftgt"] = 1
    extra = {}
    if c.get("leftover"):
        extra["leftover"] = 1
    if c.get("decline"):
        # (D): the registry declines the mount of the first object of the shape
        extra["mount_decline_n"] = [engine.cat[c["shape"]]["nodes"][0]["name"]]
    if c.get("plats"):
        opts["platforms"] = "linux/amd64"
    script = [{"op": s["op"], "host": s.get("host", ""), "class": s.get("class", ""), "n": s.get("n", ""),
               "kind": s.get("kind", "")} for s in steps]
    return engine.scn(c["shape"], c["pair"], origin, mount=int(bool(c["mount"])), headdigest=int(bool(c["headDigest"])),
                      refapi_src=int(bool(c["refApiSrc"])), refapi_tgt=int(bool(c["refApiTgt"])), opts=opts,
                      bydigest=int(bool(c["byDigest"])), tgtbydigest=int(bool(c["tgtByDigest"])),
                      init=sorted(c["init"]), tag0=c["tag0"], conc=(3 if c.get("cap") else 16), mode="script",
                      script=script, model={"ret": None}, **extra)


def tlc_scripts(engine, cfg, n, origin, depth=400):
    """Random behaviours of (D) (TLC -simulate, seeded) as gate scripts for the driver."""
    ctx = engine.ctx
    g = ctx.tlc_scenarios("ImageCopyGen", cfg, workers=1, simulate="num=%d" % n, depth=depth,
                          extra=["-seed", str(ctx.seed)], label="generator " + cfg, timeout=900)
    out = []
    for s in g["scenarios"]:
        sc = conf_to_scn(engine, s["conf"], s["steps"], origin)
        sc["model"] = {"ret": s.get("ret"), "crashed": s.get("crashed"), "faults": s.get("faults"),
                       "cancelled": s.get("cancelled")}
        out.append(sc)
    return out


def model_agreement(pairs):
    """How the real runs of TLC generated scripts compare with what (D) predicted (drift, not verdicts)."""
    exact = drift = agree = differ = 0
    notes = {}
    for sc, t in pairs:
        if sc.get("mode") != "script":
            continue
        m = t.get("meta", {})
        if m.get("exact"):
            exact += 1
            want = (sc.get("model") or {}).get("ret")
            crashed = (sc.get("model") or {}).get("crashed")
            got = "dead" if m.get("dead") else ("err" if m.get("err") else "ok")
            if crashed:
                want = "dead"
            if want == got:
                agree += 1
            else:
                differ += 1
                k = "%s/%s model=%s real=%s" % (sc["shape"], sc["pair"], want, got)
                notes[k] = notes.get(k, 0) + 1
        else:
            drift += 1
            k = "%s/%s: %s" % (sc["shape"], sc["pair"], (m.get("drift") or "")[:80])
            notes[k] = notes.get(k, 0) + 1
    return {"scripts_exact": exact, "scripts_drift": drift, "result_agrees": agree, "result_differs": differ,
            "notes": dict(sorted(notes.items(), key=lambda kv: -kv[1])[:12])}


# ------------------------------------------------------------------------------ runner parts
def defect_prone(sc):
    """Scenario class in which the known wait-loop defect (findings/C04-1) can show: a layout target
    (ocidir.ManifestPut does not look at the context) with a cancellation or a request that fails."""
    if sc["pair"] not in ("reg2dir", "dir2dir"):
        return False
    if sc.get("cancel") or sc.get("cancel_cb"):
        return True
    for f in sc.get("faults") or []:
        if f.get("kind") in FATAL + ["stall"]:
            return True
    for s in sc.get("script") or []:
        if s.get("op") == "cancel" or (s.get("op") == "fault" and s.get("kind") in FATAL):
            return True
    return False


def cause_of(sc):
    """Input class of a scenario for the violation signature."""
    fs = list(sc.get("faults") or []) + [{"host": s.get("host"), "kind": s.get("kind")} for s in (sc.get("script") or [])
                                          if s.get("op") == "fault"]
    if sc.get("death") or any(s.get("op") == "death" for s in (sc.get("script") or [])):
        d = "death"
    else:
        d = ""
    if sc.get("cancel") or sc.get("cancel_cb") or any(s.get("op") == "cancel" for s in (sc.get("script") or [])) or \
            any(f.get("kind") == "stall" for f in fs):
        return "cancel" + ("+death" if d else "")
    fatal = [f for f in fs if f.get("kind") in FATAL]
    if fatal:
        return "fault-%s-fatal" % fatal[0].get("host") + ("+death" if d else "")
    if fs:
        return "fault-%s-transient" % fs[0].get("host") + ("+death" if d else "")
    return d or "none"


def cover_sample(rng, scns, k, keys):
    """Seeded sample of k scenarios that keeps at least one scenario for every value of every key
    function (so a quick tier still touches every shape, pairing, option set, request class ...)."""
    if len(scns) <= k:
        return list(scns)
    order = list(range(len(scns)))
    rng.shuffle(order)
    chosen, seen = [], set()
    for i in order:
        ks = [(j, kf(scns[i])) for j, kf in enumerate(keys)]
        if any(x not in seen for x in ks):
            chosen.append(i)
            seen.update(ks)
    rest = [i for i in order if i not in set(chosen)]
    chosen += rest[:max(0, k - len(chosen))]
    return [scns[i] for i in sorted(chosen)]


def limit_defect_prone(rng, scns, k):
    """Keep at most k scenarios of the class that triggers the known defect (each rejected trace costs
    one TLC restart); the others of that class are dropped, counted in the evidence."""
    dp = [s for s in scns if defect_prone(s)]
    if len(dp) <= k:
        return scns, 0
    keep = set(id(s) for s in rng.sample(dp, k))
    out = [s for s in scns if not defect_prone(s) or id(s) in keep]
    return out, len(dp) - k


def replay(engine):
    """tools/check <ID> --replay file: re-drive the recorded scenario and re-validate."""
    ctx = engine.ctx
    rp = json.load(open(ctx.replay))
    sc = rp["replay"]["scenario"]
    pairs = engine.run([sc], "replay")
    acc, rej = engine.validate(pairs, "replay")
    return pairs, acc, rej


def run_mc(ctx, runs):
    """runs: list of (module, cfg, label, kwargs).  Returns (results, states, transitions)."""
    res = []
    for module, cfg, label, kw in runs:
        res.append(ctx.tlc(module, cfg, label=label, **kw))
    return res, sum(r["distinct"] for r in res), sum(r["generated"] for r in res)


def defect_model_run(ctx):
    """(D) with the wait loops as they were found before commit 7bc56ce (FixWaitErr = FALSE) on a layout
    target with cancellation: TLC is expected to find the children-first violation of findings/C04-1 (this is
    what the reverse patch seeded/fixrev-C04-1-* re-introduces); the default, repaired model (C04_mc_layout.cfg)
    has to hold.  Neither outcome is a verdict about the code: the scenario class is run on the real code."""
    r = ctx.tlc("ImageCopyMC", "C04_mc_defect.cfg", label="wait loops as found before 7bc56ce, layout target, cancel: expected counterexample",
                allow_violation=True)
    return {"violated": r["violated"], "distinct": r["distinct"]}


def por_crosscheck(ctx):
    """The reduced and the full exploration must reach the same observable states."""
    sets = {}
    for name in ("red", "full"):
        r = ctx.tlc("ImageCopyPor", "C03_por_%s.cfg" % name, label="reduction cross-check (%s)" % name, timeout=3000)
        sets[name] = set(line for line in r["output"].splitlines() if line.startswith('<<"ST"'))
    if sets["red"] != sets["full"] or not sets["red"]:
        raise vlib.ToolError("partial-order reduction of ImageCopy loses or invents observable states: "
                             "%d reduced vs %d full" % (len(sets["red"]), len(sets["full"])))
    return len(sets["red"])


def action_coverage(ctx):
    """-coverage sanity of (D): every action of ImageCopy.tla as a named disjunct (ImageCopyCov), simulated over
    a mixed configuration space; returns the per-action counts and the actions never taken."""
    import re
    r = ctx.tlc("ImageCopyCov", "C03_cov.cfg", workers=8, simulate="num=3000", depth=400,
                extra=["-coverage", "1", "-seed", str(ctx.seed)], label="action coverage (simulation)", timeout=1500)
    counts = {}
    for line in r["output"].splitlines():
        m = re.match(r"^<Cov(\w+) line .*>: (\d+):(\d+)", line)
        if m:
            counts[m.group(1)] = int(m.group(3))
    if len(counts) < 30:
        raise vlib.ToolError("coverage run reported only %d actions" % len(counts))
    return {"actions": len(counts), "never_taken": sorted(a for a, n in counts.items() if n == 0),
            "least_taken": sorted(counts.items(), key=lambda kv: kv[1])[:5]}


def xref_probe(engine):
    """findings/C03-obs-2: on two platform images whose referrers are indexes listing the other image,
    ImageCopy with referrers waits on itself through the seen map.  (D) dead-locks there (TLC), and so does
    the real code.  Liveness is outside C03 / C04 / C14: recorded, no verdict."""
    ctx = engine.ctx
    r = ctx.tlc("ImageCopyMC", "C03_mc_xref.cfg", label="xref + referrers: dead-lock of the seen-map waits expected",
                allow_violation=True, workers=8)
    sc = engine.scn("xref", "tworeg", "xref", opts={"referrers": 1}, mode="fifo")
    n0 = len(engine.stalls)
    engine.run([sc], "xref")
    hung = len(engine.stalls) > n0
    del engine.stalls[n0:]
    return {"model_deadlock": bool(r["violated"] and "Deadlock" in r["violated"]), "code_hangs": hung}


def samples_of(pairs, k=2):
    out = []
    for sc, t in pairs[:1] + pairs[-(k - 1):]:
        out.append({"id": t["id"], "scenario": {x: sc[x] for x in sc if x not in ("script",)},
                    "script_len": len(sc.get("script") or []),
                    "events": [e for e in t["events"] if e["ev"] not in ("man", "edge")][:30]})
    return out


ENTRY_POINTS = ["regclient.ImageCopy (image.go: imageCopyOpt, imageCopyBlob, imageSeenOrWait)", "regclient.BlobCopy",
                "scheme/reg: ManifestHead/Get/Put, BlobHead/Mount/Get/Put, ReferrerList, referrerPut, TagList",
                "scheme/ocidir: ManifestHead/Get/Put, BlobHead/Get/Put, ReferrerList, TagList"]
ASSUMPTIONS = [
    "ideal hash: distinct contents have distinct digests; content is small (<= 1100 bytes), uploads monolithic",
    "graphs from the catalogue of 17 shapes (harness/cmd/copydrv/content.go = spec/CopyShapes.tla)",
    "model registries (zzverif/simreg) conform to the distribution spec; a registry changes state only by serving a request",
    "TLC exhaustive only within the stated constants; the larger shapes fault-free under a hand partial-order "
    "reduction (cross-checked against the full exploration on the small shapes in the thorough tier)",
    "layout targets are observed at the copy's source requests, at its progress callbacks and at the end (not per syscall)",
    "schedules are imposed at request granularity; settle detection is a short quiet window (a wrong guess is drift, never a verdict)",
]


if __name__ == "__main__":
    # regenerate the TLA+ catalogue:  copydrv -mode catalogue | python3 tools/props/copy_common.py > spec/CopyShapes.tla
    import sys
    sys.stdout.write(shapes_tla({s["name"]: s for s in json.load(sys.stdin)}))

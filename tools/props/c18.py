"""C18 - after a regsync run every selected source tag is mirrored; nothing else is touched.

(D) spec/RegSync.tla (the decision automaton of `regsync once|check`, one action per registry
request) is model-checked by TLC over the scenario spaces of spec/RegSyncMC.tla against the
postconditions of spec/RegSyncDefs.tla; three expected counterexamples keep design facts visible:
the two defects as found before their fixes (C18-1 / S14 filter anchoring, fixed in 798ad2f; C18-2
forced platform copy without backup, fixed in 749f3ad - the as-found readings remain as switches of
(D)) and the shared backup name race.
RegSyncGen emits behaviours of (D) - random members of the model-checked spaces and free random
scenarios - each with the design's prediction per run.  harness/cmd/c18drv turns every scenario
into a YAML configuration plus populated model registries (simreg on loopback listeners), execs the
REAL regsync binary built from the tree under test for every run of the scenario and records what
an observer sees.  Every trace is validated by TLC against (P) spec/RegSyncProp.tla through
spec/RegSyncTrace.tla.  A verdict comes only from a rejected real trace; a mismatch with the
design's prediction is drift.
"""
import copy
import json
import re

import vlib

CODES = [
    ("check: a check-only run wrote", "check-wrote"),
    ("mirror: a selected source tag is not", "not-mirrored"),
    ("mirror: a mirrored image is incomplete", "incomplete"),
    ("untouched: a tag excluded by the filters", "excluded-written"),
    ("untouched: a tag outside the selection", "outside-written"),
    ("backup: tag overwritten while", "backup-at-overwrite"),
    ("backup: the overwritten image is not", "backup-after-run"),
    ("untouched: a repository no selected tag is copied to was modified", "repo-modified"),
    ("untouched: a repository no selected tag is copied to was created", "repo-created"),
    ("untouched: content that existed before", "content-lost"),
]
LISTS = {"X", "Y"}


def load_traces(fn):
    out = []
    with open(fn) as f:
        for line in f:
            if line.strip():
                out.append(json.loads(line))
    return out


def spell(f):
    # only what the signature classification needs: the top level alternation spelling
    return "|".join(f["tags"])


def alt_exposed(scn):
    """input class of finding C18-1 (S14): some filter is spelled as a top level alternation whose
    reading as "^" + f + "$" differs from the reading bound to both ends on a name of the pool."""
    pool = ["v1", "v10", "xv2", "v2", "latest", "V2", "r1", "r10", "r2", "xr2"]
    for e in scn["conf"]["entries"]:
        if e["type"] == "image":
            continue
        for key in ("allow", "deny", "rallow", "rdeny"):
            for f in e[key]:
                if f["style"] == "alt" and len(f["tags"]) >= 2:
                    for t in pool:
                        if bool(re.search("^" + spell(f) + "$", t)) != bool(re.fullmatch(spell(f), t)):
                            return True
    return False


def force_exposed(scn):
    """input class of finding C18-2: platform + forceRecursive + backup on some entry"""
    return any(e["platform"] and e["force"] and e["backup"] != "none" for e in scn["conf"]["entries"])


def force_class(trace, line):
    """the rejected write replaced an index by something else under a platform+force+backup entry"""
    ev = trace["events"]
    if line is None or line < 0 or ev[line]["ev"] != "tagput":
        return False
    w = ev[line]
    begin = next(e for e in reversed(ev[:line]) if e["ev"] == "begin")
    cur = {(t[0], t[1], t[2]): t[3] for t in begin["tags"]}
    for e in ev[ev.index(begin) + 1:line]:
        if e["ev"] == "tagput":
            cur[(e["reg"], e["repo"], e["tag"])] = e["img"]
    old = cur.get((w["reg"], w["repo"], w["tag"]), "")
    return old in LISTS and force_exposed(trace["scenario"])


def signature(r):
    t = r["trace"]
    detail = (r["detail"] or r["reason"]).strip('"')
    code = next((c for p, c in CODES if detail.startswith(p)), None)
    if code is None:
        return None, detail
    sig = "regsync:" + code
    if code in ("excluded-written", "not-mirrored") and alt_exposed(t["scenario"]):
        sig += ":alt-filter"
    elif code == "backup-at-overwrite" and force_class(t, r["line"]):
        sig += ":platform-force-index"
    return sig, detail


DRIFT_SAMPLES = []


def tgt_side(tags):
    return sorted(tuple(t) for t in tags if t[0] != "src" or t[1].startswith("mirror/"))


def drift_of(scn, events, meta=None):
    """compare what the design predicted for every run with what the binary did"""
    out = []
    meta = meta or {}
    run_steps = [st for st in scn["steps"] if st["op"] == "run"]
    pred = scn.get("pred", [])
    ends = [e for e in events if e["ev"] == "end"]
    nputs = []
    n = 0
    for e in events:
        if e["ev"] == "begin":
            n = 0
        elif e["ev"] == "tagput":
            n += 1
        elif e["ev"] == "end":
            nputs.append(n)
    if len(pred) != len(ends):
        return ["runs"]
    for i, (p, e) in enumerate(zip(pred, ends)):
        if i < len(run_steps) and run_steps[i].get("fault"):
            # a run with a scripted fault: the design counts requests per position of its automaton, the
            # binary per http request - when both (or neither) met the fault the exit status is compared
            real_hit = bool(meta.get("run%d" % (i + 1), {}).get("fault", {}).get("hit"))
            if real_hit or p.get("fhit"):
                if real_hit and p.get("fhit"):
                    if p["exit"] != (0 if e["exit"] == 0 else 1):
                        out.append("fault-exit")
                    out.append("+fault-both")
                else:
                    out.append("+fault-one")
                break       # the later runs start from a state the design did not predict
        if p["exit"] != (0 if e["exit"] == 0 else 1):
            out.append("exit")
        ps, os_ = set(tuple(x) for x in p["tags"]), set(tgt_side(e["tags"]))
        if ps != os_ and all(x[3] == "H" for x in ps ^ os_) and {x[:4] for x in ps} != {x[:4] for x in os_}:
            # only tuples of the holed image differ: whether a backup of H across repositories works depends on
            # whether the missing layer has arrived by then - on the schedule of parallel entries and on
            # refresh copies that recurse (see +repaired); the design predicts one of the admissible outcomes
            out.append("+repaired")
            break
        if {x[:4] for x in ps} != {x[:4] for x in os_} or any(x[4] == 1 and x not in os_ for x in ps):
            out.append("tags")
            DRIFT_SAMPLES.append({"id": scn["id"], "run": i + 1, "mode": e["mode"], "only_predicted": sorted(ps - os_)[:6],
                                  "only_observed": sorted(os_ - ps)[:6]})
        elif ps != os_:
            # a holed image was completed although the design left it alone (a refresh copy recurses into the
            # layers when the source manifest had to be fetched with GET): more than was predicted, not drift
            out.append("+repaired")
            break       # the later runs start from a state the design did not predict
        elif p["nw"] != nputs[i]:
            out.append("writes")
    return out


def run(ctx):
    thorough = ctx.thorough
    ctx.build("c18drv")
    ctx.build_repo_cmd("./cmd/regsync", "regsync")

    # 1. the design spec, exhaustively
    mc = [ctx.tlc("RegSyncMC", "C18_mc_quick.cfg", workers=8,
                  label="filters x decisions x histories x parallel entries x registry entries x alternations (repaired readings)")]
    mc.append(ctx.tlc("RegSyncMC", "C18_live.cfg", workers=4, label="every run terminates, parallel 0-4"))
    if thorough:
        mc.append(ctx.tlc("RegSyncMC", "C18_mc_full.cfg", workers=12, timeout=3000,
                          label="one tag: all options x one- and two-run histories"))
        mc.append(ctx.tlc("RegSyncMC", "C18_mc_s14fixed.cfg", workers=8, timeout=3000,
                          label="all 2-3 element alternations over 5 tags as allow and deny list, anchored reading"))
    known_cex = {}
    cex = [("C18_mc_s14.cfg", "PostOk", "filter anchoring as found before 798ad2f (C18-1 / S14)"),
           ("C18_mc_bkforce.cfg", "BackupOk", "forced platform copy skips the backup, as found before 749f3ad (C18-2)")]
    if thorough:
        cex.append(("C18_mc_sharedbk.cfg", "BackupOk", "two entries sharing one backup name race"))
    for cfg, inv, what in cex:
        r = ctx.tlc("RegSyncMC", cfg, workers=2, allow_violation=True, label="expected counterexample: " + what)
        if r["violated"] != inv:
            raise vlib.ToolError("%s: expected a counterexample to %s, got %s - the design spec no longer shows: %s"
                                 % (cfg, inv, r["violated"], what))
        known_cex[cfg] = r["violated"]
    states = sum(r["distinct"] for r in mc)
    trans = sum(r["generated"] for r in mc)

    # 2. scenarios: behaviours of the design with its predictions
    n_rand, n_space = (4000, 2000) if thorough else (320, 200)
    scns = []
    for cfg, n, tag in (("C18_gen.cfg", n_rand, "r"), ("C18_gen_space.cfg", n_space, "s")):
        g = ctx.tlc_scenarios("RegSyncGen", cfg, workers=1, simulate="num=%d" % n, depth=600,
                              extra=["-seed", str(ctx.seed)], label="generator " + cfg, timeout=1500)
        for i, s in enumerate(g["scenarios"]):
            s["id"] = "%s%d" % (tag, i)
            scns.append(s)
    if len(scns) < (n_rand + n_space) * 0.9:
        raise vlib.ToolError("generators produced only %d scenarios" % len(scns))
    # While a finding is recorded as `known` (not yet fixed), scenarios in its input class are validated in
    # their own small batch (capped; the surplus of the alternation class is re-spelled with a group, the
    # surplus of the forced platform class is not run).  Once it is `fixed` nothing is set apart: every
    # scenario runs as generated and a regression is reported like any other violation.
    open_ids = {k["id"] for k in ctx.load_known().get("findings", []) if k.get("property") == "C18" and k.get("status") == "known"}
    part_alt = "C18-1-filter-anchoring" in open_ids
    part_force = "C18-2-forced-platform-copy-no-backup" in open_ids
    cap = 20 if thorough else 4          # per class and per generator
    n_alt = n_force = respelled = 0
    taken = {}
    for s in scns:
        s["suspect"] = ""
        src = s["id"][0]
        fe, ae = force_exposed(s), alt_exposed(s)
        n_force += fe
        n_alt += ae and not fe
        if fe and part_force:
            taken[(src, "force")] = taken.get((src, "force"), 0) + 1
            s["suspect"] = "force" if taken[(src, "force")] <= cap else "skip"
        elif ae and part_alt:
            taken[(src, "alt")] = taken.get((src, "alt"), 0) + 1
            if taken[(src, "alt")] <= cap:
                s["suspect"] = "alt"
            else:
                respelled += 1
                s["nodrift"] = True
                for e in s["conf"]["entries"]:
                    for key in ("allow", "deny", "rallow", "rdeny"):
                        for f in e[key]:
                            if f["style"] == "alt":
                                f["style"] = "group"
    run_scns = [s for s in scns if s["suspect"] != "skip"]
    scn_file = ctx.path("c18", "scn.jsonl")
    with open(scn_file, "w") as f:
        for s in run_scns:
            for st in s["steps"]:
                if st.get("fault"):
                    st["fault"].pop("hit", None)
            f.write(json.dumps({k: s[k] for k in ("id", "conf", "src", "tgt", "steps", "env")}) + "\n")

    # 3. the real binary
    out = ctx.path("c18", "traces.jsonl")
    ctx.run(["c18drv", "-in", scn_file, "-out", out, "-regsync", ctx.bin + "/regsync", "-work", ctx.path("c18", "work", "x"),
             "-j", "8"], timeout=3000)
    by_id = {s["id"]: s for s in run_scns}
    traces, suspects = [], []
    runs = 0
    modes = {}
    drift = {}
    exact = 0
    kinds = set()
    extra_repairs = 0
    env_seen = {}
    timeouts = []
    faults = {"armed": 0, "hit": 0, "hit_exit0": 0, "hit_exit_nonzero": 0, "by_class_hit": {}, "by_kind_hit": {}, "by_entry_type_hit": {},
              "design_agrees_on_hit": 0, "design_differs_on_hit": 0}
    for t in load_traces(out):
        m = t.get("meta", {})
        if "timeout" in m:
            # a run that hangs is a tool problem, never a verdict - but it must not hide what the other
            # scenarios show: the trace is set aside and the error raised after validation if nothing
            # was rejected (a change that makes failing runs hang usually also breaks runs that end)
            timeouts.append("%s (%s)" % (m["timeout"], t["id"]))
            continue
        if "noreq" in m:
            raise vlib.ToolError("regsync never reached the model registries: %s (%s)" % (m["noreq"], t["id"]))
        s = by_id[t["id"]]
        tr = {"id": t["id"], "events": t["events"], "header": t["header"], "scenario": s,
              "stderr": {k: v.get("stderr", "")[-600:] for k, v in m.items() if k.startswith("run")}}
        (suspects if s["suspect"] else traces).append(tr)
        for e in t["events"]:
            if e["ev"] == "end":
                runs += 1
                modes[e["mode"]] = modes.get(e["mode"], 0) + 1
        for k, v in m.items():
            fr = v.get("fault") if isinstance(v, dict) else None
            if fr:
                faults["armed"] += 1
                if fr["hit"]:
                    faults["hit"] += 1
                    faults["hit_exit0" if v["exit"] == 0 else "hit_exit_nonzero"] += 1
                    for key, val in (("by_class_hit", fr["reg"] + ":" + fr["cls"]), ("by_kind_hit", fr["kind"]),
                                     ("by_entry_type_hit", "+".join(sorted({e["type"] for e in s["conf"]["entries"]})))):
                        faults[key][val] = faults[key].get(val, 0) + 1
        if not s.get("nodrift"):
            d = drift_of(s, t["events"], m)
            if "+repaired" in d:
                extra_repairs += 1
                d = [x for x in d if x != "+repaired"]
            if "+fault-both" in d:
                faults["design_agrees_on_hit"] += 1
            if "+fault-one" in d:
                faults["design_differs_on_hit"] += 1
            d = [x for x in d if not x.startswith("+fault")]
            if d:
                for k in set(d):
                    drift[k] = drift.get(k, 0) + 1
            else:
                exact += 1
        c = s["conf"]
        kinds.add(json.dumps([c["parallel"] > 0, [[e["type"], len(e["allow"]), len(e["deny"]), e["platform"], e["mts"], e["backup"],
                                                   e["referrers"], e["digestTags"], e["fastCheck"], e["force"]] for e in c["entries"]],
                              [st["mode"] or st["op"] for st in s["steps"]],
                              [[st["fault"]["reg"], st["fault"]["cls"], st["fault"]["kind"]] for st in s["steps"] if st.get("fault")]]))
        for k, v in s["env"].items():
            env_seen.setdefault(k, {})
            env_seen[k][str(v)] = env_seen[k].get(str(v), 0) + 1

    # 4. trace validation against (P)
    rejected = []
    accepted = 0
    for batch in (traces, suspects):
        if not batch:
            continue
        a, rj = ctx.validate_batch("RegSyncTrace", "C18_trace.cfg", batch, timeout=3000, max_reports=(12 if batch is traces else 4 * cap + 4))
        accepted += a
        rejected += rj
    for r in rejected:
        t = r["trace"]
        sig, detail = signature(r)
        if sig is None or detail.startswith("tooling:"):
            raise vlib.ToolError("trace %s malformed: %s at %s" % (t["id"], detail, json.dumps(r["event"])[:400]))
        ev = r["event"] or {}
        what = "%s (trace %s, %s event %s)" % (detail, t["id"], ev.get("ev"), json.dumps(
            {k: ev[k] for k in ev if k not in ("tags", "repos")})[:300])
        ctx.report(sig, what, {"scenario": {k: t["scenario"][k] for k in ("id", "conf", "src", "tgt", "steps", "env")},
                               "events": t["events"], "rejected_at": r["line"], "stderr": t["stderr"],
                               "cmd": "tools/check C18 --replay <this file>"})

    if timeouts:
        if not ctx.violations:
            raise vlib.ToolError("regsync did not finish: %s" % "; ".join(timeouts[:3]))
        vlib.log("C18: %d scenario(s) set aside, regsync did not finish: %s" % (len(timeouts), "; ".join(timeouts[:3])))

    # 5. binding demos: corrupted copies of an accepted trace must be rejected
    if not ctx.violations:
        rej_ids = {r["trace"]["id"] for r in rejected}
        ok = [t for t in traces if t["id"] not in rej_ids]

        def find(pred):
            for t in ok:
                for i, e in enumerate(t["events"]):
                    if pred(t, i, e):
                        return copy.deepcopy(t), i
            raise vlib.ToolError("binding demo: no suitable accepted trace")

        demos = []
        # a mirrored tag reported with another image at the end of a successful run
        t, i = find(lambda t, i, e: e["ev"] == "tagput" and e["reg"] == "tgt" and t["events"][i - 1]["ev"] == "begin"
                    and t["events"][i - 1]["mode"] == "once" and t["events"][i + 1]["ev"] == "end" and t["events"][i + 1]["exit"] == 0
                    and e["tag"] in ("v1", "v10", "xv2", "v2", "latest"))
        w = t["events"][i]
        w["img"] = "C" if w["img"] != "C" else "B"
        for x in t["events"][i + 1]["tags"]:
            if x[:3] == [w["reg"], w["repo"], w["tag"]]:
                x[3] = w["img"]
        t["id"] = "demo-wrong-image"
        demos.append(t)
        # a write during a check run
        t, i = find(lambda t, i, e: e["ev"] == "end" and e["mode"] == "check")
        t["events"][i]["nwr"] = 1
        t["id"] = "demo-check-wrote"
        demos.append(t)
        # the backup written after the overwrite instead of before
        t, i = find(lambda t, i, e: e["ev"] == "tagput" and i + 1 < len(t["events"]) and t["events"][i + 1]["ev"] == "tagput"
                    and e["tag"] == "bak-" + t["events"][i + 1]["tag"] and e["repo"] == t["events"][i + 1]["repo"]
                    and e["reg"] == t["events"][i + 1]["reg"] and e["img"] != t["events"][i + 1]["img"])
        t["events"][i], t["events"][i + 1] = t["events"][i + 1], t["events"][i]
        t["id"] = "demo-backup-late"
        demos.append(t)
        # a bystander repository with other bytes after the run
        t, i = find(lambda t, i, e: e["ev"] == "end" and e["exit"] == 0 and e["mode"] == "once")
        for x in t["events"][i]["repos"]:
            if x[:2] == ["tgt", "keep"]:
                x[2] = "0" * 16
        t["id"] = "demo-bystander"
        demos.append(t)
        for d in demos:
            a, rj = ctx.validate_batch("RegSyncTrace", "C18_trace.cfg", [d])
            if not rj:
                raise vlib.ToolError("binding demo %s was accepted: the trace spec does not bind" % d["id"])

    sample = []
    for t in (traces[:1] + suspects[:1]):
        sample.append({"id": t["id"], "conf": t["scenario"]["conf"], "steps": t["scenario"]["steps"],
                       "events": [{k: (v if k not in ("tags", "repos") else len(v)) for k, v in e.items()} for e in t["events"][:30]]})
    cov = {
        "states": states, "transitions": trans,
        "traces_validated_against_impl": accepted,
        "samples": sample,
        "evaluations": runs,
        "distinct_nontrivial": len(kinds),
        "rule": "an evaluation = one exec of the real regsync binary (once / once --missing / check) on a TLC generated "
                "configuration and population; a trace = one scenario of 1-4 such runs with source tags moving in between; "
                "distinct = distinct (entry shapes, option values, run/move sequence) combinations",
        "exhaustive": False,
        "tlc_scenarios": len(scns), "scenarios_run": len(run_scns), "runs_by_mode": modes,
        "finding_class_scenarios": {"alt_filter": n_alt, "platform_force": n_force, "validated_separately": len(suspects),
                                  "respelled_with_group": respelled, "not_run": len(scns) - len(run_scns)},
        "design_prediction_exact": exact, "design_drift": drift, "completed_beyond_prediction": extra_repairs,
        "environment_values_run": env_seen, "scripted_faults": faults, "design_drift_samples": DRIFT_SAMPLES[:5],
        "expected_counterexamples": known_cex,
        "rejected": len(rejected), "runs_not_finished": len(timeouts),
        "binary": "regsync built from the tree under test (go build -tags verif ./cmd/regsync), exec'ed against "
                  "zzverif/simreg served on 127.0.0.1 listeners",
        "entry_points": ["regsync once", "regsync once --missing", "regsync check"],
    }
    assumptions = [
        "regular expressions are the subsets of a 5 tag / 4 repository pool they match, in three spellings "
        "(top level alternation, group, class / quantifier forms); the spelling is self-checked against the subset",
        "targets and backup names of different entries are disjoint (two entries sharing a backup name race when "
        "parallel >= 2: C18_mc_sharedbk.cfg)",
        "the initial target populations are closure complete (what a registry guarantees)",
        "at most one scripted fault per run (an error status for the nth request of one class, lasting for that resource; "
        "404 / 410 / 416 / 403 / 400 / 405, transient 500 / reset), on the mirror path only: the HEAD of the target tag and "
        "the backup copy are never faulted (the code reads the first as `absent` and only warns about the second, by design); "
        "no cancellation, no truncated bodies (C04)",
        "with a platform configured a target that already holds the source index and is left alone counts as mirrored",
        "`once --missing` runs are held to untouched / backup / check obligations only",
        "interleavings of parallel entries are explored exhaustively in the design spec only; real runs take the "
        "schedule the Go runtime gives them",
        "source tags move only between runs",
    ]
    if drift:
        vlib.log("C18: design-spec drift (not a violation): %s" % drift)
        for d in DRIFT_SAMPLES[:5]:
            vlib.log("  drift sample: %s" % json.dumps(d))
    return "model_checking", cov, assumptions

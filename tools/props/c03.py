"""C03 - a successful image copy leaves the complete, byte-identical image at the target.

(D) spec/ImageCopy.tla is model checked fault-free over the graph catalogue, the endpoint pairings,
option sets, feature sets and pre-existing target states (all interleavings on the small shapes, a
partial-order reduction on the larger ones); TLC-generated request schedules and a matrix of
shape x pairing x options x features x pre-existing state x tag state under seeded random, arrival
order and ungated schedules are run on the real regclient.ImageCopy; at the result the raw target is
walked independently (encoding/json, sha256 against the source) and TLC judges the facts against
the C03 obligation of (P) spec/CopyProp.tla.  See design.d/C03-C04-C14.md.
"""
from props import copy_common as cc
import vlib


def run(ctx):
    e = cc.Engine(ctx, "C03")
    e.setup()
    cc.check_shapes(e)
    if ctx.replay:
        pairs, acc, rej = cc.replay(e)
        return "model_checking", {"traces_validated_against_impl": acc, "rejected": len(rej), "replayed": 1,
                                  "states": 0, "transitions": 0}, []
    th = ctx.thorough
    rng = e.rng

    # 1. the design spec, fault-free
    runs = [("ImageCopyMC", "C03_mc_quick.cfg", "img / idx2 / dtag x 2 pairings x 4 option sets x corner targets x 2 tag states, reduced", {}),
            ("ImageCopyMC", "C03_mc_refs.cfg", "art with referrers, two registries, reduced", {}),
            ("ImageCopyMC", "C03_mc_refs2.cfg", "artshare (separate referrer target, shared config blob; two filter options), registry and layout target, reduced", {}),
            ("ImageCopyMC", "C03_mc_refs3.cfg", "art with two referrer filter options, two registries, reduced", {}),
            ("ImageCopyMC", "C03_mc_loop.cfg", "sigloop (digest tag whose index lists its subject) / artshare with left-over fall-back tags, digest tags +- referrers, registry / layout, reduced", {}),
            ("ImageCopyMC", "C03_mc_full.cfg", "img / inline, every pre-existing subset, full interleaving", {})]
    if th:
        runs += [("ImageCopyMC", "C03_mc_t1.cfg", "11 shapes x 4 pairings x 6 option sets x corner targets x 2 tag states, reduced", {"timeout": 3000}),
                 ("ImageCopyMC", "C03_mc_t2.cfg", "art / artidx with referrers (all / filtered), referrers API on / off, reduced", {"timeout": 3000}),
                 ("ImageCopyMC", "C03_mc_t3.cfg", "5 small shapes, throttle 3, target by tag / digest, full interleaving", {"timeout": 3000}),
                 ("ImageCopyMC", "C03_mc_t4.cfg", "4 shapes x 4 pairings x 4 option sets x 5 feature sets x source by tag / digest, reduced", {"timeout": 3000}),
                 ("ImageCopyMC", "C03_mc_t5.cfg", "diamond / diamond2 (one manifest under two parents) x 4 pairings x 4 option sets, reduced", {"timeout": 3000}),
                 ("ImageCopyMC", "C03_mc_t6.cfg", "artshare: separate referrer target (+ force), 4 pairings, corner targets, referrers API on / off, full interleaving", {"timeout": 3000}),
                 ("ImageCopyMC", "C03_live.cfg", "termination under fairness (img, 1 fault + cancel, throttle 2)", {"workers": 8, "timeout": 3000})]
    mc, states, trans = cc.run_mc(ctx, runs)
    por = cc.por_crosscheck(ctx) if th else None
    vac = cc.action_coverage(ctx) if th else None
    xref = cc.xref_probe(e) if th else None

    # 2. scenarios
    scripts = cc.tlc_scripts(e, "C03_gen.cfg", 1500 if th else 300, "tlc")
    mx = e.matrix(e.shapes, cc.PAIRS, 12 if th else 5, ["random", "fifo", "ungated"], "mx", full=th)
    keyf = [lambda s: (s["shape"], s["pair"]), lambda s: (s["shape"], cc.optsig(s)),
            lambda s: (s["shape"], s["headdigest"], s["refapi_src"], s["refapi_tgt"], s["mount"]),
            lambda s: (s["shape"], s["tag0"], bool(s["init"])), lambda s: (s["pair"], s["mode"]),
            lambda s: (s["shape"], s.get("bydigest", 0), s.get("tgtbydigest", 0))]
    mx = cc.cover_sample(rng, mx, 14000 if th else 1600, keyf)
    # the seeded-candidate classes: a (sub)index the target already holds + referrers below it; a foreign
    # layer whose url answers
    extra = []
    for pr in ("tworeg", "dir2dir", "reg2dir", "samereg"):
        for byd in (0, 1):
            for init in (["I", "M1", "M2", "C1", "C2", "L1"], ["I"], ["I", "M1", "M2"]):
                extra.append(e.scn("artidx", pr, "held-index", opts={"referrers": 1}, init=init, tag0="same", bydigest=byd))
            extra.append(e.scn("ext", pr, "foreign", opts={"inclext": 1}, extup=1, bydigest=byd))
            # two referrer filter options with disjoint selections, both orders; referrer target != image target
            # with a config blob shared between the image and its referrer
            for f1, f2 in ((cc.AT_SBOM, cc.AT_SIG), (cc.AT_SIG, cc.AT_SBOM)):
                for sh in ("art", "artidx"):
                    extra.append(e.scn(sh, pr, "filters", opts={"referrers": 1, "reffilter": f1, "reffilter2": f2}, bydigest=byd,
                                       refapi_src=rng.choice([0, 1]), refapi_tgt=rng.choice([0, 1])))
            for sh in ("artshare", "art"):
                for mode in ("random", "fifo", "ungated"):
                    extra.append(e.scn(sh, pr, "reftgt", opts={"referrers": 1, "reftgt": 1}, bydigest=byd, mode=mode,
                                       refapi_src=rng.choice([0, 1]), refapi_tgt=rng.choice([0, 1]), mount=rng.choice([0, 1])))
    # a target without referrers API and several referrers of one subject: the PUT of the fall-back tag held back
    # so that overlapping read-modify-writes (if the client allows them) lose an entry; plus seeded random overlaps
    for sh, subj in (("art", "M"), ("artidx", "I"), ("artidx", "M1"), ("sha512", "M5"), ("artshare", "A")):
        for pr in ("tworeg", "samereg", "dir2reg"):
            for ra in (0, 1):
                extra.append(e.scn(sh, pr, "fb-overlap", opts={"referrers": 1}, refapi_src=ra, refapi_tgt=0, mode="delay",
                                   hold=[{"host": "tgt", "class": "manifest_put", "n": "fb:" + subj}]))
                extra.append(e.scn(sh, pr, "fb-overlap", opts={"referrers": 1}, refapi_src=ra, refapi_tgt=0, mode="random"))
    # listing orders with digest tags / referrers; a cached client with a history
    for lo in ("rev", "ins", "rand"):
        for sh in ("dtag", "loop", "art"):
            for pr in ("tworeg", "samereg", "reg2dir"):
                extra.append(e.scn(sh, pr, "listorder", opts={"dtags": 1} if sh != "art" else {"referrers": 1, "dtags": 1},
                                   listorder=lo, pagesize=0, refapi_src=rng.choice([0, 1])))
    extra += e.client_history("history")
    extra += e.round4("round4")
    # (round 5) warm caches of the same client (earlier listings / HEADs); a second user of the client closing the
    # layout target while the copy runs; the repeat copy
    extra += e.warm_cache("warm")
    cl = e.closers("closer")
    extra += cl if th else cc.cover_sample(rng, cl, 170, [lambda s: (s["shape"], s["pair"], bool(s.get("closer_cb"))),
                                                          lambda s: (s["closer_op"], (s.get("closer") or {}).get("class"))])
    extra += cc.cover_sample(rng, e.repeats("repeat"), 10000 if th else 60, [lambda s: s["shape"]])
    res = e.run(scripts + mx + extra, "fault-free")

    # 3. validation against (P)
    acc, rej = e.validate(res, "C03", max_reports=40)

    # 4. binding demo
    e.check_stalls()
    demos = e.binding_demo(res) if not ctx.violations else []

    cov = cc.summarize(res)
    cov["preparation_copies_that_did_not_return"] = {"count": len(e.prior_hangs), "first": e.prior_hangs[:3]}
    cov.update({
        "states": states, "transitions": trans, "traces_validated_against_impl": acc, "rejected": len(rej),
        "samples": cc.samples_of(res), "evaluations": len(res), "distinct_nontrivial": cov.pop("distinct"),
        "rule": "an evaluation = one fault-free ImageCopy on the real code (shape, pairing, options, features, pre-existing "
                "target, tag state, schedule); the final raw target is walked independently and compared by sha256 with the "
                "source; distinct = distinct (configuration, request sequence)",
        "exhaustive": False, "model_vs_code": cc.model_agreement(res), "binding_demos": demos,
        "reduction_crosscheck_states": por, "action_coverage": vac, "xref_deadlock": xref, "entry_points": cc.ENTRY_POINTS,
    })
    return "model_checking", cov, cc.ASSUMPTIONS

"""C19 - a dry run of the scripting tool (regbot) changes nothing.

(D) spec/Regbot.tla (alphabet RegbotAPI, free-script model checking RegbotMC) describes the code since
fix 003c17b (every write binding tests the dry-run switch) and is checked by TLC: DryNoChange,
ThrottleOk, NotBlocked, ReadSame hold as invariants.  Three switches re-create other behaviours and
must be noticed by the spec (model sanity): the code as found before the fix (Ungated: finding C19-1,
seeded/fixrev-C19-1), a throttle slot kept on an error path (LeakOnErr: seeded/C19-1), a stubbed read.
spec/RegbotGen.tla enumerates the regbot configs (worlds x scripts x parallel) together with what
the design spec expects; harness/cmd/c19drv renders each to Lua/YAML and runs the REAL regbot
binary `once --dry-run` (under strace) and `once` against model registries on 127.0.0.1 and a
layout directory; every recorded trace is validated by TLC against (P) spec/RegbotProp.tla through
spec/RegbotTrace.tla.  Verdicts come only from rejected traces.
"""
import copy
import json
import os
import random
import re

import vlib

ASFOUND_UNGATED = {"manifest.put", "m:put", "blob.put", "b:put", "image.importTar"}


DIMS = ("mt", "feat", "tmo", "cmd", "verb", "logfmt", "cfgin")
DIM_DEFAULT = ("oci", "full", "default", "once", "info", "json", "file")


def cfg_key(s):
    return json.dumps([s["world"], s["par"], s["scripts"]] + [s.get(d, "") for d in DIMS], sort_keys=True)


def merge_modes(scns):
    """TLC prints one line per (config, mode); merge them into one scenario per config."""
    out = {}
    for s in scns:
        k = cfg_key(s)
        c = out.setdefault(k, {"world": s["tags"], "wname": s["world"], "par": s["par"], "scripts": s["scripts"],
                               "mt": s["mt"], "feat": s["feat"], "tmo": s["tmo"], "cmd": s["cmd"], "verb": s["verb"], "logfmt": s["logfmt"],
                               "cfgin": s["cfgin"], "exp": {}, "final": {}, "status": {}})
        c["exp"][s["mode"]] = s["exp"]
        c["final"][s["mode"]] = s["final"]
        c["status"][s["mode"]] = s["status"]
    res = []
    for k in sorted(out):
        c = out[k]
        if set(c["exp"]) != {"dry", "nor"}:
            raise vlib.ToolError("generator did not finish both modes of a config: %s" % k[:300])
        res.append(c)
    return res


def ops_of(c):
    return {st["op"] for s in c["scripts"] for st in s}


def family(c):
    n = len(c["scripts"])
    if n > 1:
        return "isolation"
    s = c["scripts"][0]
    ops = [st["op"] for st in s]
    if "foreach" in ops:
        return "loop"
    if any(o in ("if.head", "ifnot.head") for o in ops):
        return "guard"
    return "len%d" % len(s)


def select(ctx, confs, rng):
    """quick: a seeded sample that always holds, for every operation of the alphabet, one config
    using it (on each kind of place where that is possible), every isolation config whose failing
    script fails while holding the throttle, plus a stratified random sample."""
    if ctx.thorough:
        return confs
    chosen = {}
    by_op = {}
    for i, c in enumerate(confs):
        if len(c["scripts"]) == 1 and len(c["scripts"][0]) <= 2:
            st = c["scripts"][0][-1]
            place = "lay" if ("lay" in st["x"] or "lay" in st["y"]) else "reg"
            by_op.setdefault((st["op"], place), []).append(i)
    for key in sorted(by_op):
        chosen[rng.choice(by_op[key])] = True
        chosen[by_op[key][0]] = True
    # every value of every config dimension, in every family it is generated for
    by_dim = {}
    for i, c in enumerate(confs):
        for d, v in (("world", c["wname"]), ("mt", c["mt"]), ("feat", c["feat"]), ("tmo", c["tmo"]), ("cmd", c["cmd"]),
                     ("verb", c["verb"]), ("logfmt", c["logfmt"]), ("cfgin", c["cfgin"])):
            if v not in ("A", "oci", "full", "default", "once", "info", "json", "file"):
                by_dim.setdefault((d, v, family(c)), []).append(i)
    for key in sorted(by_dim):
        for i in vlib.sample(rng, by_dim[key], 6):
            chosen[i] = True
    fams = {}
    for i, c in enumerate(confs):
        fams.setdefault(family(c), []).append(i)
    quota = {"isolation": 50, "loop": 25, "guard": 15, "len1": 40, "len2": 40, "len3": 15, "len4": 25}
    for f in sorted(fams):
        for i in vlib.sample(rng, fams[f], quota.get(f, 10)):
            chosen[i] = True
    # failures while the throttle is held (image.config / <manifest>:config on an index or a head
    # object) followed by a script that starts with image.copy: sequential, parallel 1, parallel 2
    for i, c in enumerate(confs):
        if len(c["scripts"]) > 1:
            first = c["scripts"][0]
            if first[-1]["op"] in ("m:config", "image.config") and len(first) == 2 and first[0]["x"].startswith("a1") \
                    and c["scripts"][-1][0]["op"].startswith("image.copy") and (len(c["scripts"]) == 2 or c["par"] == 2) \
                    and c["tmo"] in ("default", "none" if c["par"] == 1 else "default"):
                chosen[i] = True
    # round 5: every config generated for the registry rate-limit headers (absent is the default:
    # enough / too low never recovering / too low then recovering), for a failing read of a blob BODY
    # (wrong bytes / cut off; as often as the per-host limit of concurrent requests, then a healthy
    # script) and for the host setting reqConcurrent: 1
    for i, c in enumerate(confs):
        if c["feat"] not in ("full", "min"):
            chosen[i] = True
    # producer -> write pairs: what is written (object of a get of an image / of an index / of a head
    # request / blob / config) x where to, relative to where it came from (same repository, other
    # repository of the registry, other registry, layout); the first config of every class
    def loc_of(x):
        return x.split(":")[0]

    def relation(src, tgt):
        if tgt == "lay" or src == "lay":
            return "lay" if tgt == "lay" else "from-lay"
        if src == tgt:
            return "same-repo"
        return "same-registry" if src[0] == tgt[0] else "other-registry"
    seen = set()
    for i, c in enumerate(confs):
        if len(c["scripts"]) == 1 and len(c["scripts"][0]) == 2 and (c["wname"], c["mt"], c["feat"], c["cmd"]) == ("A", "oci", "full", "once"):
            a, b = c["scripts"][0]
            if b["op"] in WRITE_OPS and a["op"] not in WRITE_OPS and loc_of(a["x"]) in ("a1", "a2", "b1", "lay"):
                tgt = loc_of(b["y"] if b["op"].startswith("image.copy") else b["x"])
                if tgt not in ("a1", "a2", "b1", "lay"):
                    tgt = loc_of(a["x"])  # the object itself names the place (m:delete, tag.delete($m), ...)
                key = (a["op"], a["x"].split(":")[-1] if ":" in a["x"] else a["y"], b["op"], b["y"] if b["op"] in ("blob.put", "b:put") else "",
                       relation(loc_of(a["x"]), tgt))
                if key not in seen:
                    seen.add(key)
                    chosen[i] = True
    # every verbosity with every write binding (registry and layout; alone, fed by a producer, in a
    # loop, behind a guard) and with a failing script next to another one
    for i, c in enumerate(confs):
        if c["verb"] != "info" and c["logfmt"] == "json" and c["cfgin"] == "file":
            if len(c["scripts"]) == 1 or c["verb"] in ("warn", "error"):
                chosen[i] = True
    # every way of aborting (error of a string / table / number / ..., runtime fault, stack overflow) in
    # front of another script: sequential, parallel 1, parallel 2, and under `regbot server`
    seen = set()
    for i, c in enumerate(confs):
        if len(c["scripts"]) > 1 and c["tmo"] == "default" and len(c["scripts"][0]) == 1 and c["scripts"][0][0]["op"].startswith("error") \
                and c["scripts"][-1][0]["op"].startswith("image.copy"):
            key = (c["scripts"][0][0]["op"], c["par"], c["cmd"])
            if key not in seen:
                seen.add(key)
                chosen[i] = True
    return [confs[i] for i in sorted(chosen)]


def expected_abs(exp, nscripts):
    """model observations -> {(s,k): (status, 'v1|v2')} in the shape the driver logs"""
    out = {}
    for o in exp:
        if o["op"] == "" or o["s"] > nscripts:
            continue
        key = (o["s"], o["k"])
        st, vals = out.get(key, ("norun", []))
        if o["st"] == "norun":
            out.setdefault(key, ("norun", []))
            continue
        if o["st"] == "err":
            st = "err"
            vals = vals + ["err"]
        else:
            if st != "err":
                st = "ok"
            vals = vals + [o["val"]]
        out[key] = (st, vals)
    return {k: (v[0], "|".join(v[1])) for k, v in out.items()}


def norm_tags(t):
    return {loc: {k: v for k, v in tags.items() if v != "-"} for loc, tags in t.items()}


def drift_of(conf, trace):
    """compare the design spec's expectation with the real run (evidence only)."""
    notes = []
    n = len(conf["scripts"])
    for mode, st_f, abs_f in (("dry", "dryst", "dryabs"), ("nor", "norst", "norabs")):
        exp = expected_abs(conf["exp"][mode], n)
        if conf["par"] > 0 and mode == "nor" and any(vlib_kind(st["op"]) == "write" for s in conf["scripts"] for st in s):
            continue  # concurrent writers: the model ran one of several possible schedules
        for e in trace["events"]:
            if e["ev"] != "stmt":
                continue
            want = exp.get((e["s"], e["k"]), ("norun", ""))
            got = (e[st_f], e[abs_f])
            if conf["feat"] == "min" and e["op"] == "repo.ls":
                continue  # pages of one entry: repo.ls returns the first page only, (D) does not model paging
            if conf["feat"].split("+")[0] in ("rl-low", "rl-rec", "dmg", "trunc"):
                continue  # (D) does not model rate limits / damaged blob bodies: the driver realises them
            if want != got:
                notes.append("%s %s s%d k%d: model %s, code %s" % (mode, e["op"], e["s"], e["k"], want, got))
        if not (conf["par"] > 0 and mode == "nor"):
            fin = trace["meta"].get(mode + "_final")
            if fin is not None and norm_tags(conf["final"][mode]) != {k: v for k, v in fin.items()}:
                notes.append("%s final world: model %s, code %s" % (mode, json.dumps(norm_tags(conf["final"][mode]), sort_keys=True),
                                                                  json.dumps(fin, sort_keys=True)))
    return notes


WRITE_OPS = {"tag.delete", "m:delete", "manifest.put", "m:put", "blob.put", "b:put", "image.copy", "image.copy+dt",
             "image.copy+fr", "image.copy+pf", "image.copy+ie", "image.importTar"}


def vlib_kind(op):
    return "write" if op in WRITE_OPS else "other"


def signature(r, conf):
    """stable class of a rejection: obligation + responsible function + kind of place."""
    ev = r["event"] or {}
    detail = (r["detail"] or r["reason"]).strip('"')
    if detail.startswith("dry-request"):
        return "dry-request:%s:reg" % ev.get("by", "?")
    if detail.startswith("dry-layout"):
        return "dry-layout:%s:lay" % ev.get("by", "?")
    if detail == "read-same":
        return "read-same:%s" % ev.get("op", "?")
    if detail.startswith("isolation"):
        # how the prevented script ended; when it failed inside one of its own calls (a blocked
        # throttle ends with the script's timeout) also the functions that failed in the other scripts
        mode = detail.split(":")[1]
        end = ev.get("dry" if mode == "dry" else "nor", "?")
        if end != "failed":
            crashed = any(e["ev"] == "run" and e["run"] == mode and e.get("crash") for e in r["trace"]["events"])
            return "%s:%s%s" % (detail, end, ":regbot-crashed" if crashed else "")
        s = ev.get("s", 1)
        failed = sorted({e["op"] for e in r["trace"]["events"]
                         if e["ev"] == "stmt" and e["s"] != s and (e["dryst"] if mode == "dry" else e["norst"]) == "err"})
        return "%s:failed:after:%s" % (detail, "+".join(failed) or "?")
    if detail == "stops-alone":
        s = ev.get("s", 1)
        failed = sorted({e["op"] for e in r["trace"]["events"]
                         if e["ev"] == "stmt" and e["s"] == s and (e["dryst"] == "err" or e["norst"] == "err")})
        return "stops-alone:%s" % ("+".join(failed) or "?")
    return detail


# every binding the sandbox exposes -> the operation of the alphabet (RegbotAPI.tla) that exercises
# the Go function behind it
BINDINGS = {
    "repo.ls": "repo.ls", "tag.ls": "tag.ls", "tag.delete": "tag.delete",
    "manifest.get": "manifest.get", "manifest.getList": "manifest.getList", "manifest.head": "manifest.head",
    "manifest.put": "manifest.put", "manifest.__tostring": "manifest.get",
    "manifest:config": "m:config", "manifest:delete": "m:delete", "manifest:export": "m:export", "manifest:get": "m:get",
    "manifest:head": "m:head", "manifest:put": "m:put", "manifest:ratelimit": "m:ratelimit",
    "manifest:ratelimitWait": "m:ratelimitWait",
    "image.config": "image.config", "image.copy": "image.copy", "image.exportTar": "image.exportTar",
    "image.importTar": "image.importTar", "image.manifest": "image.manifest", "image.manifestHead": "image.manifestHead",
    "image.manifestList": "image.manifestList", "image.ratelimitWait": "image.ratelimitWait",
    "imageconfig.__tostring": "image.config", "imageconfig:export": "c:export",
    "blob.get": "blob.get", "blob.head": "blob.head", "blob.put": "blob.put",
    "blob:get": "b:get", "blob:head": "b:head", "blob:put": "b:put",
    "reference.new": "reference.new", "reference.close": "reference.close", "reference.__tostring": "reference.new",
    "reference:close": "r:close", "reference:digest": "r:digest", "reference:tag": "r:tag",
    "log": "log",
}
LUA_STD = {"_G", "_VERSION", "_GOPHER_LUA_VERSION", "_printregs", "assert", "collectgarbage", "dofile", "error", "getfenv", "getmetatable",
           "ipairs", "load", "loadfile", "loadstring", "module", "newproxy", "next", "pairs", "pcall", "print", "rawequal", "rawget",
           "rawset", "require", "select", "setfenv", "setmetatable", "tonumber", "tostring", "type", "unpack", "xpcall",
           "channel", "coroutine", "debug", "io", "math", "os", "package", "string", "table", "goto"}
INTROSPECT = """
local std = {}
for w in string.gmatch("%s", "%%S+") do std[w] = true end
for name, t in pairs(_G) do
  if not std[name] then
    if type(t) == "function" then log("API|" .. name) end
    if type(t) == "table" then
      for k, v in pairs(t) do
        if type(v) == "function" then log("API|" .. name .. "." .. k) end
        if k == "__index" and type(v) == "table" then
          for k2, _ in pairs(v) do log("API|" .. name .. ":" .. k2) end
        end
      end
    end
  end
end
"""


def check_alphabet(ctx, all_ops):
    """The sandbox of the binary under test is asked for its binding tables; a binding the alphabet
    does not know (a newly added function) makes the check out of date: tooling error, not silence."""
    d = ctx.path("c19", "api", "x")
    d = os.path.dirname(d)
    script = INTROSPECT % " ".join(sorted(LUA_STD))
    cfg = os.path.join(d, "api.yml")
    with open(cfg, "w") as f:
        f.write("version: 1\ndefaults:\n  skipDockerConfig: true\nscripts:\n  - name: api\n    script: |\n")
        for ln in script.strip().splitlines():
            f.write("      " + ln + "\n")
    r = ctx.run([os.path.join(ctx.bin, "regbot"), "once", "--dry-run", "--config", cfg, "--logopt", "json"],
                env={"HOME": d}, timeout=120, check=False)
    found = set()
    for ln in r.stderr.splitlines():
        try:
            j = json.loads(ln)
        except ValueError:
            continue
        msg = j.get("message", "")
        if msg.startswith("API|"):
            found.add(msg[4:])
    if r.returncode != 0 or len(found) < 20:
        raise vlib.ToolError("cannot list the sandbox bindings (rc=%d):\n%s" % (r.returncode, r.stderr[-2000:]))
    unknown = sorted(found - set(BINDINGS))
    if unknown:
        raise vlib.ToolError("the sandbox exposes bindings that are not in the alphabet of spec/RegbotAPI.tla "
                             "(add them to the spec, the generator and the driver): %s" % unknown)
    missing = sorted(b for b in BINDINGS if b not in found)
    uncovered = sorted(BINDINGS[b] for b in found if BINDINGS[b] != "log" and BINDINGS[b] not in all_ops)
    if uncovered:
        raise vlib.ToolError("bindings without a generated config: %s" % uncovered)
    return sorted(found), missing


def validate_all(ctx, traces, name="all"):
    """All traces in ONE TLC run of RegbotTrace with C19_trace_all.cfg: the monitor (P) does not stop
    at the first rejected event but prints <<"REJECT", line, obligation>> for every one and goes on
    (an unchanged tree already has dozens of rejections, all instances of the known S11).  Returns
    (number of traces without rejection, list of rejections in the shape of ctx.validate_batch)."""
    fn = ctx.path("traces", "RegbotTrace-%s.ndjson" % name)
    index = []
    with open(fn, "w") as f:
        for ti, t in enumerate(traces):
            hdr = {"ev": "reset", "trace": str(t["id"])}
            hdr.update(t.get("header", {}))
            f.write(json.dumps(hdr, sort_keys=True) + "\n")
            index.append((ti, -1))
            for ei, ev in enumerate(t["events"]):
                f.write(json.dumps(ev, sort_keys=True) + "\n")
                index.append((ti, ei))
    res = ctx.tlc("RegbotTrace", "C19_trace_all.cfg", workers=1, timeout=3000, record=False,
                  env={"VERIF_TRACE": fn, "JAVA_TOOL_OPTIONS": "-Dtlc2.tool.queue.IStateQueue=StateDeque -Xss64m"})
    out = res["output"]
    hw = re.findall(r'<<"HIGHWATER", (\d+), (\d+)>>', out)
    if not hw:
        raise vlib.ToolError("trace validation produced no HIGHWATER line:\n" + out[-3000:])
    reached, total = int(hw[-1][0]), int(hw[-1][1])
    if total != len(index) or reached != total + 1:
        raise vlib.ToolError("trace validation stopped at line %d of %d (%d written):\n%s" % (reached, total, len(index), out[-3000:]))
    ctx.cov["trace_states"] = ctx.cov.get("trace_states", 0) + res["distinct"]
    rejected = []
    bad_traces = set()
    for line, why in re.findall(r'<<"REJECT", (\d+), "([^"]*)">>', out):
        ti, ei = index[int(line) - 1]
        t = traces[ti]
        bad_traces.add(ti)
        rejected.append({"trace": t, "line": ei, "event": (t["events"][ei] if ei >= 0 else None), "reason": "rejected by (P)",
                         "detail": why, "state": ""})
    return len(traces) - len(bad_traces), rejected


def run(ctx):
    rng = random.Random(ctx.seed)
    ctx.build("c19drv")
    ctx.build_repo_cmd("./cmd/regbot", "regbot")

    replay_conf = None
    if ctx.replay:
        with open(ctx.replay) as f:
            replay_conf = json.load(f)["replay"]["config"]

    # 1. model checking of the design spec
    states = trans = 0
    cex_ops = []
    if replay_conf is None:
        mc = [ctx.tlc("RegbotMC", "C19_mc_quick.cfg", label="every script <= 2 statements, core alphabet", workers=8),
              ctx.tlc("RegbotMC", "C19_mc_throttle.cfg", label="2 concurrent scripts, parallel 1, throttled bindings and their failure paths", workers=8)]
        # model sanity: the switches that re-create defective behaviours must be noticed
        asf = ctx.tlc("RegbotMC", "C19_mc_asfound.cfg", label="model sanity: the gates as found before 003c17b (C19-1) -> DryNoChange",
                      allow_violation=True, workers=4)
        if asf["violated"] != "DryNoChange":
            raise vlib.ToolError("the design spec with the gates as found before the fix should violate DryNoChange, got %r" % asf["violated"])
        m = re.findall(r'op \|-> "([^"]+)"', asf["output"].split("is violated", 1)[1])
        cex_ops = sorted({o for o in m if o in ASFOUND_UNGATED})
        if not cex_ops:
            raise vlib.ToolError("as-found counterexample does not end in an ungated write binding")
        leak = ctx.tlc("RegbotMC", "C19_mc_leak.cfg", label="model sanity: image.config keeps the slot on error -> blocked",
                       allow_violation=True, workers=8)
        if not leak["violated"]:
            raise vlib.ToolError("the design spec does not notice a leaked throttle slot")
        stub = ctx.tlc("RegbotMC", "C19_mc_stub.cfg", label="model sanity: manifest.get / tag.ls answered by a stub in a dry run -> ReadSame",
                       allow_violation=True, workers=2)
        if stub["violated"] != "ReadSameMC":
            raise vlib.ToolError("the design spec does not notice a read binding that answers differently in a dry run")
        if ctx.thorough:
            for cfg, label in (("C19_mc_core3.cfg", "every script <= 3 statements, core alphabet"),
                               ("C19_mc_core4.cfg", "every script <= 4 statements, core alphabet"),
                               ("C19_mc_full.cfg", "every script <= 2 statements, full alphabet, loops with every body"),
                               ("C19_mc_throttle012.cfg", "2 scripts, parallel 0/1/2, throttled bindings"),
                               ("C19_mc_throttle3.cfg", "3 scripts of 1 statement, parallel 1/2, throttled bindings")):
                mc.append(ctx.tlc("RegbotMC", cfg, label=label, workers=8, timeout=3000))
        states = sum(r["distinct"] for r in mc)
        trans = sum(r["generated"] for r in mc)

    # 2. configs + expectations from TLC
    gen = ctx.tlc_scenarios("RegbotGen", "C19_gen.cfg", workers=4, label="config generator (both modes executed by the design spec)")
    confs = merge_modes(gen["scenarios"])
    if len(confs) < 8000:
        raise vlib.ToolError("generator produced only %d configs" % len(confs))
    all_ops = set()
    for c in confs:
        all_ops |= ops_of(c)
    bindings, gone = check_alphabet(ctx, all_ops)
    if replay_conf is not None:
        def rk(c):
            return json.dumps([norm_tags(c["world"]), c["par"], c["scripts"]] + [c.get(d, x) for d, x in zip(DIMS, DIM_DEFAULT)],
                              sort_keys=True)
        want = rk(replay_conf)
        sel = [c for c in confs if rk(c) == want]
        if len(sel) != 1:
            raise vlib.ToolError("the config of the replay file is not among the generated ones")
    else:
        sel = select(ctx, confs, rng)
        sel_ops = set()
        for c in sel:
            sel_ops |= ops_of(c)
        if sel_ops != all_ops:
            raise vlib.ToolError("selection misses API functions: %s" % sorted(all_ops - sel_ops))
    scn_file = ctx.path("c19", "scn.jsonl")
    with open(scn_file, "w") as f:
        for i, c in enumerate(sel):
            c["id"] = "c%04d" % i
            solo = 1 if (len(c["scripts"]) > 1 and rng.random() < 0.15) else 0
            f.write(json.dumps({"id": c["id"], "world": norm_tags(c["world"]), "par": c["par"], "scripts": c["scripts"],
                                "solo": solo, "mt": c["mt"], "feat": c["feat"], "tmo": c["tmo"], "cmd": c["cmd"],
                                "verb": c["verb"], "logfmt": c["logfmt"], "cfgin": c["cfgin"]}) + "\n")

    # 3. the real binary
    out_file = ctx.path("c19", "traces.jsonl")
    scratch = ctx.path("c19", "run", "x")
    scratch = os.path.dirname(scratch)
    res = ctx.run(["c19drv", "-regbot", os.path.join(ctx.bin, "regbot"), "-in", scn_file, "-out", out_file,
                   "-scratch", scratch, "-workers", str(min(24, 2 * (os.cpu_count() or 4)))], timeout=3000)
    meta = json.loads(res.stdout.strip().splitlines()[-1])
    by_id = {c["id"]: c for c in sel}
    traces = []
    with open(out_file) as f:
        for line in f:
            if line.strip():
                t = json.loads(line)
                traces.append({"id": t["id"], "events": t["events"], "header": t["header"], "meta": t.get("meta", {}),
                               "scenario": by_id[t["id"]]})
    if len(traces) != len(sel):
        raise vlib.ToolError("driver returned %d traces for %d configs" % (len(traces), len(sel)))
    traces.sort(key=lambda t: t["id"])

    # 4. validation against (P)
    accepted, rejected = validate_all(ctx, traces)
    for r in rejected:
        detail = (r["detail"] or r["reason"]).strip('"')
        if detail.startswith("tooling:"):
            raise vlib.ToolError("malformed trace %s: %s at %s" % (r["trace"]["id"], detail, json.dumps(r["event"])[:400]))
        conf = r["trace"]["scenario"]
        sig = signature(r, conf)
        what = "%s: %s in config %s (world %s, %s, features %s, timeout %s, %s, -v %s, log %s, config %s, parallel %d, scripts %s)" % (
            detail, json.dumps({k: v for k, v in (r["event"] or {}).items() if k not in ("drytxt", "nortxt")})[:300],
            r["trace"]["id"], conf["wname"], conf["mt"], conf["feat"], conf["tmo"], conf["cmd"], conf["verb"], conf["logfmt"], conf["cfgin"], conf["par"], json.dumps(conf["scripts"])[:400])
        ctx.report(sig, what, {"config": {k: conf[k] for k in ("world", "par", "scripts") + DIMS}, "events": r["trace"]["events"],
                               "rejected_at": r["line"], "cmd": "tools/check C19 --replay <this file>"})

    # 5. drift between the design spec and the code (evidence only)
    drift = {}
    drift_samples = []
    for t in traces:
        for n in drift_of(t["scenario"], t):
            key = " ".join(n.split(" ")[:2])
            drift[key] = drift.get(key, 0) + 1
            if len(drift_samples) < 12:
                drift_samples.append(t["id"] + ": " + n[:300])

    # 6. binding demos: corrupted copies of accepted traces must be rejected
    rej_ids = {r["trace"]["id"] for r in rejected}
    good = [t for t in traces if t["id"] not in rej_ids]
    if replay_conf is not None:
        good = []

    demos = []

    def demo(name, pick, edit):
        base = next((t for t in good if pick(t)), None)
        if base is None:
            if replay_conf is not None:
                return
            raise vlib.ToolError("binding demo %s: no suitable accepted trace" % name)
        m = copy.deepcopy(base)
        m["id"] = "demo-" + name
        edit(m)
        demos.append(m)

    def first(t, pred):
        return next(e for e in t["events"] if pred(e))

    demo("method", lambda t: any(e["ev"] == "req" for e in t["events"]),
         lambda m: first(m, lambda e: e["ev"] == "req").update(method="PUT"))
    demo("layout", lambda t: True,
         lambda m: m["events"].insert(0, {"ev": "fs", "run": "dry", "src": "snap", "change": "modified", "path": "index.json",
                                          "call": "", "flags": "", "by": "?"}))
    demo("read", lambda t: any(e["ev"] == "stmt" and e["op"] == "tag.ls" and e["wprior"] == 0 and e["dryst"] == "ok" and e["norst"] == "ok"
                               for e in t["events"]),
         lambda m: first(m, lambda e: e["ev"] == "stmt" and e["op"] == "tag.ls" and e["wprior"] == 0 and e["dryst"] == "ok").update(dry="0000"))
    demo("isolation", lambda t: t["header"]["nscripts"] > 1,
         lambda m: [e.update(dry="failed", solodry="done") for e in m["events"] if e["ev"] == "script" and e["s"] == m["header"]["nscripts"]])
    demo("stops", lambda t: True, lambda m: first(m, lambda e: e["ev"] == "script").update(dryafter=2))
    if demos:
        _, rj = validate_all(ctx, demos, name="demos")
        missed = {m["id"] for m in demos} - {r["trace"]["id"] for r in rj}
        if missed:
            raise vlib.ToolError("binding demos accepted, the trace spec does not bind: %s" % sorted(missed))
        _, rj = ctx.validate_batch("RegbotTrace", "C19_trace.cfg", demos[:1])
        if not rj:
            raise vlib.ToolError("binding demo accepted by the stop-at-first-rejection config")

    nreq = sum(1 for t in traces for e in t["events"] if e["ev"] == "req")
    nstmt = sum(1 for t in traces for e in t["events"] if e["ev"] == "stmt")
    compared = sum(1 for t in traces for e in t["events"] if e["ev"] == "stmt" and e["dryst"] != "norun" and e["norst"] != "norun"
                   and (e["wprior"] == 0))
    crashes = sum(1 for t in traces for e in t["events"] if e["ev"] == "run" and e.get("crash"))
    tarouts = sum(1 for t in traces for e in t["events"] if e["ev"] == "run" and e["run"] == "dry" and e["tarout"] == 1)
    solo_runs = sum(1 for t in traces for e in t["events"] if e["ev"] == "script" and (e["solodry"] != "na" or e["solonor"] != "na"))
    fams = {}
    for c in sel:
        fams[family(c)] = fams.get(family(c), 0) + 1
    sample = []
    for t in traces[:1] + traces[-1:]:
        sample.append({"id": t["id"], "scripts": t["scenario"]["scripts"], "par": t["scenario"]["par"],
                       "events": [{k: v for k, v in e.items() if k not in ("drytxt", "nortxt")} for e in t["events"][:12]]})
    cov = {
        "states": states + gen["distinct"], "transitions": trans + gen["generated"],
        "traces_validated_against_impl": accepted,
        "samples": sample,
        "evaluations": len(traces),
        "distinct_nontrivial": len({cfg_key(dict(c, world=c["wname"])) for c in sel}),
        "rule": "a config = initial world x parallel x 1-3 scripts of <= 4 statements over the documented API, generated by TLC "
                "(RegbotGen); each is run by the real regbot binary with --dry-run (strace on: %s) and normally on the same world; "
                "distinct = distinct configs" % bool(meta.get("strace")),
        "exhaustive": bool(ctx.thorough),
        "exhaustive_note": "thorough runs every generated config; quick a seeded sample holding every API function",
        "configs_generated": len(confs), "configs_run": len(sel), "families": fams,
        "dimension_values_run": {d: sorted({(c["wname"] if d == "world" else c[d]) for c in sel}) for d in ("world",) + DIMS},
        "api_functions": sorted(all_ops), "requests_seen_in_dry_runs": nreq, "statements": nstmt,
        "read_results_compared": compared, "solo_control_runs": solo_runs,
        "dry_runs_that_wrote_the_export_tar": tarouts, "runs_in_which_regbot_crashed": crashes,
        "asfound_counterexample_ops": cex_ops,
        "sandbox_bindings_found": bindings, "sandbox_bindings_gone": gone,
        "model_drift": drift, "model_drift_samples": drift_samples,
        "rejected": len(rejected), "strace": bool(meta.get("strace")),
        "runs_repeated_with_long_timeout": meta.get("confirmations", 0),
        "entry_points": ["cmd/regbot once --dry-run", "cmd/regbot once", "sandbox bindings via Lua"],
    }
    assumptions = [
        "worlds: two registries (model registry simreg, all optional features on) and one OCI layout holding a linux/amd64 "
        "image, a linux/arm64 image and an index of both; scripts of at most 4 statements (loops over <= 3 tags)",
        "read results are compared through what the script can log (manifest/config JSON, lists, reference strings); a blob "
        "object and a manifest from a head request only as ok/error",
        "image.exportTar writing its local tar file in a dry run is recorded but is not an obligation (neither a registry nor a layout)",
        "a blocked script is observed through the per-script timeout (2.5 s, confirmed with 12 s) or, without any timeout effect, "
        "through quiescence of the process; slowness can only turn into a tooling error",
    ]
    if drift:
        vlib.log("C19: design-spec drift (not a violation): %s" % drift)
    return "model_checking", cov, assumptions

"""C12 - bounded retries, recovery from transient faults, back-off, mirror order, writes skip mirrors
(internal/reghttp, scheme/reg).

(D)  spec/RegHttp.tla (+RegHttpMC configuration space, composed with the monitor) and
     spec/RegHttpUpload.tla (chunked upload loop) are checked exhaustively by TLC.
(R)  layer 1: behaviours of RegHttp emitted by TLC (RegHttpGen) are imposed on the real
     reghttp.Client through a scripted RoundTripper; layer 2: every scheme/reg operation is
     run against simreg with single / double / persistent faults at every request position and
     0-2 mirrors; upload layer: adversarial sessions emitted by TLC from RegHttpUpload.
(V)  every recorded trace is validated by TLC against (P) spec/RegHttpProp.tla through
     spec/RegHttpTrace.tla.  A verdict only comes from a rejected real trace.
"""
import copy
import itertools
import json
import random

import vlib

FAULTS = ["500", "502", "504", "408", "429", "429ra", "404", "401", "416r", "reset", "trunc0", "trunc700"]
TRANSIENT = {"500", "502", "504", "408", "429", "429ra", "reset", "trunc0", "trunc700"}
L1_KINDS = ["ok", "short0", "short1", "short206", "okclbad", "ok200", "reset", "s429", "s429ra", "s408", "s500",
            "s502", "s504", "s403", "s503", "s404", "s416", "s401n", "s401s", "s401b"]
OPS = ["ping", "repo-list", "tag-list", "tag-list-paged", "manifest-get", "manifest-get-digest", "manifest-head",
       "manifest-put", "manifest-put-subject", "manifest-put-subject-fb", "manifest-delete",
       "manifest-delete-ref-fb", "tag-delete", "tag-delete-fb", "blob-get", "blob-head", "blob-delete",
       "blob-mount", "blob-put", "blob-put-chunked", "blob-put-stream", "referrer-list", "referrer-list-paged",
       "referrer-list-fb"]
READ_OPS = {"tag-list", "tag-list-paged", "manifest-get", "manifest-get-digest", "manifest-head", "blob-get",
            "blob-head", "referrer-list", "referrer-list-paged", "referrer-list-fb"}


def load_traces(fn):
    out = []
    with open(fn) as f:
        for line in f:
            if line.strip():
                out.append(json.loads(line))
    return out


def write_jsonl(fn, items):
    with open(fn, "w") as f:
        for s in items:
            f.write(json.dumps(s) + "\n")


def drive(ctx, mode, scns, name, par=16, timeout=1500):
    fin = ctx.path("c12", name + ".in.jsonl")
    fout = ctx.path("c12", name + ".out.jsonl")
    write_jsonl(fin, scns)
    ctx.run(["c12drv", "-mode", mode, "-in", fin, "-out", fout, "-par", str(par)], timeout=timeout)
    traces = load_traces(fout)
    if len(traces) != len(scns):
        raise vlib.ToolError("driver %s returned %d traces for %d scenarios" % (mode, len(traces), len(scns)))
    stalls = [t["id"] + ": " + t["meta"]["stall"] for t in traces if t.get("meta", {}).get("stall")]
    if stalls:
        raise vlib.ToolError("driver stalled: " + "; ".join(stalls[:3]))
    by = {t["id"]: t for t in traces}
    return [by[s["id"]] for s in scns]


# --------------------------------------------------------------------------- layer 1
def l1_tail_scenarios(rng, thorough):
    """One reply kind for ever (whatever a registry answers), all retry limits and host counts."""
    out = []
    hostsets = [["up"], ["m1", "up"], ["m1", "m2", "up"]]
    for kind in L1_KINDS:
        for R in ([1, 2, 3, 5] if thorough else [rng.choice([1, 2]), rng.choice([3, 5])]):
            for hosts in (hostsets if thorough else [rng.choice(hostsets)]):
                if kind == "s429ra" and R > 2 and not thorough:
                    continue
                for meth in (["GET", "HEAD", "PUT"] if thorough else [rng.choice(["GET", "GET", "HEAD", "PUT"])]):
                    if meth != "GET" and kind in ("short0", "short1", "short206", "okclbad", "ok200"):
                        continue
                    ie = rng.random() < 0.25
                    nomir = meth == "PUT" or rng.random() < 0.3
                    steps = [{"ev": "do", "id": "A"}]
                    if meth != "PUT":
                        steps.append({"ev": "read", "id": "A"})
                    if meth == "GET" and kind in ("short206", "ok200"):
                        # reach the range path: seek, then read
                        steps = [{"ev": "do", "id": "A"}, {"ev": "att", "raw": "ok"}, {"ev": "seek", "id": "A", "off": 1},
                                 {"ev": "read", "id": "A"}]
                    steps.append({"ev": "note", "what": "close", "id": "A"})
                    out.append({"id": "tail-%s-R%d-h%d-%s-%d" % (kind, R, len(hosts), meth, len(out)),
                                "conf": {"R": R, "dmax": 4, "up": "up", "hosts": hosts, "prio": [0] * len(hosts),
                                         "n": 2, "conc": 8, "tail": kind, "di_us": 1000 if kind == "s429ra" else 2000,
                                         "req": {"A": {"meth": meth, "nomir": nomir, "ie": ie, "expect": meth == "GET" and rng.random() < 0.5}}},
                                "steps": steps, "blocked": 0})
    return out


def l1_order_scenarios():
    """Hand-made: the documented mirror order, Retry-After windows, overlapping requests."""
    def conf(hosts, prio, R=3, **req):
        rq = {"A": {"meth": "GET", "nomir": False, "ie": False, "expect": True},
              "B": {"meth": "GET", "nomir": False, "ie": False, "expect": False},
              "C": {"meth": "GET", "nomir": False, "ie": False, "expect": False}}
        return {"R": R, "dmax": 4, "up": "up", "hosts": hosts, "prio": prio, "n": 2, "conc": 8, "req": rq}
    out = []
    # S1: the documentation example (priorities 10 and 5, registry 0), all healthy
    out.append({"id": "order-doc-example", "conf": conf(["m1", "m2", "up"], [10, 5, 0]),
                "steps": [{"ev": "do", "id": "A"}, {"ev": "read", "id": "A"}, {"ev": "note", "what": "close", "id": "A"}]})
    # fall back through all of them
    out.append({"id": "order-fallback", "conf": conf(["m1", "m2", "up"], [10, 5, 0]),
                "steps": [{"ev": "do", "id": "A"}, {"ev": "att", "raw": "s404"}, {"ev": "att", "raw": "s404"},
                          {"ev": "read", "id": "A"}, {"ev": "note", "what": "close", "id": "A"}]})
    out.append({"id": "order-equal", "conf": conf(["m1", "m2", "up"], [0, 0, 0]),
                "steps": [{"ev": "do", "id": "A"}, {"ev": "att", "raw": "s404"}, {"ev": "att", "raw": "s404"},
                          {"ev": "read", "id": "A"}, {"ev": "note", "what": "close", "id": "A"}]})
    # a mirror asks for a pause while another response from it is still open (seeded change C12-1)
    for hosts, prio in ((["m1", "up"], [0, 0]), (["up"], [0])):
        out.append({"id": "ra-overlap-%d" % len(hosts), "conf": conf(hosts, prio),
                    "steps": [{"ev": "do", "id": "A"}, {"ev": "do", "id": "B"}, {"ev": "att", "raw": "s429ra"},
                              {"ev": "read", "id": "A"}, {"ev": "note", "what": "close", "id": "A"},
                              {"ev": "note", "what": "close", "id": "B"},
                              {"ev": "do", "id": "C"}, {"ev": "read", "id": "C"}, {"ev": "note", "what": "close", "id": "C"}]})
    # a host inside its Retry-After window goes last
    out.append({"id": "ra-window-order", "conf": conf(["m1", "up"], [0, 0]),
                "steps": [{"ev": "do", "id": "B"}, {"ev": "att", "raw": "s429ra"}, {"ev": "note", "what": "close", "id": "B"},
                          {"ev": "do", "id": "C"}, {"ev": "read", "id": "C"}, {"ev": "note", "what": "close", "id": "C"}]})
    for s in out:
        s["blocked"] = 0
    return out


def l1_classify(t, r):
    """Signature of a rejected layer-1 trace: obligation + what makes the class specific."""
    d = (r["detail"] or r["reason"]).strip('"')
    ev = r["event"] or {}
    if d == "mirror-order:priority":
        # S1: is the observed first-offer order exactly what an ascending sort of the priorities gives?
        hosts, prio, up = t["header"]["hosts"], t["header"]["prio"], t["header"]["up"]
        pr = dict(zip(hosts, prio))
        asc = True
        seen = []
        for e in t["events"]:
            if e["ev"] in ("do", "seek", "read", "op"):
                seen = []
            if e["ev"] == "att" and e.get("mir") == 1:
                if e["h"] not in seen:
                    if seen and (pr[seen[-1]], seen[-1] == up) > (pr[e["h"]], e["h"] == up) and e.get("first", 1):
                        asc = False
                    seen.append(e["h"])
                if e["k"] in ("ok", "trunc"):
                    seen = []
        return "mirror-order:priority-ascending" if asc else "mirror-order:priority-other"
    if d == "no-termination":
        return "no-termination:" + str(ev.get("where", "?"))
    return d


def run_l1(ctx, rng, cov):
    thorough = ctx.thorough
    gens = [("C12_gen.cfg", 4000 if thorough else 500, 90)]
    scns = []
    for cfg, n, depth in gens:
        g = ctx.tlc_scenarios("RegHttpGen", cfg, workers=1, simulate="num=%d" % n, depth=depth,
                              extra=["-seed", str(ctx.seed)], label="generator " + cfg, timeout=1500)
        scns += g["scenarios"]
    leak = ctx.tlc_scenarios("RegHttpGen", "C12_gen_leak.cfg", workers=1, label="generator C12_gen_leak.cfg (BFS)")
    blocked = [s for s in leak["scenarios"] if s.get("blocked")]
    if len(scns) < 100 or not blocked:
        raise vlib.ToolError("generator produced %d scenarios, %d blocked" % (len(scns), len(blocked)))
    scns += rng.sample(blocked, min(len(blocked), 40 if thorough else 6))
    for i, s in enumerate(scns):
        s["id"] = "tlc-%d" % i
    ntlc = len(scns)
    scns += l1_tail_scenarios(rng, thorough)
    scns += l1_order_scenarios()
    traces = drive(ctx, "l1", scns, "l1", par=24)
    cov["l1_tlc_scenarios"] = ntlc
    cov["l1_scenarios"] = len(scns)
    exact = sum(1 for t, s in zip(traces, scns) if s["id"].startswith("tlc-") and t["meta"].get("exact"))
    cov["l1_replayed_exactly"] = exact
    drift = {}
    for t, s in zip(traces, scns):
        if s["id"].startswith("tlc-") and not t["meta"].get("exact"):
            w = t["meta"].get("why", "")
            k = w.split(":", 1)[1].strip() if ":" in w else w
            k = " ".join(x for x in k.replace('"', "").split() if x not in ("A", "B"))
            drift[k] = drift.get(k, 0) + 1
    cov["l1_drift"] = dict(sorted(drift.items(), key=lambda kv: -kv[1])[:12])
    return [{"id": t["id"], "events": t["events"], "header": t["header"], "scenario": {"layer": 1, "scenario": s},
             "meta": t["meta"]} for t, s in zip(traces, scns)]


# ---------------------------------------------------------------------- validation
def validate(ctx, traces, classify, cov, what):
    """Validate; traces rejected under the known finding S1 (priority order) are validated again
    with the priority clause waived so that every other obligation is still checked on them."""
    accepted, rejected = ctx.validate_batch("RegHttpTrace", "C12_trace.cfg", traces, timeout=3000, max_reports=100000)
    again = []
    nrej = 0
    for r in rejected:
        t = r["trace"]
        sig = classify(t, r)
        what_s = "%s at event %s of trace %s" % (sig, json.dumps(r["event"]), t["id"])
        new = ctx.report("c12:" + sig, what_s, {"scenario": t["scenario"], "header": t["header"], "events": t["events"],
                                               "rejected_at": r["line"], "cmd": "tools/check C12 --replay <this file>"})
        nrej += 1
        if sig == "mirror-order:priority-ascending" and not new:
            t2 = copy.deepcopy(t)
            t2["header"]["waive"] = ["prio"]
            t2["id"] = t["id"] + "+waived"
            again.append(t2)
    if again:
        a2, r2 = ctx.validate_batch("RegHttpTrace", "C12_trace.cfg", again, timeout=3000, max_reports=100000)
        accepted += a2
        for r in r2:
            t = r["trace"]
            sig = classify(t, r)
            ctx.report("c12:" + sig, "%s at event %s of trace %s" % (sig, json.dumps(r["event"]), t["id"]),
                       {"scenario": t["scenario"], "header": t["header"], "events": t["events"], "rejected_at": r["line"]})
            nrej += 1
    cov[what + "_rejected"] = nrej
    return accepted


def run(ctx):
    rng = random.Random(ctx.seed)
    ctx.build("c12drv")
    cov = {}
    traces = run_l1(ctx, rng, cov)
    accepted = validate(ctx, traces, l1_classify, cov, "l1")
    cov["traces_validated_against_impl"] = accepted
    return "model_checking", cov, []

"""C12 - bounded retries, recovery from transient faults, back-off, mirror order, writes skip mirrors
(internal/reghttp, scheme/reg).

(D)  spec/RegHttp.tla (+RegHttpMC configuration space, composed with the monitor) and
     spec/RegHttpUpload.tla (chunked upload loop) are checked exhaustively by TLC.
(R)  layer 1: behaviours of RegHttp emitted by TLC (RegHttpGen) are imposed on the real
     reghttp.Client through a scripted RoundTripper; layer 2: every scheme/reg operation is
     run against simreg with single / double / persistent faults at every request position and
     0-2 mirrors; upload layer: adversarial sessions emitted by TLC from RegHttpUpload.
(V)  every recorded trace is validated by TLC against (P) spec/RegHttpProp.tla through
     spec/RegHttpTrace.tla.  A verdict only comes from a rejected real trace.
"""
import copy
import itertools
import json
import random

import vlib

FAULTS = ["500", "502", "504", "408", "429", "429ra", "404", "401", "416r", "reset", "trunc0", "trunc700"]
TRANSIENT = {"500", "502", "504", "408", "429", "429ra", "reset", "trunc0", "trunc700"}
L1_KINDS = ["ok", "short0", "short1", "short206", "okclbad", "ok200", "reset", "s429", "s429ra", "s408", "s500",
            "s502", "s504", "s403", "s503", "s404", "s416", "s401n", "s401s", "s401b",
            # second round: more status classes and Retry-After spellings
            "s400", "s405", "s409", "s501", "s304", "s500ra", "s429ra0", "s429rad"]
OPS = ["ping", "repo-list", "tag-list", "tag-list-paged", "manifest-get", "manifest-get-digest", "manifest-head",
       "manifest-put", "manifest-put-subject", "manifest-put-subject-fb", "manifest-delete",
       "manifest-delete-ref-fb", "tag-delete", "tag-delete-fb", "blob-get", "blob-head", "blob-delete",
       "blob-mount", "blob-put", "blob-put-chunked", "blob-put-stream", "blob-put-oneshot",
       "manifest-head-nodigest", "manifest-head-digest", "blob-put-chunked-minlen", "blob-put-chunked-sha512",
       "blob-mount-refused", "blob-get-seek",
       # round 4: sequences of operations on one client (idle gap / none), one or two registries
       "seq-manifest-get", "seq-blob-get-head", "seq-tag-list-head-nogap", "seq2-manifest-get", "seq2-blob-head-tag-list", "referrer-list", "referrer-list-paged",
       "referrer-list-fb"]
READ_OPS = {"seq-manifest-get", "seq-blob-get-head", "seq-tag-list-head-nogap", "seq2-manifest-get",
            "seq2-blob-head-tag-list", "manifest-head-nodigest", "manifest-head-digest", "blob-get-seek", "tag-list", "tag-list-paged", "manifest-get", "manifest-get-digest", "manifest-head", "blob-get",
            "blob-head", "referrer-list", "referrer-list-paged", "referrer-list-fb"}


def load_traces(fn):
    out = []
    with open(fn) as f:
        for line in f:
            if line.strip():
                out.append(json.loads(line))
    return out


def write_jsonl(fn, items):
    with open(fn, "w") as f:
        for s in items:
            f.write(json.dumps(s) + "\n")


def drive(ctx, mode, scns, name, par=16, timeout=1500):
    fin = ctx.path("c12", name + ".in.jsonl")
    fout = ctx.path("c12", name + ".out.jsonl")
    write_jsonl(fin, scns)
    ctx.run(["c12drv", "-mode", mode, "-in", fin, "-out", fout, "-par", str(par)], timeout=timeout)
    traces = load_traces(fout)
    if len(traces) != len(scns):
        raise vlib.ToolError("driver %s returned %d traces for %d scenarios" % (mode, len(traces), len(scns)))
    stalls = [t["id"] + ": " + t["meta"]["stall"] for t in traces if t.get("meta", {}).get("stall")]
    if stalls:
        raise vlib.ToolError("driver stalled: " + "; ".join(stalls[:3]))
    by = {t["id"]: t for t in traces}
    return [by[s["id"]] for s in scns]


# --------------------------------------------------------------------------- layer 1
def l1_tail_scenarios(rng, thorough):
    """One reply kind for ever (whatever a registry answers), all retry limits and host counts."""
    out = []
    hostsets = [["up"], ["m1", "up"], ["m1", "m2", "up"]]
    for kind in L1_KINDS:
        for R in ([1, 2, 3, 5] if thorough else [rng.choice([1, 2]), rng.choice([3, 5])]):
            for hosts in (hostsets if thorough else [rng.choice(hostsets)]):
                if kind == "s429ra" and R > 2 and not thorough:
                    continue
                for meth in (["GET", "HEAD", "PUT"] if thorough else [rng.choice(["GET", "GET", "HEAD", "PUT"])]):
                    if meth != "GET" and kind in ("short0", "short1", "short206", "okclbad", "ok200"):
                        continue
                    ie = rng.random() < 0.25
                    nomir = meth == "PUT" or rng.random() < 0.3
                    steps = [{"ev": "do", "id": "A"}]
                    if meth != "PUT":
                        steps.append({"ev": "read", "id": "A"})
                    if meth == "GET" and kind in ("short206", "ok200"):
                        # reach the range path: seek, then read
                        steps = [{"ev": "do", "id": "A"}, {"ev": "att", "raw": "ok"}, {"ev": "seek", "id": "A", "off": 1},
                                 {"ev": "read", "id": "A"}]
                    steps.append({"ev": "note", "what": "close", "id": "A"})
                    out.append({"id": "tail-%s-R%d-h%d-%s-%d" % (kind, R, len(hosts), meth, len(out)),
                                "conf": {"R": R, "dmax": 4, "up": "up", "hosts": hosts, "prio": [0] * len(hosts),
                                         "n": 2, "conc": 8, "tail": kind, "di_us": 1000 if kind == "s429ra" else 2000,
                                         "req": {"A": {"meth": meth, "nomir": nomir, "ie": ie, "expect": meth == "GET" and rng.random() < 0.5}}},
                                "steps": steps, "blocked": 0})
    return out


def l1_order_scenarios():
    """Hand-made: the documented mirror order, Retry-After windows, overlapping requests."""
    def conf(hosts, prio, R=3, **req):
        rq = {"A": {"meth": "GET", "nomir": False, "ie": False, "expect": True},
              "B": {"meth": "GET", "nomir": False, "ie": False, "expect": False},
              "C": {"meth": "GET", "nomir": False, "ie": False, "expect": False}}
        return {"R": R, "dmax": 4, "up": "up", "hosts": hosts, "prio": prio, "n": 2, "conc": 8, "req": rq}
    out = []
    # S1: the documentation example (priorities 10 and 5, registry 0), all healthy
    out.append({"id": "order-doc-example", "conf": conf(["m1", "m2", "up"], [10, 5, 0]),
                "steps": [{"ev": "do", "id": "A"}, {"ev": "read", "id": "A"}, {"ev": "note", "what": "close", "id": "A"}]})
    # fall back through all of them
    out.append({"id": "order-fallback", "conf": conf(["m1", "m2", "up"], [10, 5, 0]),
                "steps": [{"ev": "do", "id": "A"}, {"ev": "att", "raw": "s404"}, {"ev": "att", "raw": "s404"},
                          {"ev": "read", "id": "A"}, {"ev": "note", "what": "close", "id": "A"}]})
    out.append({"id": "order-equal", "conf": conf(["m1", "m2", "up"], [0, 0, 0]),
                "steps": [{"ev": "do", "id": "A"}, {"ev": "att", "raw": "s404"}, {"ev": "att", "raw": "s404"},
                          {"ev": "read", "id": "A"}, {"ev": "note", "what": "close", "id": "A"}]})
    # a mirror asks for a pause while another response from it is still open (seeded change C12-1)
    for hosts, prio in ((["m1", "up"], [0, 0]), (["up"], [0])):
        out.append({"id": "ra-overlap-%d" % len(hosts), "conf": conf(hosts, prio),
                    "steps": [{"ev": "do", "id": "A"}, {"ev": "do", "id": "B"}, {"ev": "att", "raw": "s429ra"},
                              {"ev": "read", "id": "A"}, {"ev": "note", "what": "close", "id": "A"},
                              {"ev": "note", "what": "close", "id": "B"},
                              {"ev": "do", "id": "C"}, {"ev": "read", "id": "C"}, {"ev": "note", "what": "close", "id": "C"}]})
    # a host inside its Retry-After window goes last
    out.append({"id": "ra-window-order", "conf": conf(["m1", "up"], [0, 0]),
                "steps": [{"ev": "do", "id": "B"}, {"ev": "att", "raw": "s429ra"}, {"ev": "note", "what": "close", "id": "B"},
                          {"ev": "do", "id": "C"}, {"ev": "read", "id": "C"}, {"ev": "note", "what": "close", "id": "C"}]})
    # a sequence on one client: an earlier request leaves a failure history on the host (it succeeded after its
    # retry), the client is idle for longer than any delay (or not at all), a later request meets faults again:
    # its retries are backed off from like the first ones (seeded change C12-7)
    for hosts in (["up"], ["m1", "up"]):
        for gap in ("idle", "none"):
            for k1, k2 in (("s500", "s500"), ("reset", "s502"), ("short0", "s504"), ("s429", "s408")):
                steps = [{"ev": "do", "id": "A"}, {"ev": "att", "raw": k1}, {"ev": "read", "id": "A"},
                         {"ev": "note", "what": "close", "id": "A"}]
                if gap == "idle":
                    steps.append({"ev": "note", "what": "idle"})
                steps += [{"ev": "do", "id": "B"}, {"ev": "att", "raw": k2}, {"ev": "att", "raw": k2},
                          {"ev": "read", "id": "B"}, {"ev": "note", "what": "close", "id": "B"}]
                c = conf(hosts, [0] * len(hosts), R=5)
                c["dmax_real"] = {"s500": 4, "reset": 1, "short0": 30, "s429": 2}[k1]
                out.append({"id": "seq-%s-%dh-%s-%s" % (gap, len(hosts), k1, k2), "conf": c, "steps": steps})
    # three hosts, one mirror inside its Retry-After window: it goes last, the idle registry is asked before it
    # (seeded change C12-3: the back-off part of the comparator looks at the wrong host after the first swap)
    for hosts in (["m1", "m2", "up"], ["m2", "m1", "up"]):
        for first in ("s404", "s429ra"):
            second = "s429ra" if first == "s404" else "s404"
            out.append({"id": "ra-window-3hosts-%s-%s" % (hosts[0], first), "conf": conf(hosts, [0, 0, 0]),
                        "steps": [{"ev": "do", "id": "B"}, {"ev": "att", "raw": first}, {"ev": "att", "raw": second},
                                  {"ev": "read", "id": "B"}, {"ev": "note", "what": "close", "id": "B"},
                                  {"ev": "do", "id": "C"}, {"ev": "att", "raw": "s404"},
                                  {"ev": "read", "id": "C"}, {"ev": "note", "what": "close", "id": "C"}]})
    # uploads whose body can be sent only once fail on their retry (ErrNotRetryable); as many of them as the
    # host has throttle slots, then an ordinary request to the same host (seeded change C17-4)
    for conc in (1, 2, 3):
        for fault in ("s500", "reset", "s429"):
            rq = {"G": {"meth": "GET", "nomir": False, "ie": False, "expect": False, "oneshot": False}}
            steps = []
            for i in range(conc):
                pid = "P%d" % i
                rq[pid] = {"meth": "PUT", "nomir": True, "ie": False, "expect": False, "oneshot": True}
                steps += [{"ev": "do", "id": pid}, {"ev": "att", "raw": fault}, {"ev": "note", "what": "close", "id": pid}]
            steps += [{"ev": "do", "id": "G"}, {"ev": "read", "id": "G"}, {"ev": "note", "what": "close", "id": "G"}]
            out.append({"id": "oneshot-c%d-%s" % (conc, fault),
                        "conf": {"R": 3, "dmax": 4, "up": "up", "hosts": ["up"], "prio": [0], "n": 2, "conc": conc, "req": rq},
                        "steps": steps})
    for s in out:
        s["blocked"] = 0
    return out


def l1_dimensions(rng, scns):
    """Input dimensions of the layer-1 driver that the design spec abstracts from (they must not change the
    behaviour (D) predicts): delay settings, TLS scheme, address != name, rate limit, read buffer size, spelling
    of Seek, double Close.  Random assignment per scenario (each value of each dimension occurs hundreds of times
    per run, every pair of values many times); a third of the scenarios keeps the first-round setting."""
    for s in scns:
        if str(s["id"]).startswith(("order-", "ra-", "oneshot-", "seq-")) or rng.random() < 0.33:
            continue
        c = s["conf"]
        if c.get("tail") != "s429ra" and "di_us" not in c:
            c["di_us"] = rng.choice([1000, 3000, 3000, 6000])
        c["dmax_real"] = rng.choice([0, 1, 2, 30, -1])
        c["tls"] = rng.random() < 0.5
        c["hostport"] = rng.random() < 0.4
        c["rps"] = rng.choice([0, 0, 2000])
        c["rbuf"] = rng.choice([0, 1, 7, 64, 100, 4096])
        c["whence"] = rng.choice([0, 1, 2])
        c["close2"] = rng.random() < 0.3


def classify(t, r):
    """Signature of a rejected trace: the violated obligation + what makes the class specific."""
    d = (r["detail"] or r["reason"]).strip('"')
    ev = r["event"] or {}
    if d == "no-termination":
        return "no-termination:" + str(ev.get("where", "?"))
    if d == "mirror-order:priority-ascending":
        return d
    if t["scenario"].get("layer") == 2:
        # S2: the same PATCH is re-sent although the previous, identical one was answered 416
        i = r["line"]
        prev = t["events"][i - 1] if i and i > 0 else {}
        if ev.get("cl") == "upload_patch" and prev.get("cl") == "upload_patch" and prev.get("k") == "rng" and \
                (prev.get("sig"), prev.get("crng")) == (ev.get("sig"), ev.get("crng")):
            return d + ":upload-416-loop:" + t["scenario"]["scenario"]["op"]
        return d + ":" + l2_class(t, r)
    if t["scenario"].get("layer") == "up":
        # which branch of the chunk loop keeps going round: the reply the registry repeats
        sc = t["scenario"]["scenario"]["script"]
        return d + ":upload:" + (sc[-1]["k"] if sc else "none")
    return d


def run_l1(ctx, rng, cov):
    thorough = ctx.thorough
    gens = [("C12_gen.cfg", 4000 if thorough else 500, 90)]
    scns = []
    for cfg, n, depth in gens:
        g = ctx.tlc_scenarios("RegHttpGen", cfg, workers=1, simulate="num=%d" % n, depth=depth,
                              extra=["-seed", str(ctx.seed)], label="generator " + cfg, timeout=1500)
        scns += g["scenarios"]
    # throttle: 2 slots on the host, behaviours in which one response re-enters next() at least twice (Seek,
    # resume after an early end).  The design (slot returned before re-entry, commit eb4e31c) finishes them;
    # before that fix the second re-entry waited for ever (finding C12-4, seeded/fixrev-C12-4).
    leak = ctx.tlc_scenarios("RegHttpGen", "C12_gen_leak.cfg", workers=1, label="generator C12_gen_leak.cfg (BFS)")
    reenter = [s for s in leak["scenarios"] if not s.get("blocked")
               and sum(1 for e in s["steps"] if e["ev"] in ("seek", "cut")) >= 2]
    if len(scns) < 100 or len(reenter) < 6:
        raise vlib.ToolError("generator produced %d scenarios, %d with two re-entries" % (len(scns), len(reenter)))
    scns += rng.sample(reenter, min(len(reenter), 60 if thorough else 10))
    # throttle, second part: uploads with a one-shot body (not-retryable abort of next()) mixed with other requests
    nr = ctx.tlc_scenarios("RegHttpGen", "C12_gen_nr.cfg", workers=1, simulate="num=%d" % (1500 if thorough else 150),
                           depth=90, extra=["-seed", str(ctx.seed)], label="generator C12_gen_nr.cfg", timeout=1500)
    aborted = [s for s in nr["scenarios"] if any(e["ev"] == "ret" and e["call"] == "do" and e["ok"] == 0 and
                                                 s["conf"]["req"][e["id"]].get("oneshot") for e in s["steps"])]
    if len(aborted) < 20:
        raise vlib.ToolError("generator C12_gen_nr produced %d behaviours with a not-retryable abort" % len(aborted))
    scns += aborted
    # requests for a pagination link (DirectURL on the host that served the link) after a listing request
    ln = ctx.tlc_scenarios("RegHttpGen", "C12_gen_link.cfg", workers=1, simulate="num=%d" % (600 if thorough else 80),
                           depth=90, extra=["-seed", str(ctx.seed)], label="generator C12_gen_link.cfg", timeout=1500)
    if len(ln["scenarios"]) < 20:
        raise vlib.ToolError("generator C12_gen_link produced %d behaviours" % len(ln["scenarios"]))
    scns += ln["scenarios"]
    for i, s in enumerate(scns):
        s["id"] = "tlc-%d" % i
    ntlc = len(scns)
    scns += l1_tail_scenarios(rng, thorough)
    scns += l1_order_scenarios()
    l1_dimensions(rng, scns)
    traces = drive(ctx, "l1", scns, "l1", par=24)
    cov["l1_tlc_scenarios"] = ntlc
    cov["l1_scenarios"] = len(scns)
    exact = sum(1 for t, s in zip(traces, scns) if s["id"].startswith("tlc-") and t["meta"].get("exact"))
    cov["l1_replayed_exactly"] = exact
    drift = {}
    for t, s in zip(traces, scns):
        if s["id"].startswith("tlc-") and not t["meta"].get("exact"):
            w = t["meta"].get("why", "")
            k = w.split(":", 1)[1].strip() if ":" in w else w
            k = " ".join(x for x in k.replace('"', "").split() if x not in ("A", "B"))
            drift[k] = drift.get(k, 0) + 1
    cov["l1_drift"] = dict(sorted(drift.items(), key=lambda kv: -kv[1])[:12])
    return [{"id": t["id"], "events": t["events"], "header": t["header"], "scenario": {"layer": 1, "scenario": s},
             "meta": t["meta"]} for t, s in zip(traces, scns)]


# --------------------------------------------------------------------------- layer 2
def mirror_confs(op, thorough):
    """(mirrors, upprio): each mirror independently has / lacks / fails the content."""
    M = lambda n, p, m: {"name": n + ".test", "prio": p, "mode": m}
    if op not in READ_OPS:
        c = [([], 0), ([M("m1", 0, "has")], 0)]
        if thorough:
            c += [([M("m1", 0, "has"), M("m2", 0, "fails")], 0), ([M("m1", 2, "has")], 1)]
        return c
    # A mirror that lacks the repository answers a referrers query with an empty list (200), so the
    # result would depend on which of two equal mirrors is asked first: no valid oracle, left out.
    modes = ("has", "fails") if op.startswith("referrer-list") else ("has", "lacks", "fails")
    c = [([], 0)]
    for m1 in modes:
        c.append(([M("m1", 0, m1)], 0))
    for m1, m2 in itertools.product(modes, repeat=2):
        c.append(([M("m1", 0, m1), M("m2", 0, m2)], 0))
    # distinct priorities (the documented order is descending): known finding S1 lives here
    c.append(([M("m1", 2, "has"), M("m2", 1, "has")], 0))
    c.append(([M("m1", 1, modes[1]), M("m2", 2, "has")], 0))
    c.append(([M("m1", 0, "has")], 1))
    return c


L2_DIMS = ("conc1", "cache", "port", "tls", "prefix", "nohead")
# orthogonal array L8: every pair of values of every two of the six binary dimensions occurs in some row
L2_ROWS = ["000000", "000111", "011001", "011110", "101010", "101101", "110011", "110100"]


def l2_apply(base, row):
    """Second-round input dimensions of a layer-2 configuration: ReqConcurrent 1, manifest/referrer cache on,
    host names with a port, TLS enabled (https), mirrors with a PathPrefix, APIOpts disableHead."""
    b = dict(base, row=row)
    on = {d: row[i] == "1" for i, d in enumerate(L2_DIMS)}
    if on["conc1"]:
        b["conc"] = 1
    b["cache"], b["port"], b["tls"], b["nohead"] = on["cache"], on["port"], on["tls"], on["nohead"]
    b["mirrors"] = [dict(m, name=m["name"] + (":5000" if on["port"] else ""), prefix="mir" if on["prefix"] else "")
                    for m in base["mirrors"]]
    return b


def l2_key(s):
    return json.dumps([s["op"], s["R"], s["upprio"], s["mirrors"], s.get("conc", 0), s.get("row", "000000"),
                       s.get("defmirrors", False), s.get("dmax", 0)], sort_keys=True)


def l2_class(t, r):
    """What makes a rejected layer-2 trace specific: operation, the request class at which the
    monitor rejected (+cont: a paging continuation while mirrors are configured), the classes of
    the requests that received an injected fault, the fault kinds."""
    s = t["scenario"]["scenario"]
    ev = r["event"] or {}
    kinds = sorted({f["kind"] for f in s.get("faults", [])})
    if s.get("persist"):
        kinds.append("P" + s["persist"]["kind"] + "/" + (s["persist"]["class"] or "all"))
    cl = ev.get("cl", ev.get("ev", "?"))
    if "last=" in ev.get("sig", "") and s["mirrors"]:
        cl += "+cont"
    hit = sorted({e["cl"] + ("+cont" if "last=" in e["sig"] else "") for e in t["events"] if e["ev"] == "att" and e.get("inj") == 1})
    return "%s:%s:faulted=%s:%s" % (s["op"], cl, ",".join(hit) or "none", "+".join(kinds) or "none")


def l2_fixed(base, info):
    """Scenario classes that have produced a violation before (on the unchanged tree or under a
    seeded change) are run in every tier, whatever the sample."""
    out = []

    def find(op, R, nm):
        for b in base:
            # any retry limit (request positions do not depend on it); the caller sets the one it needs
            if b["op"] == op and len(b["mirrors"]) == nm and b.get("row") == "000000" and \
                    all(m["mode"] == "has" and m["prio"] == 0 for m in b["mirrors"]) and b["upprio"] == 0:
                return dict(b, R=R), b
        raise vlib.ToolError("no first-round configuration of %s with %d mirror(s) among the probes" % (op, nm))

    def first(b0, cl):
        return info[l2_key(b0)][1].index(cl) + 1

    for op in ("blob-put-chunked", "blob-put-stream"):
        b, b0 = find(op, 3, 0)
        if b:
            p = first(b0, "upload_patch")
            for kind in ("416r", "404"):                                   # S2
                out.append(dict(b, faults=[{"pos": p, "kind": kind}]))
            for kind in ("500", "504", "404"):                             # seeded change C12-2
                out.append(dict(b, persist={"class": "upload_patch", "kind": kind, "from": 2}))
    b, b0 = find("blob-delete", 3, 1)                                           # writes skip mirrors
    if b:
        out.append(dict(b))
    b, b0 = find("blob-get", 3, 0)                                              # throttle slots
    if b:
        out.append(dict(b, R=5, persist={"class": "blob_get", "kind": "trunc700", "from": 1}))
    for op, cl in (("tag-list-paged", "tag_list"), ("referrer-list-paged", "referrers")):
        b, b0 = find(op, 3, 1)                                                  # continuation without back-off
        if b:
            out.append(dict(b, faults=[{"pos": 2, "kind": "500"}]))
            out.append(dict(b, faults=[{"pos": 2, "kind": "429ra"}]))
    b, b0 = find("blob-put-oneshot", 3, 0)                                      # seeded change C17-4
    if b:
        for conc in (1, 2, 3):
            for kind in ("500", "reset"):
                out.append(dict(b, R=5, conc=conc, persist={"class": "upload_put", "kind": kind, "from": 1}))
    # round 4: history left by an earlier operation + idle gap (seeded C12-7); mirrors from the default host and a
    # second registry (seeded C12-8), each with its neighbours (no gap, per-registry mirrors, other order)
    for op, p2 in (("seq-manifest-get", 3), ("seq-blob-get-head", 3), ("seq-tag-list-head-nogap", 3)):
        b, b0 = find(op, 3, 0)
        for k1, k2 in (("500", "500"), ("reset", "502"), ("504", "429")):
            out.append(dict(b, faults=[{"pos": 1, "kind": k1}, {"pos": p2, "kind": k2}]))
        out.append(dict(b, dmax=1, faults=[{"pos": 1, "kind": "500"}, {"pos": p2, "kind": "500"}]))
    for op in ("seq2-manifest-get", "seq2-blob-head-tag-list", "seq-manifest-get"):
        for nm in (1, 2):
            b, b0 = find(op, 3, nm)
            out.append(dict(b, defmirrors=True))
            out.append(dict(b, defmirrors=True, faults=[{"pos": 1, "kind": "404"}]))
            out.append(dict(b))
    b, b0 = find("referrer-list", 3, 0)                                         # referrers probe
    if b:
        out.append(dict(b, faults=[{"pos": 1, "kind": "502"}]))
    return out


def run_l2(ctx, rng, cov):
    thorough = ctx.thorough
    # 1. fault free: request positions of every operation under every configuration
    base = []
    for op in OPS:
        for mirrors, upprio in mirror_confs(op, thorough):
            b0 = {"op": op, "upprio": upprio, "mirrors": mirrors, "faults": [], "di_us": 2000}
            if thorough:
                variants = [(R, "000000") for R in (1, 2, 3)] + [(R, rng.choice(L2_ROWS[1:])) for R in (2, 3)]
            else:
                Rs = rng.sample([2, 3], 2)
                variants = [(Rs[0], "000000"), (Rs[1], rng.choice(L2_ROWS[1:]))]
            for R, row in variants:
                b = dict(l2_apply(dict(b0, R=R), row), id="probe-%d" % len(base),
                         di_us=rng.choice([1000, 2000, 2000, 5000]) if row != "000000" else 2000)
                if row != "000000":
                    # round 4: delayMax (in units of delayInit), and where the mirror list comes from: the entry of the
                    # registry or the default host (then no host has an entry, so no priorities / prefixes of its own)
                    b["dmax"] = rng.choice([1, 2, 4, 30])
                    if mirrors and upprio == 0 and all(m["prio"] == 0 and not m["prefix"] for m in b["mirrors"]):
                        b["defmirrors"] = rng.random() < 0.5
                base.append(b)
    probes = drive(ctx, "l2probe", base, "l2probe", par=24)
    info = {}
    for s, t in zip(base, probes):
        # without mirrors and without faults every operation succeeds, else driver or simreg are broken (with
        # mirrors a failure may be the code's: the probe traces are validated like all others)
        if t["meta"]["ff_ret"] == "err" and not s["mirrors"] and s.get("row") == "000000" and not t["meta"].get("hang"):
            raise vlib.ToolError("fault-free %s fails without mirrors: the driver or simreg is broken" % s["op"])
        info[l2_key(s)] = (t["meta"]["ff_n"], t["meta"]["classes"] or [])
    # 2. fault plans
    singles, doubles, persist = [], [], []
    for s in base:
        n, classes = info[l2_key(s)]
        for pos in range(1, n + 2):
            for kind in FAULTS:
                singles.append(dict(s, faults=[{"pos": pos, "kind": kind}]))
        for p1, p2 in itertools.combinations(range(1, n + 3), 2):
            for k1, k2 in itertools.product(FAULTS, repeat=2):
                doubles.append((s, p1, k1, p2, k2))
        for cl in sorted(set(classes)) + [""]:
            for kind in FAULTS:
                for frm in (1, 2):
                    if kind == "429ra" and s["R"] > 2:
                        continue
                    persist.append(dict(s, persist={"class": cl, "kind": kind, "from": frm}))
    cov["l2_single_fault_space"] = len(singles)
    cov["l2_double_fault_space"] = len(doubles)
    cov["l2_persistent_fault_space"] = len(persist)
    if thorough:
        pick = singles + [dict(s, faults=[{"pos": p1, "kind": k1}, {"pos": p2, "kind": k2}])
                          for s, p1, k1, p2, k2 in rng.sample(doubles, min(len(doubles), 3000))]
        pick += rng.sample(persist, min(len(persist), 3000))
    else:
        pick = rng.sample(singles, min(len(singles), 450))
        pick += [dict(s, faults=[{"pos": p1, "kind": k1}, {"pos": p2, "kind": k2}])
                 for s, p1, k1, p2, k2 in rng.sample(doubles, min(len(doubles), 120))]
        pick += rng.sample(persist, min(len(persist), 180))
    pick += l2_fixed(base, info)
    scns = [dict(s, id="l2-%d" % i) for i, s in enumerate(pick)]
    # Retry-After costs real seconds: keep those runs apart so that they overlap each other
    scns.sort(key=lambda s: -sum(1 for f in s["faults"] if f["kind"] == "429ra") - (5 if (s.get("persist") or {}).get("kind") == "429ra" else 0))
    traces = drive(ctx, "l2", scns, "l2", par=32, timeout=2400)
    cov["l2_scenarios"] = len(scns)
    cov["l2_operations"] = OPS
    out = []
    for t, s in zip(probes, base):
        out.append({"id": t["id"], "events": t["events"], "header": t["header"],
                    "scenario": {"layer": 2, "scenario": s}, "meta": t["meta"]})
    for t, s in zip(traces, scns):
        out.append({"id": t["id"], "events": t["events"], "header": t["header"],
                    "scenario": {"layer": 2, "scenario": s}, "meta": t["meta"]})
    return out


# ------------------------------------------------------------------------ upload layer
def run_up(ctx, rng, cov):
    g = ctx.tlc_scenarios("RegHttpUploadGen", "C12_up_gen.cfg" if not ctx.thorough else "C12_up_gen3.cfg", workers=1,
                          label="generator upload scripts (BFS)", timeout=1500)
    scns = g["scenarios"]
    # with the no-progress guard (commit 94ee6b0) the design predicts that every script returns
    if len(scns) < 50 or any(s["predicted"] == "runaway" for s in scns):
        raise vlib.ToolError("upload generator: %d scenarios, %d predicted to run away (the design spec has the guard)"
                             % (len(scns), sum(1 for s in scns if s["predicted"] == "runaway")))
    if not ctx.thorough and len(scns) > 260:
        scns = rng.sample(scns, 260)
    for i, s in enumerate(scns):
        s["id"] = "up-%d" % i
        s["R"] = 3
    traces = drive(ctx, "up", scns, "up", par=24)
    cov["up_scenarios"] = len(scns)
    cov["up_predicted_runaway"] = sum(1 for s in scns if s["predicted"] == "runaway")
    cov["up_observed"] = {}
    for t in traces:
        o = t["meta"]["outcome"]
        cov["up_observed"][o] = cov["up_observed"].get(o, 0) + 1
    cov["up_as_predicted"] = sum(1 for t in traces if t["meta"].get("exact"))
    return [{"id": t["id"], "events": t["events"], "header": t["header"], "scenario": {"layer": "up", "scenario": s},
             "meta": t["meta"]} for t, s in zip(traces, scns)]


# ------------------------------------------------------------------- design spec checks
def model_check(ctx, cov):
    """Exhaustive checks of (D) composed with (P).  Runs that are expected to fail show, at design
    level, a known defect the spec transcribes (S1) or - behind a switch - the behaviour before a fix
    (throttle slot, upload loop), so that the reverse patches seeded/fixrev-C12-* stay explained."""
    runs = [("RegHttpMC", "C12_mc_quick.cfg", "2 hosts, 1 request, R 1-2, equal priorities, all 21 reply kinds", None),
            ("RegHttpMC", "C12_live.cfg", "every call returns (liveness), R 2", None),
            ("RegHttpMC", "C12_mc_s1.cfg", "priorities differ: order of the code (expected: S1)", "Ok"),
            ("RegHttpMC", "C12_mc_leak.cfg", "2 throttle slots, as the code (slot returned before re-entry): never stuck", None),
            ("RegHttpMC", "C12_mc_leak_old.cfg", "switch FixLeak=FALSE, the code before eb4e31c (expected: stuck in Acquire; "
             "explains seeded/fixrev-C12-4)", "NoThrottleBlock"),
            ("RegHttpMC", "C12_mc_idle.cfg", "2 requests in sequence with idle gaps on 1 host: history of the earlier one", None),
            ("RegHttpMC", "C12_mc_idle_old.cfg", "switch StoreAnchor=FALSE, the seeded change C12-7 (expected: retry without "
             "back-off after an idle gap)", "Ok"),
            ("RegHttpMC", "C12_mc_link.cfg", "listing + request for its pagination link (names the serving host, NoMirrors)", None),
            ("RegHttpMC", "C12_mc_link_old.cfg", "switch LinkEntries=TRUE, as found before ac54726 (expected: the link is "
             "re-sent to the same host without back-off, finding C12-5; explains seeded/fixrev-C12-5)", "Ok"),
            ("RegHttpMC", "C12_mc_nr.cfg", "one-shot bodies (not-retryable abort of next()), 2 requests, 2 slots: every "
             "exit returns its slot", None),
            ("RegHttpMC", "C12_mc_nr_old.cfg", "switch RelNR=FALSE, the seeded change C17-4 (expected: slot not returned)",
             "SlotsAccounted"),
            ("RegHttpUpload", "C12_up_code.cfg", "chunk loop as the code (no-progress guard): terminates, no endless repeat", None),
            ("RegHttpUpload", "C12_up_old.cfg", "switch Guard=FALSE, the code before 94ee6b0 (expected: endless repeat; "
             "explains seeded/fixrev-C12-2)", "NoEndlessRepeat")]
    if ctx.thorough:
        runs += [("RegHttpMC", "C12_mc_waive.cfg", "all priority assignments, S1 pattern waived", None),
                 ("RegHttpMC", "C12_mc_doc.cfg", "all priority assignments, documented order: (P) holds unwaived", None),
                 ("RegHttpMC", "C12_mc_nr_t.cfg", "one-shot bodies, R 2-3, 6 kinds", None),
                 ("RegHttpMC", "C12_mc_idle_t.cfg", "sequences with idle gaps, 2 hosts, 7 kinds", None),
                 ("RegHttpMC", "C12_mc_link_t.cfg", "pagination links, 7 kinds, 3 faults", None),
                 ("RegHttpMC", "C12_live_t.cfg", "every call returns (liveness), R 1-2", None),
                 ("RegHttpMC", "C12_mc_t3.cfg", "3 hosts, R 1-3", None),
                 ("RegHttpMC", "C12_mc_t2ids.cfg", "2 overlapping requests", None)]
    states = trans = 0
    expected = {}
    # the runs are independent: three lanes side by side (the expected counterexamples share one lane, so that
    # the trace files TLC writes next to the spec never collide); each TLC gets a share of the cores
    import concurrent.futures
    import os
    ctx._specdir()
    lanes = [[r for r in runs if r[3] is not None], [], []]
    for i, r in enumerate(sorted((r for r in runs if r[3] is None), key=lambda r: r[1])):
        lanes[1 + i % 2].append(r)
    w = max(2, (os.cpu_count() or 4) // 3)

    def lane(rs):
        return [(r, ctx.tlc(r[0], r[1], label=r[2], timeout=3000, allow_violation=r[3] is not None, workers=w)) for r in rs]
    with concurrent.futures.ThreadPoolExecutor(max_workers=3) as ex:
        done = [x for l in ex.map(lane, lanes) for x in l]
    for (mod, cfg, label, expect), r in done:
        if expect is not None:
            if not r["violated"] or expect not in r["violated"]:
                raise vlib.ToolError("%s/%s: the design spec no longer shows %s (got %s): (D) drifted from the code"
                                     % (mod, cfg, expect, r["violated"]))
            expected[cfg] = r["violated"]
        else:
            states += r["distinct"]
            trans += r["generated"]
    cov["states"], cov["transitions"] = states, trans
    cov["design_level_counterexamples"] = expected


# ---------------------------------------------------------------------- validation
def report(ctx, r):
    t = r["trace"]
    sig = classify(t, r)
    ctx.report("c12:" + sig, "%s at event %s of trace %s" % (sig, json.dumps(r["event"]), t["id"]),
               {"scenario": t["scenario"], "header": t["header"], "events": t["events"], "rejected_at": r["line"],
                "cmd": "tools/check C12 --replay <this file>"})
    return sig


def validate_all(ctx, traces, tag):
    """All traces in ONE TLC run (spec TSpecAll of RegHttpTrace: no invariant, every trace whose
    monitor latched a violated obligation is printed).  Returns (accepted, rejected) like
    vlib.validate_batch."""
    import re
    if not traces:
        return 0, []
    fn = ctx.path("traces", "c12-%s.ndjson" % tag)
    index = []
    with open(fn, "w") as f:
        for ti, t in enumerate(traces + [{"id": "<end>", "header": traces[0]["header"], "events": []}]):
            hdr = {"ev": "reset", "trace": str(t["id"])}
            hdr.update(t["header"])
            f.write(json.dumps(hdr, sort_keys=True) + "\n")
            index.append((ti, -1))
            for ei, ev in enumerate(t["events"]):
                f.write(json.dumps(ev, sort_keys=True) + "\n")
                index.append((ti, ei))
    res = ctx.tlc("RegHttpTrace", "C12_trace_all.cfg", workers=1, timeout=3000, record=False,
                  env={"VERIF_TRACE": fn, "JAVA_TOOL_OPTIONS": "-Dtlc2.tool.queue.IStateQueue=StateDeque -Xss64m"})
    out = res["output"]
    hw = re.findall(r'<<"HIGHWATER", (\d+), (\d+)>>', out)
    if not hw or int(hw[-1][1]) != len(index) or int(hw[-1][0]) < len(index) + 1:
        raise vlib.ToolError("batch validation did not consume the whole log (%s of %d lines):\n%s"
                             % (hw[-1] if hw else "?", len(index), out[-3000:]))
    ctx.cov["trace_states"] = ctx.cov.get("trace_states", 0) + res["distinct"]
    rejected = []
    for tid, bad, line in re.findall(r'<<"REJ", "([^"]*)", "([^"]*)", (\d+)>>', out):
        ti, ei = index[int(line) - 1]
        t = traces[ti]
        if str(t["id"]) != tid:
            raise vlib.ToolError("rejection of %s reported at a line of %s" % (tid, t["id"]))
        rejected.append({"trace": t, "line": ei, "event": t["events"][ei] if ei >= 0 else None,
                         "reason": "invariant Ok", "detail": bad, "state": ""})
    return len(traces) - len(rejected), rejected


def validate(ctx, traces, cov, what, s1_sample=6):
    """Bulk validation waives exactly the pattern of the known finding S1 (host order = priorities
    sorted the wrong way round; every other obligation, and every other order violation, is still
    demanded).  S1 itself is then reported from a sample of the traces with distinct priorities,
    validated without the waiver."""
    bulk = []
    for t in traces:
        t2 = dict(t)
        t2["header"] = dict(t["header"], waive=["prio-asc"])
        bulk.append(t2)
    accepted, rejected = validate_all(ctx, bulk, what)
    sigs = {}
    for r in rejected:
        sig = report(ctx, r)
        sigs[sig] = sigs.get(sig, 0) + 1
    cand = [t for t in traces if len(set(t["header"]["prio"])) > 1 and any(e.get("mir") == 1 for e in t["events"])]
    cand.sort(key=lambda t: (not str(t["id"]).startswith("order-"), str(t["id"])))
    pick = cand[:s1_sample]
    if pick:
        _, r2 = validate_all(ctx, pick, what + "-s1")
        for r in r2:
            sig = report(ctx, r)
            sigs[sig] = sigs.get(sig, 0) + 1
    cov[what + "_rejected"] = sigs
    return accepted


def binding_demo(ctx, traces):
    """A corrupted copy of an accepted trace must be rejected, else the trace spec does not bind."""
    def retry_pair(t):
        ev = t["events"]
        for i in range(len(ev) - 1):
            a, b = ev[i], ev[i + 1]
            # the first failure of that host in the trace: the demand is then exactly "reply + delay"
            if a["ev"] == "att" and b["ev"] == "att" and a["k"] == "tf" and a["h"] == b["h"] and a["id"] == b["id"] \
                    and not any(e.get("h") == a["h"] and (e["ev"] == "cut" or e.get("k") not in (None, "ok"))
                                for e in ev[:i]):
                return i
        return None
    def plain(t):
        # every logical request of the trace uses back-off (no IgnoreErr): the demand applies to every retry
        return all(e.get("ie") == 0 for e in t["events"] if e["ev"] == "do")
    base = next((t for t in traces if t["scenario"].get("layer") == 1 and plain(t) and retry_pair(t) is not None
                 and not t["meta"].get("hang")), None)
    if base is None:
        raise vlib.ToolError("no accepted trace with a retry to demonstrate the binding")
    i = retry_pair(base)
    demos = []
    d1 = copy.deepcopy(base)
    d1["events"][i + 1]["ta"] = d1["events"][i]["tr"] + 1
    d1["id"] = "demo-no-backoff"
    demos.append((d1, "backoff-gap"))
    d2 = copy.deepcopy(base)
    d2["events"][i + 1:i + 1] = [copy.deepcopy(d2["events"][i]) for _ in range(d2["header"]["R"] + 2)]
    for j, e in enumerate(d2["events"]):
        if e["ev"] == "att":
            e["ta"] += 100000 * j
            e["tr"] += 100000 * j
    d2["id"] = "demo-too-many-attempts"
    demos.append((d2, "attempt-bound"))
    wr = next((t for t in traces if t["scenario"].get("layer") == 2 and len(t["header"]["hosts"]) > 1
               and any(e["ev"] == "att" and e["mut"] == 1 for e in t["events"])), None)
    if wr is not None:
        d3 = copy.deepcopy(wr)
        e = next(e for e in d3["events"] if e["ev"] == "att" and e["mut"] == 1)
        e["h"] = d3["header"]["hosts"][0]
        d3["id"] = "demo-write-to-mirror"
        demos.append((d3, "write-to-mirror"))
    for d, want in demos:
        d["header"] = dict(d["header"], waive=["prio-asc"])
        _, rj = ctx.validate_batch("RegHttpTrace", "C12_trace.cfg", [d])
        if not rj or want not in (rj[0]["detail"] or ""):
            raise vlib.ToolError("binding demo %s: expected rejection %s, got %s" % (d["id"], want, rj and rj[0]["detail"]))
    return len(demos)


def run(ctx):
    import os
    rng = random.Random(ctx.seed)
    ctx.build("c12drv")
    cov = {}
    only = os.environ.get("C12_ONLY", "")
    accepted = 0
    alltr = []
    if ctx.replay:
        # re-drive the recorded scenario on the real code and validate the new trace (without waiver)
        rp = json.load(open(ctx.replay))["replay"]["scenario"]
        layer, scn = rp["layer"], rp["scenario"]
        mode = {1: "l1", 2: "l2", "up": "up"}[layer]
        t = drive(ctx, mode, [scn], "replay", par=1)[0]
        tr = {"id": t["id"], "events": t["events"], "header": t["header"], "scenario": rp, "meta": t["meta"]}
        acc, rej = validate_all(ctx, [tr], "replay")
        for r in rej:
            report(ctx, r)
        return "model_checking", {"replayed": scn.get("id"), "traces_validated_against_impl": acc,
                                  "rejected": [classify(r["trace"], r) for r in rej]}, []
    if only in ("", "mc"):
        model_check(ctx, cov)
    if only in ("", "l1"):
        traces = run_l1(ctx, rng, cov)
        accepted += validate(ctx, traces, cov, "l1")
        alltr += traces
    if only in ("", "l2"):
        traces = run_l2(ctx, rng, cov)
        accepted += validate(ctx, traces, cov, "l2")
        alltr += traces
    if only in ("", "up"):
        traces = run_up(ctx, rng, cov)
        accepted += validate(ctx, traces, cov, "up", s1_sample=0)
        alltr += traces
    if only == "" and not ctx.violations:
        cov["binding_demos_rejected"] = binding_demo(ctx, alltr)
    cov["traces_validated_against_impl"] = accepted
    cov["evaluations"] = len(alltr)
    sigs = set()
    for t in alltr:
        sigs.add(json.dumps([(e["ev"], e.get("k"), e.get("h"), e.get("call"), e.get("ok")) for e in t["events"]]))
    cov["distinct_nontrivial"] = len(sigs)
    cov["rule"] = ("an evaluation = one scenario executed on the real code (layer 1: scripted replies on reghttp.Client; "
                   "layer 2: one scheme/reg operation with a fault plan and a mirror set against simreg; upload: a scripted "
                   "upload session); distinct = distinct sequences of (event, reply class, host, call, result)")
    cov["exhaustive"] = False
    samples = []
    for t in alltr[:1] + alltr[-1:]:
        samples.append({"id": t["id"], "scenario": t["scenario"], "events": t["events"][:30]})
    cov["samples"] = samples
    cov["entry_points"] = ["reghttp.Client.Do", "reghttp.Resp.Read", "reghttp.Resp.Seek", "reghttp.Resp.Close"] + \
                          ["scheme/reg: " + o for o in OPS]
    assumptions = [
        "exhaustive only within the stated constants ((D): <=3 hosts, <=2 overlapping requests, retry limit <=3, "
        "content of 2 symbols, <=5 faults per behaviour; upload loop: 3 offsets, 2-offset chunks)",
        "times are read from a monotonic clock at the model hosts; only lower bounds are demanded, measured from a "
        "reference that scheduling noise can only move in the safe direction",
        "'a backing-off host was tried before an idle one' is only claimed for Retry-After windows that extend >= 0.5 s "
        "beyond the start of the call (assumes no 0.5 s stall between two statements of the driver)",
        "a call counts as not terminating when its goroutine is parked in pqueue.Acquire in a sequential scenario "
        "(only that goroutine could release a slot), observed three times 20 ms apart after 200 ms without activity",
        "layer 2 groups wire requests into logical requests by method+URL (calls are not visible from outside)",
        "the model registry simreg conforms to the distribution spec (it is an independent implementation)",
    ]
    return "model_checking", cov, assumptions

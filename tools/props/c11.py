"""C11 - credentials go only to their own registry, over its configured transport; no secrets in logs.

(D) spec/Auth.tla (+AuthMC configuration space) is checked exhaustively by TLC: the model of the
code as it is today (cleartext and sub-domain repairs in, S3 open) leaks only through handlers keyed
by a foreign host, the model with S3 repaired as well admits no leak, the model of the code as found
admits three mechanisms.  TLC generates server scripts from the same spec (AuthGen: exhaustive to depth 2 and seeded
random walks to depth 4); harness/cmd/c11drv replays each script against the real regclient with
scripted in-process hosts and records what every host received and what was logged; TLC validates
every recorded trace against the monitor (P) spec/AuthProp.tla through spec/AuthTrace.tla.  A
verdict comes only from a real trace rejected by (P) under TLC.
"""
import collections
import copy
import json
import os
import re
import time

import vlib

ROLE = {"A": "registry", "B": "registry", "M": "mirror"}
TOKEN_HOSTS = {"Ta", "Tb", "Tm", "X"}
KEEP = {"msg": ("to", "scheme", "owners"), "challenge": ("from", "realm"), "log": ("owners",),
        "errout": ("owners",), "logdone": (), "redirect": (), "location": (), "done": ()}


def load_jsonl(fn):
    out = []
    with open(fn) as f:
        for line in f:
            if line.strip():
                out.append(json.loads(line))
    return out


def strip(ev):
    """The facts the monitor looks at (diagnostic fields stay in the replay file only)."""
    return dict([("ev", ev["ev"])] + [(k, ev[k]) for k in KEEP[ev["ev"]]])


# ----------------------------------------------------------------------------------------------
# classification of a rejected trace (names the class of failure; the verdict is TLC's)
# ----------------------------------------------------------------------------------------------
def secret_kinds(what, owner):
    kinds = set()
    for item in what.split():
        sid = item.split("/")[0]
        parts = sid.split(":")
        if len(parts) < 2 or parts[1] != owner:
            continue
        kinds.add({"pw": "creds", "user": "creds", "oldpw": "oldpw", "idt": "idtoken", "at": "token",
                   "rt": "refresh"}.get(parts[0], parts[0]))
    return "+".join(sorted(kinds)) or "secret"


REQ_CLASS = {"m": "manifest", "c": "blob", "l": "blob", "x": "blob", "u": "upload", "g": "tag-list", "f": "referrers",
             "k": "referrers-tag", "o": "other", "t": "token"}


def req_class(ev):
    return REQ_CLASS.get(ev.get("obj"), "other")


def role_of(host, events, upto, conf):
    """How the host got involved in this run.  P has the DNS name of registry A but another port."""
    if host in TOKEN_HOSTS:
        return "token-host"
    pre = "subdomain-" if host == "S" else "same-name-" if host == "P" else ""
    for e in events[:upto]:
        if e["ev"] == "redirect" and e["to"] == host and e["from"] != host:
            return pre + "redirect-target"
    for e in events[:upto]:
        if e["ev"] == "location" and e["to"] == host and e["from"] != host:
            return pre + "upload-location"
    if conf.get("op") in ("ext", "copyext") and conf.get("extHost") == host and host not in ROLE:
        return pre + "external-host"
    return ROLE.get(host, "unknown-host")


def signature(trace, idx, bad, after_o1=False):
    """after_o1: an O1 obligation was violated earlier in the same trace (credentials already went
    through a handler keyed by a foreign host, so what follows is a consequence of that)."""
    events, conf = trace["events"], trace["scenario"].get("conf", {})
    ev = events[idx]
    if bad.startswith("O3") and ev["ev"] == "errout":
        kinds = "+".join(sorted(set(secret_kinds(ev.get("what", ""), o) for o in ev["owners"])))
        return "O3:%s:returned-error" % kinds
    if bad.startswith("O3"):
        m = re.search(r'"msg":"([^"]*)"|msg="([^"]*)"|msg=(\S+)', ev.get("line", ""))     # JSON / text handler
        name = (m.group(1) or m.group(2) or m.group(3)) if m else "?"
        kinds = "+".join(sorted(set(secret_kinds(ev.get("what", ""), o) for o in ev["owners"])))
        return "O3:%s:%s" % (kinds, name.replace(" ", "-"))
    to = ev["to"]
    if bad.startswith("O2"):
        via = "direct"
        hops = [e for e in events[:idx] if e["ev"] in ("redirect", "location") and e["to"] == to
                and e["scheme"] == ev["scheme"]]
        if hops:
            via = "redirect" if any(e["ev"] == "redirect" for e in hops) else "upload-location"
            if all(e.get("spell") == "mixed-case" for e in hops):
                via += "-mixed-case"     # the URL spelled the registry's name in another case
        elif conf.get("op") in ("ext", "copyext") and conf.get("extHost") == to and conf.get("extSch") == ev["scheme"]:
            via = "external-url"
        whose = "own" if ev["owners"] == [to] and not after_o1 else "foreign"
        return "O2:cleartext-to-tls-%s:via-%s:%s-credentials" % (ROLE.get(to, "host"), via, whose)
    m = re.match(r"O1 secret of (\S+) sent to", bad)
    owner = m.group(1) if m else "?"
    what = secret_kinds(ev.get("what", ""), owner)
    orole = role_of(owner, events, 0, conf)
    if to in TOKEN_HOSTS:
        namers = sorted(set(role_of(e["from"], events, i, conf) for i, e in enumerate(events[:idx])
                            if e["ev"] == "challenge" and e.get("realm") == to))
        # a configured registry / mirror that names the realm too does so for its own clientHost; what
        # matters is which unconfigured hosts named it for this one
        foreign = [n for n in namers if n not in ("registry", "mirror")]
        sig = "O1:%s-of-%s-to-token-host:named-by-%s" % (what, orole, "+".join(foreign or namers) or "nobody")
        if not foreign:
            # between configured hosts: name the request class that was being authenticated
            last = [e for e in events[:idx] if e["ev"] == "msg" and e["to"] not in TOKEN_HOSTS]
            sig += ":for-" + (req_class(last[-1]) if last else "other")
        return sig
    how = "after-its-401" if any(e["ev"] == "challenge" and e["from"] == to for e in events[:idx]) else "unchallenged"
    trole = role_of(to, events, idx, conf)
    sig = "O1:%s-of-%s-to-%s:%s" % (what, orole, trole, how)
    if trole in ("registry", "mirror"):
        sig += ":on-" + req_class(ev)     # between configured hosts: name the request class
    return sig


# ----------------------------------------------------------------------------------------------
# helpers
# ----------------------------------------------------------------------------------------------
def replay(ctx, scns, name, jobs=16):
    fin = ctx.path("c11", name + ".scn.jsonl")
    fout = ctx.path("c11", name + ".tr.jsonl")
    with open(fin, "w") as f:
        for s in scns:
            f.write(json.dumps(s) + "\n")
    ctx.run(["c11drv", "-mode", "replay", "-in", fin, "-out", fout, "-seed", str(ctx.seed), "-j", str(jobs),
             "-tmp", ctx.path("c11", "tmp", "x")[:-2]], timeout=1500)
    trs = load_jsonl(fout)
    if len(trs) != len(scns):
        raise vlib.ToolError("driver returned %d traces for %d scenarios" % (len(trs), len(scns)))
    return trs


HEAD_SWITCHES = {"HonorsHost": False, "SchemeBound": True, "StripOnRedirect": True, "FoldCase": True,
                 "PgNoMirrors": True}

PROBES = [
    {"id": "probe-s3", "conf": {"op": "bget", "tls": {"A": True, "B": True, "M": True},
                                "cred": {"A": "up", "B": "up", "M": "up"}},
     "script": [{"h": "A", "o": "l", "r": {"t": "rd", "to": "R", "ts": "https"}},
                {"h": "R", "o": "l", "r": {"t": "u", "c": "b1"}},
                {"h": "A", "o": "l", "r": {"t": "rd", "to": "R", "ts": "https"}}]},
    {"id": "probe-plain", "conf": {"op": "bget", "tls": {"A": True, "B": True, "M": True},
                                   "cred": {"A": "up", "B": "up", "M": "up"}},
     "script": [{"h": "A", "o": "l", "r": {"t": "u", "c": "b1"}},
                {"h": "A", "o": "l", "r": {"t": "rd", "to": "A", "ts": "http"}}]},
    {"id": "probe-case", "conf": {"op": "bget", "tls": {"A": True, "B": True, "M": True}, "ports": True,
                                  "cred": {"A": "up", "B": "up", "M": "up"}},
     "script": [{"h": "A", "o": "l", "r": {"t": "rd", "to": "Ac", "ts": "http"}},
                {"h": "A", "o": "l", "r": {"t": "u", "c": "b1"}},
                {"h": "A", "o": "l", "r": {"t": "rd", "to": "Ac", "ts": "http"}}]},
    {"id": "probe-page", "conf": {"op": "tags", "tls": {"A": True, "B": True, "M": True}, "mirror": True,
                                  "cred": {"A": "up", "B": "up", "M": "up"}},
     "script": [{"h": "M", "o": "g", "r": {"t": "nf"}}, {"h": "A", "o": "g", "r": {"t": "ok"}},
                {"h": "A", "o": "g", "r": {"t": "u", "c": "b1"}}]},
    {"id": "probe-sub", "conf": {"op": "bget", "tls": {"A": True, "B": True, "M": True},
                                 "cred": {"A": "up", "B": "up", "M": "up"}},
     "script": [{"h": "A", "o": "l", "r": {"t": "u", "c": "b1"}},
                {"h": "A", "o": "l", "r": {"t": "rd", "to": "S", "ts": "https"}}]},
]


# Dimensions of the replay that the design spec does not depend on (that is the claim being tested: a
# change that makes one of them matter shows as drift and, if it leaks, as a violation).  They are
# assigned round robin so that every combination meets every TLC configuration many times.
REPLAY_DIMS = [("src", ["", "docker", "helper"]),           # credentials from config.Host / docker config.json / helper
               ("naming", ["", "", "ip", "alias"]),         # host names (with conf.ports: host:port) / IPs / Name != Hostname
               ("logfmt", ["", "json"]),                    # slog text / JSON handler
               ("tokshape", ["exp", "iat", "trunc", "html", "huge"])]   # undecodable 200 token responses


def assign_replay_dims(scns, seed):
    for i, s in enumerate(scns):
        k = i + seed
        for name, vals in REPLAY_DIMS:
            s["conf"][name] = vals[k % len(vals)]
            k //= len(vals)
        if s["conf"]["naming"] == "ip" and any(e["r"].get("to") == "Ac" for e in s["script"]):
            s["conf"]["naming"] = ""      # an IP address has no mixed-case spelling


def detect_switches(ctx):
    """Which of the modelled repairs does the code under test contain?  Only used to let the
    generator's predictions follow the code (drift statistics); never a verdict."""
    trs = {t["id"]: t for t in replay(ctx, PROBES, "probe", jobs=1)}

    def leak(tid, pred):
        return any(e["ev"] == "msg" and e["owners"] and pred(e) for e in trs[tid]["events"])
    return {
        "HonorsHost": not leak("probe-s3", lambda e: e["to"] == "R" and "A" in e["owners"]),
        "SchemeBound": not leak("probe-plain", lambda e: e["to"] == "A" and e["scheme"] == "http"),
        "StripOnRedirect": not leak("probe-sub", lambda e: e["to"] == "S"),
        "PgNoMirrors": not leak("probe-page", lambda e: e["to"] == "A" and "M" in e["owners"]),
        "FoldCase": not leak("probe-case", lambda e: e["to"] == "A" and e["scheme"] == "http"),
    }


def write_cfg(ctx, base, name, subst):
    d = ctx._specdir()
    with open(os.path.join(d, base)) as f:
        txt = f.read()
    for k, v in subst.items():
        txt, n = re.subn(r"(?m)^(\s*%s\s*(?:=|<-)\s*).*$" % re.escape(k), r"\g<1>" + str(v), txt)
        if n != 1:
            raise vlib.ToolError("cfg %s: constant %s not found" % (base, k))
    with open(os.path.join(d, name), "w") as f:
        f.write(txt)
    return name


def tla_bool(b):
    return "TRUE" if b else "FALSE"


def wire_of(trace):
    return [(e["to"], e["scheme"], tuple(sorted(e["owners"]))) for e in trace["events"] if e["ev"] == "msg"]


def conforms(scn, trace):
    """Does the observed message sequence equal the one predicted by (D)?"""
    if "wire" not in scn:
        return None
    pred = [(w["to"], w["sch"], tuple(sorted(w["own"]))) for w in scn["wire"]]
    obs = wire_of(trace)
    if scn["conf"]["op"] in ("copy", "copyext"):   # concurrent chains: compare per destination
        def per(x):
            d = collections.defaultdict(list)
            for m in x:
                d[m[0]].append(m)
            return dict(d)
        same = per(pred) == per(obs)
    else:
        same = pred == obs
    return same and scn.get("res") == trace["meta"].get("res")


def scan(ctx, traces):
    """One TLC pass over all traces with the monitor but without the stopping invariant: returns
    {trace index: (event index, bad)} of the traces in which (P) latched a violated obligation."""
    fn = ctx.path("traces", "AuthTrace-scan.ndjson")
    index = []
    with open(fn, "w") as f:
        for ti, t in enumerate(traces):
            hdr = {"ev": "reset", "trace": str(ti)}
            hdr.update(t.get("header", {}))
            f.write(json.dumps(hdr, sort_keys=True) + "\n")
            index.append((ti, -1))
            for ei, ev in enumerate(t["events"]):
                f.write(json.dumps(ev, sort_keys=True) + "\n")
                index.append((ti, ei))
    res = ctx.tlc("AuthTrace", "C11_scan.cfg", workers=1, timeout=3000, record=False,
                  env={"VERIF_TRACE": fn, "JAVA_TOOL_OPTIONS": "-Dtlc2.tool.queue.IStateQueue=StateDeque -Xss64m"})
    out = res["output"]
    hw = re.findall(r'<<"HIGHWATER", (\d+), (\d+)>>', out)
    if not hw:
        raise vlib.ToolError("trace scan produced no HIGHWATER line:\n" + out[-3000:])
    reached, total = int(hw[-1][0]), int(hw[-1][1])
    if total != len(index):
        raise vlib.ToolError("trace scan length mismatch %d vs %d" % (total, len(index)))
    stuck = None
    if reached < total + 1:
        stuck = index[reached - 1]      # an event without an enabled step: left to validate_batch
    rej = {}
    for kind in ("FIRST", "REJECT"):    # FIRST: what `bad` latched; REJECT: every violated obligation
        for m in re.finditer(r'<<"%s", "(\d+)", (\d+), "((?:[^"\\]|\\.)*)">>' % kind, out):
            ti, line, bad = int(m.group(1)), int(m.group(2)), m.group(3)
            if index[line - 1][0] != ti:
                raise vlib.ToolError("trace scan: %s line %d is not inside trace %d" % (kind, line, ti))
            item = (index[line - 1][1], bad)
            if kind == "FIRST":
                rej[ti] = [item]
            elif ti not in rej:
                raise vlib.ToolError("trace scan: REJECT without FIRST for trace %d" % ti)
            elif item not in rej[ti]:
                rej[ti].append(item)
    ctx.cov["trace_states"] = ctx.cov.get("trace_states", 0) + res["distinct"]
    return rej, stuck


# ----------------------------------------------------------------------------------------------
def run(ctx):
    t0 = time.time()

    def lap(what):
        vlib.log("C11: [%5.1fs] %s" % (time.time() - t0, what))
    ctx.build("c11drv")
    thorough = ctx.thorough
    lap("built")

    if ctx.replay:
        with open(ctx.replay) as f:
            rp = json.load(f)["replay"]
        scns = [rp["scenario"]]
        sw = detect_switches(ctx)
        mc, gens = [], []
    else:
        # 0. which repairs are in the tree (so that (D)'s predictions follow the code; on /repo's HEAD
        #    these are the defaults of the configs, on a fixrev seed the as-found switches)
        sw = detect_switches(ctx)
        vlib.log("C11: code under test: %s%s" % (sw, "" if sw == HEAD_SWITCHES else " (differs from the default of (D))"))

        # 1. exhaustive checks of the design spec.  Default switches = /repo today (cleartext and
        #    sub-domain and case repairs in, S3 open); "fixed" = S3 repaired too; "as found" = before the repairs.
        mc = [ctx.tlc("AuthMC", "C11_mc_asis.cfg", timeout=3000, workers=8,
                      label="code as is (S3 open), <=3 faults, 22 generator configurations: every leak goes through "
                            "a handler keyed by a foreign host"),
              ctx.tlc("AuthMC", "C11_mc_fixed.cfg" if thorough else
                      write_cfg(ctx, "C11_mc_fixed.cfg", "C11_mc_fixed_q.cfg", {"MaxFaults": 2}), timeout=3000, workers=8,
                      label="S3 repaired too, <=%d faults, 22 generator configurations: no leak" % (3 if thorough else 2))]
        # the as-found variant of the case sensitive guard (before f7f5652) must still show its leak
        cx = ctx.tlc("AuthMC", "C11_mc_case_asfound.cfg", timeout=3000, workers=8, allow_violation=True,
                     label="guard case sensitive as found (before f7f5652): expected counterexample to LeaksOnlyS3")
        if cx["violated"] != "LeaksOnlyS3" or '"other-spelling"' not in cx["output"]:
            raise vlib.ToolError("the as-found model of the case sensitive clear text guard no longer shows its leak "
                                 "(expected a counterexample to LeaksOnlyS3 via other-spelling, got %r)" % cx["violated"])
        # the same for the page links walked over the mirrors (before ac54726); with the repair the invariant holds
        px = ctx.tlc("AuthMC", "C11_mc_page_asfound.cfg", timeout=3000, workers=8, allow_violation=True,
                     label="page links over the mirrors as found (before ac54726): expected counterexample to "
                           "NoCrossConfigured")
        if px["violated"] != "NoCrossConfigured":
            raise vlib.ToolError("the as-found model of the page links no longer shows its leak (expected a "
                                 "counterexample to NoCrossConfigured, got %r)" % px["violated"])
        mc.append(ctx.tlc("AuthMC", write_cfg(ctx, "C11_mc_page_asfound.cfg", "C11_mc_page.cfg", {"PgNoMirrors": "TRUE"}),
                          timeout=3000, workers=8,
                          label="page links repaired, no redirects: no credential crosses between configured hosts"))
        if thorough:
            wide = {"Confs": "AllConfs", "MaxFaults": 2}
            mc.append(ctx.tlc("AuthMC", write_cfg(ctx, "C11_mc_asis.cfg", "C11_mc_asis_all.cfg", wide), timeout=3000,
                              workers=8, label="code as is (S3 open), <=2 faults, all 324 configurations"))
            mc.append(ctx.tlc("AuthMC", write_cfg(ctx, "C11_mc_fixed.cfg", "C11_mc_fixed_all.cfg", wide), timeout=3000,
                              workers=8, label="S3 repaired too, <=2 faults, all 324 configurations: no leak"))
            mc.append(ctx.tlc("AuthMC", "C11_mc_asfound.cfg", timeout=3000, workers=8,
                              label="code as found (before 7d8bea3, 14e04da), <=3 faults, 22 configurations: three leak "
                                    "mechanisms"))
            for k in ("HonorsHost", "SchemeBound", "StripOnRedirect"):
                one = write_cfg(ctx, "C11_mc_repair.cfg", "C11_mc_%s.cfg" % k, {k: "TRUE"})
                mc.append(ctx.tlc("AuthMC", one, timeout=3000, workers=8,
                                  label="as found + only %s, <=3 faults, 22 configurations: its leak class is gone" % k))
            mc.append(ctx.tlc("AuthMC", "C11_mc_deep.cfg", timeout=3000, workers=8,
                              label="code as is (S3 open), <=4 faults, 3 configurations, core alphabets"))
        lap("model checked")
        # 2. server scripts from the design spec with the switches of the code under test
        subst = {k: tla_bool(v) for k, v in sw.items()}
        gens = []
        if thorough:
            plan = [("C11_gen_thorough.cfg", None, 4), ("C11_gen_mid.cfg", None, 4), ("C11_gen_chain.cfg", None, 4),
                    ("C11_gen_sim.cfg", 12000, 1)]
        else:
            plan = [("C11_gen_quick.cfg", None, 4), ("C11_gen_chain.cfg", None, 4), ("C11_gen_sim.cfg", 1200, 1)]
        scns = []
        for cfg, nsim, workers in plan:
            rt = write_cfg(ctx, cfg, cfg.replace(".cfg", "_rt.cfg"), subst)
            kw = {}
            if nsim:
                kw = dict(simulate="num=%d" % nsim, depth=250, extra=["-seed", str(ctx.seed)])
            g = ctx.tlc_scenarios("AuthGen", rt, workers=workers, label="generator " + cfg, timeout=3000, **kw)
            gens.append({"cfg": cfg, "scenarios": len(g["scenarios"])})
            for s in g["scenarios"]:
                s["id"] = "%s-%d" % ("sim" if nsim else "bfs", len(scns))
                s["wire"] = [dict(w, own=sorted(w["own"])) for w in s["wire"]]
                scns.append(s)
        if len(scns) < 500:
            raise vlib.ToolError("generators produced only %d scenarios" % len(scns))

    # 3. replay on the real code
    if not ctx.replay:
        assign_replay_dims(scns, ctx.seed)
    lap("%d scenarios generated" % len(scns))
    trs = replay(ctx, scns, "main")
    lap("replayed")
    traces = []
    exact = drift = 0
    drift_ops = collections.Counter()
    notes = collections.Counter()
    for s, t in zip(scns, trs):
        c = conforms(s, t)
        if c is True:
            exact += 1
        elif c is False:
            drift += 1
            drift_ops[s["conf"]["op"]] += 1
        for n in t["meta"].get("driver_notes", []):
            notes[n.split(":")[0]] += 1
        traces.append({"id": t["id"], "header": t["header"], "full": t["events"],
                       "events": [strip(e) for e in t["events"]],
                       "scenario": {"conf": s["conf"], "script": s["script"]}, "meta": t["meta"]})
    if notes.get("stall"):
        raise vlib.ToolError("driver stalled in %d scenarios" % notes["stall"])
    if any(k.startswith("unknown") or k.startswith("driver") for k in notes):
        raise vlib.ToolError("driver could not interpret scenarios: %s" % dict(notes))

    # identical fact streams are validated once
    groups = collections.OrderedDict()
    for i, t in enumerate(traces):
        key = json.dumps([t["header"], t["events"]], sort_keys=True)
        groups.setdefault(key, []).append(i)
    reps = [traces[ix[0]] for ix in groups.values()]
    members = list(groups.values())

    # 4. TLC: one scan pass tells the clean traces from the rejected ones ...
    lap("%d distinct fact streams" % len(reps))
    rej, stuck = scan(ctx, reps)
    lap("scanned: %d rejected" % len(rej))
    clean = [r for i, r in enumerate(reps) if i not in rej]
    # ... the clean ones are accepted by the monitor with its invariant in force (one more pass) ...
    accepted, rejected = ctx.validate_batch("AuthTrace", "C11_trace.cfg", clean, timeout=3000)
    n_accepted = sum(len(members[i]) for i, r in enumerate(reps) if i not in rej) if not rejected else accepted
    reported = []
    for r in rejected:      # not expected: scan and validation disagree, or an event had no enabled step
        t = r["trace"]
        bad = (r["detail"] or r["reason"]).strip('"')
        ei = r["line"] if r["line"] is not None and r["line"] >= 0 else 0
        full = dict(t, events=t["full"])
        sig = signature(full, ei, bad) if bad.startswith("O") else "trace:" + bad
        ctx.report(sig, "%s at event %d of %s" % (bad, ei, t["id"]),
                   {"scenario": t["scenario"], "events": t["full"], "rejected_at": ei,
                    "cmd": "tools/check C11 --replay <this file>"})
        reported.append(sig)
    # ... and every class of rejection is confirmed by a rejection under the invariant
    by_sig = collections.OrderedDict()      # signature -> [(stream, event, text, is the first of its trace, member)]
    for i, items in sorted(rej.items()):
        # streams with identical facts were merged; the class of failure is named per member trace
        # (the request class is a diagnostic field outside the facts)
        for mi in members[i]:
            t = traces[mi]
            seen = set()
            for n, (ei, bad) in enumerate(items):
                sig = signature(dict(t, events=t["full"]), ei, bad,
                                any(b.startswith("O1") and e < ei for e, b in items))
                if sig not in seen:
                    seen.add(sig)
                    by_sig.setdefault(sig, []).append((i, ei, bad, n == 0, mi))
    # confirmation under the stopping invariant: one trace per obligation, and one per class that is
    # about to be reported as a violation (not matched by a known finding); only the first violated
    # obligation of a trace can stop TLC, later ones rest on the scan pass
    known = [k for k in ctx.load_known().get("findings", []) if k.get("property") == ctx.pid and k.get("status") == "known"]
    confirmed = 0
    seen_obl = set()
    for sig, lst in by_sig.items():
        is_known = any(re.fullmatch(k["signature"], sig) for k in known)
        firsts = [x for x in lst if x[3]]
        if firsts and (not is_known or sig[:2] not in seen_obl):
            seen_obl.add(sig[:2])
            i, ei, bad, _, _ = firsts[0]
            a, rj = ctx.validate_batch("AuthTrace", "C11_trace.cfg", [reps[i]], timeout=600)
            if not rj or rj[0]["line"] != ei:
                raise vlib.ToolError("scan rejected %s at event %d (%s) but validation did not" % (reps[i]["id"], ei, bad))
            confirmed += 1
        for i, ei, bad, _, mi in lst:
            t = traces[mi]
            ctx.report(sig, "%s at event %d (%s) of %s" % (bad, ei, json.dumps(t["events"][ei]), t["id"]),
                       {"scenario": t["scenario"], "events": t["full"], "rejected_at": ei,
                        "cmd": "tools/check C11 --replay <this file>"})
        reported.append(sig)
    n_rejected = sum(len(members[i]) for i in rej) + len(rejected)
    lap("validated")

    # 5. binding demo: the trace spec must reject corrupted copies of accepted traces
    demo = "skipped (replay)"
    if not ctx.replay:
        try:
            binding_demo(ctx, clean)
            demo = "5 corrupted copies of accepted traces rejected at the corrupted event"
        except NoDemoBase as e:
            # when (nearly) every trace is rejected there is nothing accepted to corrupt; the
            # rejections themselves are then the result of this run
            if not ctx.violations:
                raise vlib.ToolError(str(e))
            demo = "skipped: %s" % e

    kinds = set(json.dumps([[e["ev"], e.get("to"), e.get("scheme"), e.get("owners")] for e in t["events"]])
                for t in reps)
    leak_free_with_secrets = sum(1 for i, r in enumerate(reps) if i not in rej
                                 and any(e["ev"] == "msg" and e["owners"] for e in r["events"]))
    sample = []
    for t in (traces[:1] + traces[-1:]):
        sample.append({"id": t["id"], "conf": t["scenario"]["conf"], "script": t["scenario"]["script"][:8],
                       "events": t["events"][:12]})
    cov = {
        "expected_counterexamples": ([] if ctx.replay else
                                     ["C11_mc_case_asfound.cfg: LeaksOnlyS3 violated via other-spelling (as found before f7f5652)",
                                      "C11_mc_page_asfound.cfg: NoCrossConfigured violated (as found before ac54726)"]),
        "states": sum(r["distinct"] for r in mc), "transitions": sum(r["generated"] for r in mc),
        "traces_validated_against_impl": n_accepted,
        "rejected": n_rejected, "rejection_classes": {s: len(v) for s, v in by_sig.items()},
        "rejections_confirmed_under_invariant": confirmed,
        "evaluations": len(traces), "distinct_fact_streams": len(reps),
        "distinct_nontrivial": len(kinds),
        "accepted_streams_carrying_secrets": leak_free_with_secrets,
        "rule": "a trace = one TLC generated server script (<=2 faults exhaustively over the generator "
                "configurations, <=4 faults by seeded random walk over all configurations) replayed against the "
                "real regclient; distinct = distinct (destination, scheme, owners-found) fact sequences",
        "exhaustive": False,
        "generators": gens, "tlc_scenarios": len(scns),
        "replayed_as_predicted_by_D": exact, "drift": drift, "drift_by_op": dict(drift_ops),
        "driver_notes": dict(notes), "binding_demo": demo,
        "code_under_test_has_repairs": sw, "design_default": HEAD_SWITCHES,
        "samples": sample,
        "entry_points": ["regclient.ManifestGet/Head/Put", "regclient.BlobGet/Head/Put", "regclient.ImageCopy "
                         "(also ImageWithIncludeExternal)", "reghttp.Client.Do", "auth.Auth.HandleResponse/UpdateRequest",
                         "bearerHandler.GenerateAuth", "regclient.New/hostLoad/config.Host.Merge (logs)"],
    }
    assumptions = [
        "hosts are in-process scripted hosts; the URL scheme seen by the RoundTripper stands for the transport "
        "(no real TLS)",
        "secrets are searched in raw, query/path-escaped, base64 and base64url (any alignment, nested once) form; "
        "other encodings (hashes, encryption) would not be seen",
        "user names count for O1 (transmission) but not for O3: the code logs them on purpose",
        "tokens issued to anonymous requests are public, not secrets; a token belongs to the registry named in "
        "the service parameter of the request that obtained it with credentials",
        "a host is identified by name and port (reg-a.test:9000 is not reg-a.test[:5000]); names are compared "
        "case insensitively by the observer",
        "credential helpers, token servers that redirect, TLS certificate validation are out of scope",
    ]
    if drift:
        vlib.log("C11: %d of %d replays deviate from (D)'s prediction (drift, not a violation): %s"
                 % (drift, len(scns), dict(drift_ops)))
    return "model_checking", cov, assumptions


class NoDemoBase(Exception):
    pass


def binding_demo(ctx, clean):
    def find(pred):
        for t in clean:
            for i, e in enumerate(t["events"]):
                if pred(t, i, e):
                    return t, i
        raise NoDemoBase("binding demo: no suitable accepted trace")
    demos = []
    # a secret that arrives at another host
    t, i = find(lambda t, i, e: e["ev"] == "msg" and e["to"] == "A" and e["owners"] == ["A"])
    m = copy.deepcopy(t)
    m["events"][i]["to"] = "R"
    m["id"] = "demo-other-host"
    demos.append((m, i))
    # the same secrets over http to a TLS host
    t, i = find(lambda t, i, e: e["ev"] == "msg" and e["to"] == "A" and e["owners"] == ["A"] and e["scheme"] == "https"
                and "A" in t["header"]["tls"])
    m = copy.deepcopy(t)
    m["events"][i]["scheme"] = "http"
    m["id"] = "demo-cleartext"
    demos.append((m, i))
    # credentials at a token host that nobody named: drop the challenge
    t, i = find(lambda t, i, e: e["ev"] == "msg" and e["to"] == "Ta" and e["owners"] == ["A"])
    j = next(k for k, e in enumerate(t["events"]) if e["ev"] == "challenge" and e["realm"] == "Ta")
    m = copy.deepcopy(t)
    del m["events"][j]
    m["id"] = "demo-unnamed-realm"
    demos.append((m, i - 1))
    # a secret in a log record
    t, i = find(lambda t, i, e: e["ev"] == "logdone")
    m = copy.deepcopy(t)
    m["events"].insert(i, {"ev": "log", "owners": ["A"]})
    m["id"] = "demo-log"
    demos.append((m, i))
    # a secret in the error returned to the caller
    t, i = find(lambda t, i, e: e["ev"] == "errout" and not e["owners"])
    m = copy.deepcopy(t)
    m["events"][i]["owners"] = ["A"]
    m["id"] = "demo-error"
    demos.append((m, i))
    for m, at in demos:
        a, rj = ctx.validate_batch("AuthTrace", "C11_trace.cfg", [m])
        if not rj or rj[0]["line"] != at:
            raise vlib.ToolError("binding demo %s was not rejected at event %d: the trace spec does not bind" % (m["id"], at))

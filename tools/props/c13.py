"""C13 - image modification yields a well-formed image and leaves the source untouched (mod/*).

(D) spec/Mod.tla (mod.Apply: option registration, manifest / config / layer phases, dagPut's two
passes with the iConfig alignment, index branch) is model-checked by TLC as the code is now
(alignment / truthfulness / resolution / no-op invariants) and, defect by defect, with the switch
of each repaired defect off (each must come out as a counterexample).  spec/ModGen.tla emits option
programs with the design spec's prediction for the code as it is now; c13drv runs every program through the real
mod.Apply on catalogue images (registry = simreg, OCI layout; same / other repository), audits the
target closure independently and records facts; TLC validates every trace against the monitor
spec/ModProp.tla via spec/ModTrace.tla.  A mismatch with the prediction is drift (counted), a trace
rejected by the monitor is a violation.
"""
import concurrent.futures
import copy
import itertools
import json
import os
import random
import re

import vlib

DATA = {"all": 100000, "zero": 0, "keep": -1}
SAME_PLACES = {"reg": "reg-same", "dir": "dir-same"}
CROSS_PLACES = {"reg": ["reg-cross", "reg-xhost", "reg2dir"], "dir": ["dir-cross", "dir2reg"]}
ADDERS = {"AddLayer", "Rebase"}
REMOVERS = {"RmIndex", "RmCreatedBy", "StripFile", "Rebase"}


def _known_loader(ctx):
    """KNOWN_FINDINGS.json is assembled from known.d/*.json by tools/mkmanifest; read this property's
    fragment as well so that the check does not depend on the assembly having been re-run."""
    base = ctx.load_known

    def load():
        k = base()
        have = {x.get("id") for x in k.get("findings", [])}
        try:
            with open(os.path.join(vlib.VERIF, "known.d", "C13.json")) as f:
                for x in json.load(f):
                    if x.get("id") not in have:
                        k.setdefault("findings", []).append(x)
        except (OSError, ValueError):
            pass
        return k
    return load


def pstr(prog):
    return "+".join(o["k"] + ("(%s)" % o.get("a", o.get("i", "")) if ("a" in o or "i" in o) else "")
                    + ("~" + o["f"] if o.get("f") else "") for o in prog) or "-"


def kinds(prog):
    return "+".join(o["k"] for o in prog) or "-"


def concretize(s, rng):
    """TLC scenario -> driver scenario: option parameters in the driver's form, the placement class
    mapped to a concrete placement (registry / layout, same host / other host) by the seed."""
    s = dict(s)
    prog = []
    for o in s["prog"]:
        o = dict(o)
        if o["k"] == "Data":
            o["i"] = DATA[o["a"]]
            o["a"] = ""
        prog.append({k: v for k, v in o.items() if k == "k" or v not in ("", 0) or (k == "i" and o["k"] in ("RmIndex", "Data"))})
    s["prog"] = prog
    cls = s["place"]
    if cls == "cross":
        s["place"] = rng.choice(CROSS_PLACES[s["src"]])
        s["tgt"] = "tag"
    else:
        s["place"] = SAME_PLACES[s["src"]]
        s["tgt"] = cls.split("-")[1]
    s["cls"] = cls
    # how the layers of the source were serialised is not a matter of the design spec either
    s["img"].setdefault("ser", "alt" if rng.random() < 0.4 else "")
    world_dims(s, rng)
    return s


FEATS = ["", "", "", "", "noref", "noref", "nomount", "nohead"]


RDRS = ["", "", "plain", "file", "pipe"]


def world_dims(s, rng, srcref=None, feat=None, pre=None, rdr=None):
    """Dimensions of the world the design spec does not distinguish (its prediction is the same for all values): how
    the source is named, optional features of the registries, a target that already holds the source image."""
    s["srcref"] = (srcref if srcref is not None else ("digest" if rng.random() < 0.25 else ""))
    if s["tgt"] == "replace":
        s["srcref"] = ""
    s["feat"] = (feat if feat is not None else rng.choice(FEATS)) if s["place"] != "dir-same" and s["place"] != "dir-cross" else ""
    s["pre"] = (pre if pre is not None else int(rng.random() < 0.3)) if s["cls"] == "cross" else 0
    # how the stream of an added layer reaches WithLayerAddTar: bytes.Reader, a bare io.Reader that yields one byte per
    # call, an *os.File (regctl --layer-add tar=), the read end of a pipe (regctl --layer-add dir=)
    s["rdr"] = (rdr if rdr is not None else rng.choice(RDRS)) if any(o["k"] == "AddLayer" for o in s["prog"]) else ""
    if s["feat"] == "nohead" and s["img"].get("alg") == "sha512":
        # a registry that addresses a manifest by sha512 and does not say so: the client identifies the manifest by the
        # sha256 of its body, "the original digest" is not observable - outside the property
        s["feat"] = ""
    return s


def variant(s, rng):
    """Inputs outside the design spec's prediction (no `expect`): attestation index, foreign layer, a data limit
    between the sizes of the descriptors of the image."""
    s = copy.deepcopy(s)
    s.pop("expect", None)
    x = rng.random()
    datas = [o for o in s["prog"] if o["k"] == "Data"]
    rebases = [o for o in s["prog"] if o["k"] == "Rebase"]
    if rebases and x < 0.7:
        # the rebase driven by the base image annotations of the image instead of by two references
        for o in rebases:
            o["k"] = "RebaseAnnot"
        s["img"]["base"] = 1
    elif datas and x < 0.5:
        for o in datas:
            o["i"] = rng.choice([300, 500, 700, 1000, 1500])
    elif x < 0.6:
        s["prog"] = s["prog"][:4] + [{"k": "Data", "i": rng.choice([300, 500, 700, 1000, 1500])}]
    elif x < 0.8:
        s["img"]["shape"] = "attest"
    else:
        s["img"]["ext"] = 1
    s["noop"] = 0
    return s


def compare(s, t):
    """Design spec prediction vs what the real code did; returns a list of drift descriptions."""
    e, m = s["expect"], t["meta"]
    out = []
    if bool(e["err"]) != (not m["ok"]):
        return ["error: predicted %s (%s) got %r" % (e["err"], e["why"], m["err"][:80])]
    if not m["ok"]:
        return out
    if not e["resolves"]:
        return out if m["dig"] == "" else ["result resolves although nothing should have been pushed"]
    names = ["root"] if s["img"]["shape"] == "image" else ["root/m0", "root/m1"]
    ev = t["events"]
    if not m.get("facts"):
        return ["result not audited (the returned reference does not resolve)"]
    for n, k in zip(names, e["kids"]):
        f = m["facts"].get(n)
        if f is None:
            out.append("no image facts for " + n)
            continue
        if f["lids"] != k["lids"]:
            out.append("layers: predicted %s got %s" % (k["lids"], f["lids"]))
        if f["hseq"] != k["hseq"]:
            out.append("history: predicted %s got %s" % (k["hseq"], f["hseq"]))
        lay = sorted([x for x in ev if x["ev"] == "desc" and x["in"] == n and x["role"] == "layer"], key=lambda x: x["i"])
        img = [x for x in ev if x["ev"] == "image" and x["in"] == n]
        if img and len(lay) == len(k["good"]):
            real = [1 if (x["present"] and x["sha"] and x["size"] and x["mt"] and lid != "X") else 0
                    for x, lid in zip(lay, img[0]["lids"])]
            if real != k["good"]:
                out.append("layer truthfulness: predicted %s got %s" % (k["good"], real))
            if img[0]["diff"] != k["diff"]:
                out.append("diff ids: predicted %s got %s" % (k["diff"], img[0]["diff"]))
    if s["img"]["shape"] == "index":
        ents = sorted([x for x in ev if x["ev"] == "desc" and x["in"] == "root" and x["role"] == "manifest"], key=lambda x: x["i"])
        real = [{0: "none", 1: "right", 2: "parent"}[x["data"]] for x in ents]
        if real != e["entdata"]:
            out.append("index entry data: predicted %s got %s" % (e["entdata"], real))
    if bool(e["unchanged"]) != (m["dig"] == m["src"]):
        out.append("unchanged: predicted %s got %s" % (e["unchanged"], m["dig"] == m["src"]))
    return out


class Runner:
    def __init__(self, ctx):
        self.ctx = ctx
        self.n = 0
        self.driven = 0

    def drive(self, scns, label):
        """Run scenarios through c13drv; returns traces (dicts) in scenario order."""
        ctx = self.ctx
        self.n += 1
        d = ctx.path("c13", "%s-%d" % (label, self.n), "x")
        d = os.path.dirname(d)
        tmp = os.path.join(d, "tmp")
        os.makedirs(tmp, exist_ok=True)
        fn = os.path.join(d, "scn.jsonl")
        with open(fn, "w") as f:
            for s in scns:
                f.write(json.dumps(s) + "\n")
        out = os.path.join(d, "out.jsonl")
        ctx.run(["c13drv", "-in", fn, "-out", out, "-scratch", os.path.join(d, "s"), "-par", "8"],
                env={"TMPDIR": tmp, "SOURCE_DATE_EPOC": ""}, timeout=2400)
        traces = []
        with open(out) as f:
            for line in f:
                if line.strip():
                    traces.append(json.loads(line))
        if len(traces) != len(scns):
            raise vlib.ToolError("driver returned %d traces for %d scenarios" % (len(traces), len(scns)))
        self.driven += len(scns)
        return traces

    def reject_all(self, traces, label):
        """Validate a batch against (P) in one TLC run: every trace is a behaviour of its own (ModTrace), the
        invariant Ok rejects bad events and -continue makes TLC go on after a rejection. Returns
        {trace index: [(event index, obligation)]} and the state counts."""
        ctx = self.ctx
        self.n += 1
        fn = ctx.path("c13", "batch-%s-%d.ndjson" % (label, self.n))
        index = []
        with open(fn, "w") as f:
            for ti, t in enumerate(traces):
                f.write(json.dumps({"ev": "reset", "trace": t["id"]}, sort_keys=True) + "\n")
                index.append((ti, -1))
                for ei, e in enumerate(t["events"]):
                    f.write(json.dumps(e, sort_keys=True) + "\n")
                    index.append((ti, ei))
        r = ctx.tlc("ModTrace", "C13_trace.cfg", workers=1, timeout=3000, env={"VERIF_TRACE": fn, "JAVA_TOOL_OPTIONS": "-Xss64m"},
                    extra=["-continue"], record=False, allow_violation=True)
        out = r["output"]
        if r["distinct"] != len(index) + len(traces):
            # an event without an enabled step (malformed trace) or a TLC problem: never a verdict
            raise vlib.ToolError("trace validation explored %d states, expected %d (%d lines, %d traces):\n%s" % (
                r["distinct"], len(index) + len(traces), len(index), len(traces), out[-3000:]))
        bad = {}
        for chunk in out.split("Invariant Ok is violated")[1:]:
            chunk = chunk.split("Error: Invariant")[0]
            ls = re.findall(r"/\\ l = (\d+)", chunk)
            bs = re.findall(r'/\\ bad = "([^"]*)"', chunk)
            if not ls or not bs or not bs[-1]:
                raise vlib.ToolError("cannot read a rejection from TLC's output:\n" + chunk[-1500:])
            ti, ei = index[int(ls[-1]) - 2]
            bad.setdefault(ti, [])
            if (ei, bs[-1]) not in bad[ti]:
                bad[ti].append((ei, bs[-1]))
        for ti in bad:
            bad[ti].sort()
        return bad, r["distinct"], r["generated"]


def rejecting(ctx, name, events):
    """Validate one trace with the rejecting configuration (invariant Ok). Returns the 0-based index of the
    rejected event, or None when the trace is accepted. Safe to call from several threads."""
    fn = ctx.path("c13", "confirm", re.sub(r"[^A-Za-z0-9_.-]", "_", name)[:120] + ".ndjson")
    with open(fn, "w") as f:
        f.write(json.dumps({"ev": "reset", "trace": name}) + "\n")
        for e in events:
            f.write(json.dumps(e, sort_keys=True) + "\n")
    v = ctx.validate("ModTrace", "C13_trace.cfg", fn, timeout=1200)
    if v["accepted"]:
        return None, ""
    if v["line"] is None:
        raise vlib.ToolError("cannot locate the rejected event of %s:\n%s" % (name, v["output"][-2000:]))
    return v["line"] - 2, (v.get("detail") or v["reason"]).strip('"')


def classify(t, ei, ob):
    e = t["events"][ei]
    role = e.get("role", e["ev"])
    return ob, role


def run(ctx):
    rng = random.Random(ctx.seed)
    ctx.load_known = _known_loader(ctx)
    ctx.build("c13drv")
    R = Runner(ctx)
    thorough = ctx.thorough

    if ctx.replay:
        with open(ctx.replay) as f:
            rp = json.load(f)["replay"]
        sc = rp["scenario"]
        tr = R.drive([sc], "replay")[0]
        at, why = rejecting(ctx, "replay", tr["events"])
        if at is not None:
            ctx.report(rp.get("sig", "mod:replay"), "%s at %s" % (why, json.dumps(tr["events"][at])),
                       {"scenario": sc, "events": tr["events"], "rejected_at": at, "sig": rp.get("sig", "")})
        return "model_checking", {"states": 0, "transitions": 0, "traces_validated_against_impl": int(at is None), "samples": [sc],
                                  "evaluations": 1, "exhaustive": False, "replay": True}, []

    # ---- 1. model checking of the design spec
    mc = [ctx.tlc("ModMC", "C13_mc_quick.cfg", label="repaired design: alignment universe, programs <= 2, per-iteration steps", workers=8),
          ctx.tlc("ModMC", "C13_mc_core3.cfg", label="repaired design: alignment universe, interaction core, programs <= 3", workers=8),
          ctx.tlc("ModMC", "C13_mc_shapes.cfg", label="repaired design: shapes x media types x data x referrers x placements, every option", workers=8)]
    if thorough:
        mc.append(ctx.tlc("ModMC", "C13_mc_t_forms.cfg", label="repaired design: forms of the added stream, all images / placements of that universe", timeout=3000))
        mc.append(ctx.tlc("ModMC", "C13_mc_t_align3.cfg", label="repaired design: alignment universe, programs <= 3, per-iteration steps", timeout=3000))
        mc.append(ctx.tlc("ModMC", "C13_mc_t_core4.cfg", label="repaired design: alignment universe, interaction core, programs <= 4", timeout=3000))
        mc.append(ctx.tlc("ModMC", "C13_mc_t_shapes2.cfg", label="repaired design: shapes, every pair of options", timeout=3000))
    asis = {}
    # each repaired defect (fix commits 1c05a04 b052c11 29901b5 72c6cba ccb0066 27c13f3) has a switch in the spec; with
    # the switch off the spec must still produce the counterexample (this is what explains the fixrev-C13-* seeds)
    for name, inv in (("data", "PostTruthful"), ("writer", "PostTruthful"), ("added", "PostAligned"),
                      ("tag", "PostResolves"), ("close", "PostTruthful"), ("desc", "PostTruthful")):
        r = ctx.tlc("ModMC", "C13_mc_asis_%s.cfg" % name, label="before the repair: Fix%s off" % name.capitalize(), workers=2,
                    allow_violation=True)
        asis[name] = r["violated"]
        if r["violated"] != inv:
            raise vlib.ToolError("configuration C13_mc_asis_%s gave %r, expected a counterexample of %s: the design spec "
                                 "no longer explains the repaired defect" % (name, r["violated"], inv))
    states = sum(r["distinct"] for r in mc)
    trans = sum(r["generated"] for r in mc)

    # ---- 2. scenarios from TLC
    dropped = [0]
    gen_counts = {}

    def gen(cfg, num=None, label=""):
        kw = {}
        if num:
            kw = dict(simulate="num=%d" % num, depth=30, extra=["-seed", str(ctx.seed)])
        g = ctx.tlc_scenarios("ModGen", cfg, workers=1, label="generator " + label, timeout=1800, **kw)
        gen_counts[cfg] = (g["distinct"], g["generated"])
        seen, out = set(), []
        for s in g["scenarios"]:
            # garbage in (a compressed stream announced as an uncompressed tar by the caller): not driven, see Gigo in Mod.tla
            if s.pop("gigo", 0):
                dropped[0] += 1
                continue
            k = json.dumps(s, sort_keys=True)
            if k not in seen:
                seen.add(k)
                out.append(s)
        return out

    singles_all = gen("C13_gen_single.cfg", 3000 if thorough else 1200, "single options")
    pairs_all = gen("C13_gen_pairs.cfg", None, "pairs of layer adding / removing options")
    rand_all = gen("C13_gen_rand.cfg", 4000 if thorough else 330, "random programs")
    if len(pairs_all) < 2000 or len(rand_all) < 200:
        raise vlib.ToolError("generator produced too few scenarios (%d pairs, %d random)" % (len(pairs_all), len(rand_all)))

    def optkey(o):
        return (o["k"], o["a"], o["v"], o["i"], o.get("f", ""))
    chosen = []
    # one program per option of the vocabulary (thorough: every generated single) + the empty program per class
    by_opt = {}
    for s in singles_all:
        k = optkey(s["prog"][0]) if s["prog"] else ("-", s["place"], s["src"], 0, "")
        by_opt.setdefault(k, []).append(s)
    # per option: one scenario where it changes something and one where it sets what is already there (a no-op by its
    # documented meaning), when the generator produced both
    for k in sorted(by_opt):
        if thorough:
            chosen += vlib.sample(rng, by_opt[k], 25)
            continue
        for flag in (0, 1):
            cand = [x for x in by_opt[k] if x["noop"] == flag]
            if cand:
                chosen.append(rng.choice(cand))
    n_single = len(chosen)
    vocabulary = sorted({k[0] for k in by_opt})
    # every pair that mixes adding and removing layers (thorough: every pair on every image of the pairs universe)
    by_pair = {}
    for s in pairs_all:
        if len(s["prog"]) == 2:
            a, b = s["prog"][0]["k"], s["prog"][1]["k"]
            if (a in ADDERS and b in REMOVERS) or (a in REMOVERS and b in ADDERS):
                by_pair.setdefault((optkey(s["prog"][0]), optkey(s["prog"][1])), []).append(s)
    for k in sorted(by_pair):
        chosen += by_pair[k] if thorough else [rng.choice(by_pair[k])]
    if thorough:
        mixed = {id(s) for v in by_pair.values() for s in v}
        chosen += vlib.sample(rng, [s for s in pairs_all if id(s) not in mixed], 1200)
    n_pairs = len(chosen) - n_single
    # round 5: the form of the stream handed to WithLayerAddTar (plain / already compressed in five formats / no entries /
    # no end-of-archive blocks) alone and paired, in both orders, with every option that reads or rewrites the added layer
    forms_all = gen("C13_gen_t_forms.cfg" if thorough else "C13_gen_forms.cfg", None, "forms of the stream of an added layer")
    # (that generator run is exhaustive and checks the invariants of the design spec as well: its states count as model checking)
    fc = gen_counts["C13_gen_t_forms.cfg" if thorough else "C13_gen_forms.cfg"]
    states += fc[0]
    trans += fc[1]
    by_form = {}
    for s in forms_all:
        if any(o["k"] == "AddLayer" and o["f"] for o in s["prog"]):
            by_form.setdefault(tuple(optkey(o) for o in s["prog"]), []).append(s)
    if len(by_form) < 400:
        raise vlib.ToolError("generator produced too few programs with a formed stream (%d)" % len(by_form))
    fkeys = sorted(by_form)
    fsingle = [k for k in fkeys if len(k) == 1]
    fpairs = [k for k in fkeys if len(k) == 2]
    # (quick: the single options are already among the one-per-option scenarios above)
    for k in (fsingle + fpairs) if thorough else vlib.sample(rng, fpairs, 90):
        chosen += vlib.sample(rng, by_form[k], 2) if thorough else [rng.choice(by_form[k])]
    n_forms = len(chosen) - n_single - n_pairs
    chosen += rand_all
    scns = [concretize(s, rng) for s in chosen]
    # shapes outside the prediction: a share of the programs on an attestation index / an image with a foreign layer
    extra = [variant(s, rng) for s in rng.sample(scns, max(40, len(scns) // 8))]
    extra += [variant(s, rng) for s in vlib.sample(rng, [s for s in scns if any(o["k"] in ("Rebase", "Data") for o in s["prog"])],
                                                   400 if thorough else 40)]
    # classes that have produced violations: always present
    must = []
    for i, (img, prog, cls, src) in enumerate([
            ({"n": 2, "hist": "LEL", "shape": "index", "mt": "oci", "comp": "gzip", "data": 0, "refs": 0, "ext": 0}, [{"k": "Data", "a": "all", "v": "", "i": 0}], "same-tag", "reg"),
            ({"n": 2, "hist": "LEL", "shape": "index", "mt": "oci", "comp": "gzip", "data": 1, "refs": 0, "ext": 0}, [], "cross", "reg"),
            ({"n": 2, "hist": "LEL", "shape": "image", "mt": "oci", "comp": "gzip", "data": 0, "refs": 0, "ext": 0}, [{"k": "Compress", "a": "zstd", "v": "", "i": 0}, {"k": "LayerTime", "a": "set", "v": "", "i": 0}], "cross", "reg"),
            ({"n": 2, "hist": "LEL", "shape": "image", "mt": "oci", "comp": "gzip", "data": 0, "refs": 0, "ext": 0}, [{"k": "AddLayer", "a": "", "v": "", "i": 0}, {"k": "StripFile", "a": "nosuch", "v": "", "i": 0}], "same-tag", "reg"),
            ({"n": 2, "hist": "LEL", "shape": "image", "mt": "oci", "comp": "gzip", "data": 0, "refs": 0, "ext": 0}, [{"k": "AddLayer", "a": "", "v": "", "i": 0}, {"k": "LayerDigest", "a": "sha512", "v": "", "i": 0}], "same-digest", "dir"),
            ({"n": 2, "hist": "LEL", "shape": "image", "mt": "oci", "comp": "gzip", "data": 0, "refs": 0, "ext": 0}, [], "same-tag", "dir"),
            ({"n": 2, "hist": "LEL", "shape": "image", "mt": "oci", "comp": "none", "data": 0, "refs": 0, "ext": 0}, [{"k": "LayerDigest", "a": "sha512", "v": "", "i": 0}, {"k": "Compress", "a": "gzip", "v": "", "i": 0}], "cross", "dir"),
            ({"n": 2, "hist": "LEL", "shape": "image", "mt": "oci", "comp": "gzip", "data": 0, "refs": 0, "ext": 1}, [{"k": "ExternalURLsRm", "a": "", "v": "", "i": 0}], "cross", "reg"),
            ({"n": 3, "hist": "LELL", "shape": "image", "mt": "oci", "comp": "gzip", "data": 0, "refs": 0, "ext": 0}, [{"k": "Rebase", "a": "", "v": "", "i": 0}], "same-tag", "dir"),
            ({"n": 3, "hist": "LELL", "shape": "index", "mt": "oci", "comp": "gzip", "data": 0, "refs": 1, "ext": 0}, [{"k": "Rebase", "a": "", "v": "", "i": 0}], "same-replace", "reg"),
            ({"n": 1, "hist": "L", "shape": "index", "mt": "oci", "comp": "gzip", "data": 1, "refs": 1, "ext": 0}, [{"k": "ManifestDigest", "a": "sha512", "v": "", "i": 0}], "same-tag", "reg"),
            ({"n": 1, "hist": "L", "shape": "image", "mt": "oci", "comp": "gzip", "data": 0, "refs": 1, "ext": 0}, [{"k": "ManifestDigest", "a": "sha512", "v": "", "i": 0}], "same-digest", "dir"),
            ({"n": 3, "hist": "LELL", "shape": "image", "mt": "oci", "comp": "gzip", "data": 0, "refs": 0, "ext": 0, "base": 1}, [{"k": "RebaseAnnot", "a": "", "v": "", "i": 0}], "same-tag", "dir"),
            ({"n": 3, "hist": "LELL", "shape": "index", "mt": "oci", "comp": "zstd", "data": 0, "refs": 1, "ext": 0, "base": 1, "alg": "sha512"}, [{"k": "RebaseAnnot", "a": "", "v": "", "i": 0}, {"k": "AddLayer", "a": "", "v": "", "i": 0}], "cross", "reg")]):
        must.append(concretize({"img": img, "prog": prog, "place": cls, "src": src, "noop": 0}, rng))
    # "set X to the value it already has" on an image whose time stamps all are one instant, in every spelling of that
    # instant, with both serialisations of the layers (the class of seeded/C13-7)
    for comp, ser, shape in (("gzip", "alt", "image"), ("zstd", "", "index"), ("none", "alt", "image"), ("mixed", "", "image")):
        for k, a in (("ConfigTime", "samezone"), ("ConfigTime", "samelocal"), ("ConfigTime", "sameafter"), ("LayerTime", "same"),
                     ("LayerTime", "samezone"), ("LayerTime", "sameafter"), ("FileTarTime", "samezone")):
            uimg = {"n": 2, "hist": "LEL", "shape": shape, "mt": "oci", "comp": comp, "data": 0, "refs": 0, "ext": 0, "ut": 1, "ser": ser}
            must.append(concretize({"img": uimg, "prog": [{"k": k, "a": a, "v": "", "i": 0}], "src": rng.choice(["reg", "dir"]),
                                    "place": rng.choice(["cross", "same-digest", "same-replace"]), "noop": 1}, rng))
    for m in must:      # regression scenarios run in the plain world (by tag, default features, empty target)
        world_dims(m, rng, srcref="", feat="", pre=0, rdr="")
    # world dimensions one at a time on a few programs that touch referrers, blobs and manifests (quick), and the full
    # product srcref x registry features x pre-populated target on a sample of the scenarios (thorough)
    probes = []
    refimg = {"n": 2, "hist": "LEL", "shape": "index", "mt": "oci", "comp": "gzip", "data": 0, "refs": 1, "ext": 0, "alg": "sha256"}
    for prog in ([{"k": "Label", "a": "x", "v": "y", "i": 0}], [{"k": "AddLayer", "a": "", "v": "", "i": 0}],
                 [{"k": "Data", "a": "all", "v": "", "i": 0}], [{"k": "Rebase", "a": "", "v": "", "i": 0}],
                 [{"k": "ManifestDigest", "a": "sha512", "v": "", "i": 0}], [{"k": "Compress", "a": "zstd", "v": "", "i": 0}]):
        for cls, src in (("same-tag", "reg"), ("cross", "reg"), ("cross", "dir")):
            for dims in ({"srcref": "digest"}, {"feat": "noref"}, {"feat": "nomount"}, {"feat": "nohead"}, {"pre": 1}):
                b = concretize({"img": dict(refimg), "prog": copy.deepcopy(prog), "place": cls, "src": src, "noop": 0}, rng)
                probes.append(world_dims(b, rng, srcref=dims.get("srcref", ""), feat=dims.get("feat", ""), pre=dims.get("pre", 0)))
    if thorough:
        for b in rng.sample([s for s in scns if "expect" in s and s["prog"]], 160):
            for srcref in ("", "digest"):
                for feat in ("", "noref", "nomount", "nohead"):
                    for pre in (0, 1):
                        c = copy.deepcopy(b)
                        probes.append(world_dims(c, rng, srcref=srcref, feat=feat, pre=pre))
    scns += extra + must + probes
    for i, s in enumerate(scns):
        s["id"] = "s%d" % i

    # ---- 3. the real code
    traces = R.drive(scns, "main")
    byid = {s["id"]: s for s in scns}
    drift = {}
    predicted = errors = 0
    for t in traces:
        s = byid[t["id"]]
        if not t["meta"]["ok"]:
            errors += 1
        if "expect" in s:
            predicted += 1
            for d in compare(s, t):
                key = re.sub(r"sha(256|512):[0-9a-f]+", "D", d)
                drift.setdefault(key, []).append("%s on %s %s/%s" % (pstr(s["prog"]), json.dumps(s["img"]), s["place"], s["tgt"]))

    # ---- 4. validation against (P): every rejected event, then a minimal program for every class
    bad, st, tr = R.reject_all(traces, "main")
    states += st
    trans += tr
    accepted = len(traces) - len(bad)
    # group the rejected events: per scenario class (program, placement class, image features) and within it per
    # (obligation, role)
    groups = {}
    for ti, lst in bad.items():
        t = traces[ti]
        s = byid[t["id"]]
        ck = (pstr(s["prog"]), s["cls"], s["src"], s["img"]["shape"], s["img"]["ext"], s["img"]["data"], s["noop"])
        for ei, ob in lst:
            groups.setdefault(ck, {}).setdefault(classify(t, ei, ob), []).append((ti, ei))
    # minimise: sub-programs (subsequences, up to 3 options) of one representative per scenario class, smallest first
    reps = {}
    subs = []
    cache = {}
    for ck in sorted(groups):
        ti = min(x[0] for v in groups[ck].values() for x in v)
        s = byid[traces[ti]["id"]]
        n = len(s["prog"])
        mine = []
        for k in range(0, min(n, 4)):
            for idx in itertools.combinations(range(n), k):
                sub = copy.deepcopy(s)
                sub.pop("expect", None)
                sub["prog"] = [s["prog"][j] for j in idx]      # (a part of a no-op program is a no-op program)
                ident = json.dumps([sub["img"], sub["prog"], sub["place"], sub["tgt"], sub["noop"]], sort_keys=True)
                if ident not in cache:
                    sub["id"] = "m%d" % len(subs)
                    cache[ident] = sub["id"]
                    subs.append(sub)
                mine.append(cache[ident])
        reps[ck] = mine
    sub_bad = {}
    if subs:
        if len(subs) > 8000:
            raise vlib.ToolError("too many sub-programs to minimise (%d): far too many rejected traces" % len(subs))
        sub_tr = R.drive(subs, "minimise")
        sb, st, tr = R.reject_all(sub_tr, "minimise")
        states += st
        trans += tr
        for ti, lst in sb.items():
            sub_bad[sub_tr[ti]["id"]] = {classify(sub_tr[ti], ei, ob) for ei, ob in lst}
    subs_by_id = {s["id"]: s for s in subs}
    classes = {}
    for ck in sorted(groups):
        for (ob, role) in sorted(groups[ck]):
            ti, ei = groups[ck][(ob, role)][0]
            s = byid[traces[ti]["id"]]
            minimal = s["prog"]
            for sid in reps[ck]:          # ordered by size
                if (ob, role) in sub_bad.get(sid, ()):
                    minimal = subs_by_id[sid]["prog"]
                    break
            sig = "mod:%s:%s:%s@%s/%s/%s%s%s" % (ob, role, kinds(minimal), s["cls"], s["src"], s["img"]["shape"],
                                                "+data" if s["img"]["data"] else "",
                                                ("+ext" if s["img"]["ext"] else "") + ("+sha512" if s["img"].get("alg") == "sha512" else "")
                                                + ("+ut" if s["img"].get("ut") else ""))
            classes.setdefault(sig, {"traces": [], "minimal": minimal})
            classes[sig]["traces"] += groups[ck][(ob, role)]
    for sig in sorted(classes):
        c = classes[sig]
        ti, ei = c["traces"][0]
        t = traces[ti]
        s = byid[t["id"]]
        what = "%s at %s; program %s (minimal %s) on %s, %s/%s; %d trace(s)" % (
            sig, json.dumps(t["events"][ei]), pstr(s["prog"]), pstr(c["minimal"]),
            json.dumps(s["img"]), s["place"], s["tgt"], len({x for x, _ in c["traces"]}))
        ctx.report(sig, what, {"scenario": {k: v for k, v in s.items() if k != "expect"}, "minimal_program": c["minimal"],
                               "events": t["events"], "rejected_at": ei, "sig": sig,
                               "cmd": "tools/check C13 --replay <this file>"})

    # ---- 5. binding demos: a corrupted fact must be rejected
    clean = [t for i, t in enumerate(traces) if i not in bad and t["meta"]["ok"]
             and any(e["ev"] == "image" and len(e["hids"]) >= 2 for e in t["events"])
             and any(e["ev"] == "apply" and e["replace"] == 0 for e in t["events"])]
    if not clean:
        raise vlib.ToolError("no accepted trace to demonstrate the binding on")
    base = clean[0]

    def demo(args):
        name, pred, edit = args
        m = copy.deepcopy(base)
        if pred is not None:
            for e in m["events"]:
                if pred(e):
                    edit(e)
                    break
            else:
                raise vlib.ToolError("binding demo %s: nothing to corrupt" % name)
        return name, rejecting(ctx, "demo-" + name, m["events"])[0]
    demos = [
        ("base", None, None),
        ("size", lambda e: e["ev"] == "desc" and e["role"] == "layer", lambda e: e.update(size=0)),
        ("data", lambda e: e["ev"] == "desc", lambda e: e.update(data=2)),
        ("diffid", lambda e: e["ev"] == "image", lambda e: e.update(diff=[0] + e["diff"][1:])),
        ("history", lambda e: e["ev"] == "image" and len(e["hids"]) >= 2,
         lambda e: e.update(hids=e["hids"][::-1] if e["hids"][::-1] != e["hids"] else e["hids"][1:])),
        ("source", lambda e: e["ev"] == "src_after", lambda e: e.update(closure="0000")),
        ("repeat", lambda e: e["ev"] == "twice", lambda e: e.update(d2="sha256:0")),
        ("orphan", lambda e: e["ev"] == "written", lambda e: e.update(orphans=1)),
    ]
    pool = concurrent.futures.ThreadPoolExecutor(max_workers=4)
    for name, at in pool.map(demo, demos):
        if name == "base" and at is not None:
            raise vlib.ToolError("a trace accepted in the batch is rejected alone")
        if name != "base" and at is None:
            raise vlib.ToolError("binding demo %s accepted: the trace spec does not bind" % name)
    pool.shutdown()

    # ---- evidence
    distinct = {(json.dumps(s["img"], sort_keys=True), pstr(s["prog"]), s["place"], s["tgt"]) for s in scns}
    nontrivial = {x for x in distinct if x[1] != "-"}
    model_drift = {k: {"count": len(v), "examples": v[:3]} for k, v in sorted(drift.items())}
    if model_drift:
        vlib.log("C13: design-spec drift (not a violation): %s" % json.dumps(model_drift)[:1500])
    ex = [s for s in scns if "expect" in s and s["prog"]][:2]
    samples = [{"scenario": {k: v for k, v in s.items()}, "trace_head": [t for t in traces if t["id"] == s["id"]][0]["events"][:6]} for s in ex]
    cov = {
        "states": states, "transitions": trans,
        "traces_validated_against_impl": accepted,
        "samples": samples,
        "evaluations": R.driven,
        "distinct_nontrivial": len(nontrivial),
        "rule": "a scenario = (catalogue image, option program, placement, target form) run through the real mod.Apply twice "
                "in fresh worlds and audited; distinct = distinct (image, program, placement, target form) with a non-empty program; "
                "sub-programs driven for minimisation count as evaluations only",
        "exhaustive": False,
        "exhaustive_note": "TLC is exhaustive over the stated universes of the design spec; the replay on the real code is one "
                           "scenario per option of the vocabulary, every add/remove pair and a seeded sample of programs of length 0..5",
        "scenarios": len(scns), "single_option_scenarios": n_single, "pair_scenarios": n_pairs, "random_scenarios": len(rand_all),
        "added_stream_form_scenarios": n_forms, "added_stream_forms_driven": sorted({o.get("f", "") for s in scns for o in s["prog"] if o["k"] == "AddLayer"}),
        "garbage_in_scenarios_not_driven": dropped[0],
        "unpredicted_shape_scenarios": len(extra), "regression_scenarios": len(must), "world_dimension_scenarios": len(probes),
        "world_dimension_values": {k: sorted({str(s.get(k, "")) for s in scns}) for k in ("srcref", "feat", "pre", "place", "tgt", "rdr")},
        "image_dimension_values": {k: sorted({str(s["img"].get(k, "")) for s in scns})
                                   for k in ("n", "shape", "mt", "comp", "data", "refs", "ext", "alg", "ut", "ser", "base")},
        "noop_scenarios": len([s for s in scns if s.get("noop")]),
        "option_kinds_driven": vocabulary,
        "apply_errors": errors, "traces_with_rejected_events": len(bad),
        "violation_classes": sorted(classes),
        "predicted_scenarios": predicted, "model_drift": model_drift,
        "asis_counterexamples": asis,
        "entry_points": ["mod.Apply with " + ", ".join(sorted({"With" + k for k in vocabulary if k != "-"}))[:900],
                         "regclient.Close (layout garbage collection) after Apply, as regctl image mod does"],
    }
    assumptions = [
        "catalogue images only: 1-3 small tar layers, fixed config; file-level semantics of layer edits beyond re-digesting are not checked",
        "option parameters restricted to the vocabulary in spec/ModMC.tla; programs of length <= 5",
        "the stream handed to WithLayerAddTar is one small tar in eight forms (plain, gzip, gzip as other tools write it, zstd, xz, bzip2, "
        "no entries, no end-of-archive blocks); a compressed stream that the caller announces as an uncompressed tar (media type "
        "argument or WithLayerCompression(none)) is garbage in and not driven; the uncompressed layer is the stored blob with the "
        "compression its media type announces removed once",
        "the process start time that WithLayerAddTar writes into the new history entry is an input (both runs of a scenario "
        "share one process, so O6 is not checked across processes)",
        "no-op programs are those whose options are no-ops by the documented meaning of the option on the catalogue image "
        "(StaticNoop in spec/Mod.tla), not what the code marks",
        "registries are the model registry simreg (no server-side validation of manifests), layouts are read back as plain files",
    ]
    return "model_checking", cov, assumptions

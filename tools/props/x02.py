"""X02 - persistence of the user's configuration and credentials (internal/conffile.Write,
cmd/regctl ConfigSave / registry login|logout|set / config set).

(D) spec/ConfFile.tla: the save protocol at system-call granularity (mkdir, createtemp, fstat, write*,
    close, stat, chmod, chown, rename, deferred remove), the commands that load / change / save, one fault
    per command, kill -9 between any two calls, re-run afterwards; checked exhaustively by TLC
    (ConfFileMC / ConfFileMCT) against the obligations S1-S4 of spec/ConfFileObl.tla.
(P) spec/ConfFileProp.tla: the same obligations over observed facts only.
(C) R: TLC prints the scenarios (spec/ConfFileGen.tla: start state x identity x commands x fault point,
       schedules of racing saves); a seeded, stratified sample runs on the real code: every command is its
       own regctl process (or harness/cmd/x02drv for a save of given bytes through a chunked / failing /
       gated reader) under strace, as root or as an unprivileged uid, faults injected into the real
       system calls by strace.
    V: a replayer (this file) rebuilds the directory - content, mode, owner of every file - after every
       prefix of the recorded system calls (= what kill -9 at that instant leaves behind), an independent
       parser (python json) reads the tables, a fresh real regctl loads sampled crash directories and the
       interrupted command is re-run on them; all of it goes as flat facts into traces that TLC validates
       against (P) (spec/ConfFileTrace.tla).  The recorded call sequences are validated against (D)
       (spec/ConfFileDTrace.tla): a mismatch there is drift, never a violation.  A seeded sample of crash
       points is confirmed by really SIGKILLing the process at that call.
"""
import concurrent.futures
import copy
import hashlib
import json
import os
import random
import re
import shutil
import stat as statmod
import subprocess
import time

import vlib

# ----------------------------------------------------------------------------------------------
# strace parsing (after tools/props/c07.py)
# ----------------------------------------------------------------------------------------------

TRACE_SET = ("openat,open,creat,write,pwrite64,writev,pwritev,close,mkdir,mkdirat,rename,renameat,renameat2,"
             "unlink,unlinkat,rmdir,chmod,fchmod,fchmodat,chown,fchown,fchownat,lchown,newfstatat,fstat,stat,lstat,"
             "ftruncate,truncate,link,linkat,symlink,symlinkat,dup,dup2,dup3,umask,fsync,fdatasync,"
             "copy_file_range,sendfile,splice,fallocate,chdir,fchdir,read")
UNSUPPORTED = {"writev", "pwritev", "copy_file_range", "sendfile", "splice", "link", "linkat", "symlink", "symlinkat",
               "fallocate", "chdir", "fchdir", "umask"}

_line = re.compile(r"^(\d+)\s+(.*)$")
_call = re.compile(r"^(\w+)\((.*)\)\s+= (-?\d+|\?)(.*)$", re.S)


def split_args(s):
    out, cur, depth, instr = [], [], 0, False
    for ch in s:
        if instr:
            cur.append(ch)
            if ch == '"':
                instr = False
            continue
        if ch == '"':
            instr = True
            cur.append(ch)
        elif ch in "([{":
            depth += 1
            cur.append(ch)
        elif ch in ")]}":
            depth -= 1
            cur.append(ch)
        elif ch == "," and depth == 0:
            out.append("".join(cur).strip())
            cur = []
        else:
            cur.append(ch)
    if cur:
        out.append("".join(cur).strip())
    return out


def arg_bytes(a):
    m = re.match(r'^"((?:\\x[0-9a-f]{2})*)"(\.\.\.)?$', a)
    if not m:
        raise vlib.ToolError("cannot parse strace string argument: %r" % a[:80])
    if m.group(2):
        raise vlib.ToolError("strace truncated a string (raise -s)")
    return bytes.fromhex(m.group(1).replace("\\x", ""))


class Call:
    __slots__ = ("pid", "name", "args", "ret", "tail", "idx", "blocked")

    def __init__(self, pid, name, args, ret, tail, blocked=False):
        self.pid, self.name, self.args, self.ret, self.tail, self.blocked = pid, name, args, ret, tail, blocked
        self.idx = 0      # ordinal among the calls of the same name made by the same thread

    @property
    def errno(self):
        m = re.match(r"\s*([A-Z]+)", self.tail or "")
        return m.group(1) if m else ""

    @property
    def injected(self):
        return "(INJECTED)" in (self.tail or "")


def parse_strace(fn):
    """-> (calls in the order of completion, killed?). A call that never completed has ret None."""
    pending, calls, killed = {}, [], False
    with open(fn, errors="replace") as f:
        for raw in f:
            m = _line.match(raw.rstrip("\n"))
            if not m:
                continue
            pid, rest = int(m.group(1)), m.group(2)
            if rest.startswith("---"):
                continue
            if rest.startswith("+++"):
                if "killed" in rest:
                    killed = True
                continue
            if rest.endswith("<unfinished ...>"):
                pending[pid] = rest[:-len("<unfinished ...>")].rstrip()
                mc = re.match(r"^close\((\d+)", pending[pid])
                if mc:
                    calls.append(Call(pid, "close", [mc.group(1)], 0, ""))
                    pending[pid] = None
                continue
            mm = re.match(r"^<\.\.\. (\w+) resumed>(.*)$", rest, re.S)
            blocked = False
            if mm:
                if pid not in pending:
                    raise vlib.ToolError("strace: resumed without unfinished: " + rest[:100])
                head = pending.pop(pid)
                if head is None:
                    continue
                rest = head + mm.group(2)
                blocked = True
            c = _call.match(rest)
            if not c:
                if rest.startswith("exit") or "= ?" in rest:
                    continue
                raise vlib.ToolError("strace: cannot parse line: " + rest[:200])
            calls.append(Call(pid, c.group(1), split_args(c.group(2)), None if c.group(3) == "?" else int(c.group(3)),
                              c.group(4), blocked))
    for pid, rest in pending.items():
        if rest is None:
            continue
        mm = re.match(r"^(\w+)\((.*)$", rest, re.S)
        if mm:
            calls.append(Call(pid, mm.group(1), split_args(mm.group(2)), None, ""))
    counts = {}
    for c in calls:
        # strace counts the invocations of a call per traced thread (inject=...:when=N)
        counts[(c.pid, c.name)] = counts.get((c.pid, c.name), 0) + 1
        c.idx = counts[(c.pid, c.name)]
    return calls, killed


# ----------------------------------------------------------------------------------------------
# file-system model (content, mode, owner) + replayer
# ----------------------------------------------------------------------------------------------

class FS:
    """Everything below one base directory: path (relative) -> node dict(kind 'f'|'d', data, mode, uid, gid).
    Files the process creates elsewhere are kept under their absolute path (key starts with '/')."""

    def __init__(self, base):
        self.base = base.rstrip("/")
        self.nodes = {}

    def clone(self):
        c = FS(self.base)
        c.nodes = {p: dict(n) for p, n in self.nodes.items()}
        return c

    @classmethod
    def load(cls, base):
        fs = cls(base)
        for dp, dn, fnames in os.walk(base):
            for n in dn + fnames:
                p = os.path.join(dp, n)
                st = os.lstat(p)
                rel = os.path.relpath(p, base)
                if statmod.S_ISDIR(st.st_mode):
                    fs.nodes[rel] = {"kind": "d", "data": b"", "mode": statmod.S_IMODE(st.st_mode), "uid": st.st_uid, "gid": st.st_gid}
                elif statmod.S_ISREG(st.st_mode):
                    with open(p, "rb") as f:
                        fs.nodes[rel] = {"kind": "f", "data": f.read(), "mode": statmod.S_IMODE(st.st_mode), "uid": st.st_uid,
                                         "gid": st.st_gid}
                else:
                    raise vlib.ToolError("unexpected file type in the scenario directory: " + p)
        return fs

    def dump(self, base, owner):
        """materialise below a NEW base directory (run as root: owners are set)"""
        os.makedirs(base)
        os.chown(base, owner[0], owner[1])
        os.chmod(base, 0o755)
        for rel in sorted(self.nodes):
            if rel.startswith("/"):
                continue
            n = self.nodes[rel]
            p = os.path.join(base, rel)
            if n["kind"] == "d":
                os.mkdir(p)
            else:
                with open(p, "wb") as f:
                    f.write(n["data"])
            os.chown(p, n["uid"], n["gid"])
        for rel in sorted(self.nodes, reverse=True):
            if not rel.startswith("/"):
                os.chmod(os.path.join(base, rel), self.nodes[rel]["mode"])

    def key(self, path):
        path = os.path.normpath(path)
        if path == self.base:
            return ""
        if path.startswith(self.base + "/"):
            return path[len(self.base) + 1:]
        return path          # outside: absolute key

    def inside(self, key):
        return not key.startswith("/")

    def diff(self, other, names=True):
        """differences between two models of the same base ([] = same)"""
        a = {k: v for k, v in self.nodes.items() if self.inside(k)}
        b = {k: v for k, v in other.nodes.items() if other.inside(k)}
        out = [("only-model", k) for k in a if k not in b] + [("only-real", k) for k in b if k not in a]
        for k in a:
            if k in b:
                for fld in ("kind", "data", "mode", "uid", "gid"):
                    if a[k][fld] != b[k][fld]:
                        out.append((fld, k, str(a[k][fld])[:60], str(b[k][fld])[:60]))
        return out


class Replayer:
    """Applies recorded system calls of ONE process tree to the shared FS model. step() returns
    (mutation event | None, design-level call | None)."""

    def __init__(self, fs, cwd, cfg, ident, umask, ignore=()):
        self.fs, self.cwd, self.cfg = fs, cwd, cfg            # cfg: key of the config path
        self.cfgdir = os.path.dirname(cfg)
        self.uid, self.gid = ident
        self.umask = umask
        self.fd = {}
        self.ignore = set(ignore)
        self.statdir_seen = False
        self.fsync = 0

    def reset_cmd(self):
        self.statdir_seen = False

    def _abs(self, dirfd, path):
        p = path.decode("utf-8", "surrogateescape")
        if os.path.isabs(p):
            return os.path.normpath(p)
        if dirfd == "AT_FDCWD":
            return os.path.normpath(os.path.join(self.cwd, p))
        try:
            base = self.fd[int(dirfd)]["abspath"]
        except (KeyError, ValueError):
            raise vlib.ToolError("strace: relative path with unknown dirfd %s" % dirfd)
        return os.path.normpath(os.path.join(base, p))

    def cls(self, key):
        if key == self.cfg:
            return "cfg"
        if key == self.cfgdir or (self.cfgdir + "/").startswith(key + "/") or key == "":
            return "dir"
        if os.path.dirname(key) == self.cfgdir:
            return "tmp"
        return "other"

    def _parent_ok(self, key):
        d = os.path.dirname(key)
        return d == "" or (d in self.fs.nodes and self.fs.nodes[d]["kind"] == "d")

    def _tracked(self, key):
        return self.fs.inside(key) or key in self.fs.nodes

    def step(self, c):
        fs, name, a, ret = self.fs, c.name, c.args, c.ret
        if ret is None:
            return None, None
        if name in ("open", "openat", "creat"):
            if name == "openat":
                dirfd, path, flags, mode = a[0], a[1], a[2], (a[3] if len(a) > 3 else "0")
            elif name == "open":
                dirfd, path, flags, mode = "AT_FDCWD", a[0], a[1], (a[2] if len(a) > 2 else "0")
            else:
                dirfd, path, flags, mode = "AT_FDCWD", a[0], "O_CREAT|O_WRONLY|O_TRUNC", a[1]
            ap = self._abs(dirfd, arg_bytes(path))
            key = fs.key(ap)
            fl = set(flags.split("|"))
            creating = "O_CREAT" in fl
            wr = bool(fl & {"O_WRONLY", "O_RDWR"})
            dcall = None
            if key == self.cfg and not wr:
                n = fs.nodes.get(key)
                ok = 1 if (ret < 0 and c.errno == "ENOENT") or (ret >= 0 and n is not None and n["kind"] == "f" and
                                                                 table_of(n["data"])["parse"] != "bad") else 0
                dcall = {"call": "load", "ok": ok}
            elif fs.inside(key) and creating and wr and key != self.cfg and os.path.dirname(key) == self.cfgdir:
                dcall = {"call": "creat", "ok": 1 if ret >= 0 else 0}
            elif key == self.cfg and wr:
                dcall = {"call": "creat", "ok": 1 if ret >= 0 else 0}      # a writer that opens the config path itself
            if ret < 0:
                return None, dcall
            self.fd[ret] = {"key": key, "abspath": ap, "off": 0, "append": "O_APPEND" in fl, "w": wr}
            if "O_DIRECTORY" in fl or ap in self.ignore:
                return None, dcall
            n = fs.nodes.get(key)
            if n is not None and n["kind"] == "d":
                return None, dcall
            if n is None:
                if not creating:
                    if fs.inside(key):
                        raise vlib.ToolError("replayer: open of unknown file %s succeeded" % key)
                    return None, dcall
                if not wr or (not fs.inside(key) and (ap.startswith("/dev/") or ap.startswith("/proc/"))):
                    return None, dcall
                if fs.inside(key) and not self._parent_ok(key):
                    raise vlib.ToolError("replayer: create below unknown directory: %s" % key)
                fs.nodes[key] = {"kind": "f", "data": b"", "mode": int(mode, 8) & ~self.umask & 0o7777, "uid": self.uid,
                                 "gid": self.gid}
                return {"call": "creat", "path": key}, dcall
            if "O_TRUNC" in fl and wr:
                n["data"] = b""
                return {"call": "trunc", "path": key}, dcall
            return None, dcall
        if name == "close":
            ent = self.fd.pop(int(a[0]), None) if a and a[0].isdigit() else None
            if ent is not None and ent["w"] and self._tracked(ent["key"]):
                return None, {"call": "close", "ok": 1 if ret == 0 else 0}
            return None, None
        if name in ("write", "pwrite64"):
            if not a[0].isdigit():
                return None, None
            ent = self.fd.get(int(a[0]))
            if ent is None or not ent["w"]:
                return None, None
            key = ent["key"]
            if key not in fs.nodes or fs.nodes[key]["kind"] != "f":
                return None, None
            if ret < 0:
                return None, {"call": "write", "ok": 0}
            data = arg_bytes(a[1])[:ret]
            if len(data) != ret:
                raise vlib.ToolError("strace: write payload shorter than the byte count")
            cur = fs.nodes[key]["data"]
            if name == "pwrite64":
                off = int(a[3])
            elif ent["append"]:
                off = len(cur)
            else:
                off = ent["off"]
            if off > len(cur):
                cur = cur + b"\0" * (off - len(cur))
            fs.nodes[key]["data"] = cur[:off] + data + cur[off + len(data):]
            if name == "write":
                ent["off"] = off + len(data)
            return {"call": "write", "path": key}, {"call": "write", "ok": 1}
        if name in ("ftruncate", "truncate"):
            if ret != 0:
                return None, None
            if name == "ftruncate":
                ent = self.fd.get(int(a[0]))
                key = ent["key"] if ent else None
            else:
                key = fs.key(self._abs("AT_FDCWD", arg_bytes(a[0])))
            if key is None or key not in fs.nodes:
                return None, None
            n = int(a[1])
            cur = fs.nodes[key]["data"]
            fs.nodes[key]["data"] = cur[:n] + b"\0" * max(0, n - len(cur))
            return {"call": "trunc", "path": key}, None
        if name in ("fstat",):
            ent = self.fd.get(int(a[0])) if a[0].isdigit() else None
            if ent is not None and ent["w"] and self._tracked(ent["key"]):
                return None, {"call": "fstat", "ok": 1 if ret == 0 else 0}
            return None, None
        if name in ("newfstatat", "stat", "lstat"):
            if name == "newfstatat":
                ap = self._abs(a[0], arg_bytes(a[1]))
                nofollow = "AT_SYMLINK_NOFOLLOW" in a[-1]
            else:
                ap = self._abs("AT_FDCWD", arg_bytes(a[0]))
                nofollow = name == "lstat"
            key = fs.key(ap)
            if key == self.cfg:
                if nofollow:
                    # os.Rename looks at the target first: a directory in the way fails the rename without the call
                    if ret == 0 and "S_IFDIR" in " ".join(a):
                        return None, {"call": "rename", "ok": 0}
                    return None, None
                return None, {"call": "stat", "ok": 1 if (ret == 0 or c.errno == "ENOENT") else 0}
            if fs.inside(key) and self.cls(key) == "dir" and not self.statdir_seen:
                self.statdir_seen = True
                return None, {"call": "statdir", "ok": 1}
            return None, None
        if name in ("mkdir", "mkdirat"):
            ap = self._abs(a[0], arg_bytes(a[1])) if name == "mkdirat" else self._abs("AT_FDCWD", arg_bytes(a[0]))
            key = fs.key(ap)
            if not fs.inside(key):
                return None, None
            if ret != 0:
                return None, {"call": "mkdir", "ok": 1 if c.errno == "EEXIST" else 0}
            fs.nodes[key] = {"kind": "d", "data": b"", "mode": int(a[-1], 8) & ~self.umask & 0o7777, "uid": self.uid,
                             "gid": self.gid}
            return {"call": "mkdir", "path": key}, {"call": "mkdir", "ok": 1}
        if name in ("chmod", "fchmodat", "fchmod"):
            if name == "fchmod":
                ent = self.fd.get(int(a[0]))
                key, mode = (ent["key"] if ent else None), a[1]
            elif name == "fchmodat":
                key, mode = fs.key(self._abs(a[0], arg_bytes(a[1]))), a[2]
            else:
                key, mode = fs.key(self._abs("AT_FDCWD", arg_bytes(a[0]))), a[1]
            if key is None or key not in fs.nodes:
                return None, ({"call": "chmod", "ok": 0} if key is not None and fs.inside(key) else None)
            if ret != 0:
                return None, {"call": "chmod", "ok": 0}
            fs.nodes[key]["mode"] = int(mode, 8) & 0o7777
            return {"call": "chmod", "path": key}, {"call": "chmod", "ok": 1}
        if name in ("chown", "lchown", "fchownat", "fchown"):
            if name == "fchown":
                ent = self.fd.get(int(a[0]))
                key, u, g = (ent["key"] if ent else None), a[1], a[2]
            elif name == "fchownat":
                key, u, g = fs.key(self._abs(a[0], arg_bytes(a[1]))), a[2], a[3]
            else:
                key, u, g = fs.key(self._abs("AT_FDCWD", arg_bytes(a[0]))), a[1], a[2]
            if key is None or key not in fs.nodes:
                return None, None
            if ret != 0:
                return None, {"call": "chown", "ok": 0}
            if int(u) != -1:
                fs.nodes[key]["uid"] = int(u)
            if int(g) != -1:
                fs.nodes[key]["gid"] = int(g)
            return {"call": "chown", "path": key}, {"call": "chown", "ok": 1}
        if name in ("rename", "renameat", "renameat2"):
            if name == "rename":
                src, dst = self._abs("AT_FDCWD", arg_bytes(a[0])), self._abs("AT_FDCWD", arg_bytes(a[1]))
            else:
                src, dst = self._abs(a[0], arg_bytes(a[1])), self._abs(a[2], arg_bytes(a[3]))
            ks, kd = fs.key(src), fs.key(dst)
            if not (self._tracked(ks) or fs.inside(kd)):
                return None, None
            if ret != 0:
                return None, {"call": "rename", "ok": 0}
            if ks not in fs.nodes or fs.nodes[ks]["kind"] != "f":
                raise vlib.ToolError("replayer: rename of an unknown file or a directory: %s -> %s" % (src, dst))
            fs.nodes[kd] = fs.nodes.pop(ks)
            for ent in self.fd.values():
                if ent["key"] == ks:
                    ent["key"] = kd
            return {"call": "rename", "path": kd, "from": ks}, {"call": "rename", "ok": 1}
        if name in ("unlink", "unlinkat", "rmdir"):
            if name == "unlinkat":
                ap = self._abs(a[0], arg_bytes(a[1]))
            else:
                ap = self._abs("AT_FDCWD", arg_bytes(a[0]))
            key = fs.key(ap)
            if not self._tracked(key) and not fs.inside(key):
                return None, None
            if ret != 0:
                if name == "unlinkat" and "AT_REMOVEDIR" in a[2]:
                    return None, None      # os.Remove tries rmdir after a failed unlink: one removal, two calls
                return None, ({"call": "unlink", "ok": 0} if fs.inside(key) else None)
            if key not in fs.nodes:
                raise vlib.ToolError("replayer: unlink of unknown path %s succeeded" % key)
            del fs.nodes[key]
            return {"call": "unlink", "path": key}, {"call": "unlink", "ok": 1}
        if name in ("dup", "dup2", "dup3"):
            if ret >= 0 and a[0].isdigit():
                ent = self.fd.get(int(a[0]))
                if ent is not None and ent["w"] and self._tracked(ent["key"]) and fs.inside(ent["key"]):
                    raise vlib.ToolError("replayer: dup of a writable descriptor of the config directory is not modelled")
                if ent is not None:
                    self.fd[ret] = dict(ent)
            return None, None
        if name in ("fsync", "fdatasync"):
            ent = self.fd.get(int(a[0])) if a and a[0].isdigit() else None
            if ent is not None and self._tracked(ent["key"]):
                self.fsync += 1
            return None, None
        if name in UNSUPPORTED:
            if ret >= 0:
                txt = " ".join(a)
                hexroot = "".join("\\x%02x" % ch for ch in self.fs.base.encode())
                fds = [x for x in a if x.isdigit() and int(x) in self.fd and self.fd[int(x)]["w"] and
                       self.fs.inside(self.fd[int(x)]["key"])]
                if hexroot in txt or fds or name == "umask":
                    raise vlib.ToolError("replayer: unsupported system call %s touches the config directory" % name)
            return None, None
        return None, None


# ----------------------------------------------------------------------------------------------
# independent observers: facts about a directory state, the configuration table (python json)
# ----------------------------------------------------------------------------------------------

DOCKER_ALIASES = ("docker.io", "registry-1.docker.io", "https://index.docker.io/v1/")


def label(data):
    return "c" + hashlib.sha256(data).hexdigest()[:16]


def canon_host(name):
    if name in DOCKER_ALIASES or name == "":
        return "docker.io"
    m = re.match(r"^[a-z]+://(.*)$", name)
    if m:
        name = m.group(1)
    return name.split("/")[0]


def observe(fs, cfg):
    """facts about the config path, its directory and every other file the save made"""
    n = fs.nodes.get(cfg)
    d = os.path.dirname(cfg)
    dn = fs.nodes.get(d) if d else {"kind": "d", "mode": 0o755}
    f = {"cfg": "absent", "cfg_mode": 0, "cfg_uid": 0, "cfg_gid": 0}
    if n is not None:
        f.update(cfg=("dir" if n["kind"] == "d" else label(n["data"])), cfg_mode=n["mode"], cfg_uid=n["uid"], cfg_gid=n["gid"])
    f["dir_ex"] = 1 if dn is not None and dn["kind"] == "d" else 0
    f["dir_mode"] = dn["mode"] if f["dir_ex"] else 0
    tg = []
    for k, x in fs.nodes.items():
        if k == cfg or x["kind"] != "f":
            continue
        if not fs.inside(k) or os.path.dirname(k) == d:
            tg.append(x["mode"] & 0o77)
    f["tmp_go"] = sorted(tg)
    f["tmp_n"] = len(tg)
    # everything else below the home directory (e.g. ~/.docker/config.json): path, content, mode, owner
    chain = set()
    x = d
    while x:
        chain.add(x)
        x = os.path.dirname(x)
    oth = sorted((k, label(x["data"]), x["mode"], x["uid"], x["gid"]) for k, x in fs.nodes.items()
                 if fs.inside(k) and k != cfg and k not in chain and os.path.dirname(k) != d)
    f["others"] = _dg(oth)
    return f


def _dg(o):
    return hashlib.sha256(json.dumps(o, sort_keys=True).encode()).hexdigest()[:12]


def table_of(data):
    """the configuration as an independent parser reads it; data None = no file. Documented defaults of the
    format are applied (tls: enabled, hostname: the registry name) so that a re-marshalled entry compares
    equal to a hand-written one."""
    t = {"parse": "ok", "hn": [], "hu": [], "hp": [], "ht": [], "hl": [], "hr": [], "blob": 0, "top": _dg({})}
    if data is None:
        t["parse"] = "absent"
        return t
    if data.strip() == b"":
        return t
    try:
        d = json.loads(data.decode("utf-8"))
        if not isinstance(d, dict) or not isinstance(d.get("hosts") or {}, dict):
            raise ValueError("shape")
        hosts = d.get("hosts") or {}
        rows = []
        for key, e in hosts.items():
            if not isinstance(e, dict):
                raise ValueError("shape")
            name = canon_host(key)
            rest = {k: v for k, v in e.items() if k not in ("user", "pass", "token", "tls")}
            if rest.get("hostname") in (key, name) or (name == "docker.io" and rest.get("hostname") == "registry-1.docker.io"):
                rest.pop("hostname")
            rows.append((name, str(e.get("user", "")), str(e.get("pass", "")), str(e.get("token", "")),
                         str(e.get("tls", "") or "enabled"), _dg(rest)))
        rows.sort()
        for r in rows:
            for fld, v in zip(("hn", "hu", "hp", "ht", "hl", "hr"), r):
                t[fld].append(v)
        t["blob"] = int(d.get("blobLimit", 0) or 0)
        t["top"] = _dg({k: v for k, v in d.items() if k not in ("hosts", "blobLimit")})
    except (ValueError, UnicodeDecodeError, TypeError, AttributeError):
        return {"parse": "bad", "hn": [], "hu": [], "hp": [], "ht": [], "hl": [], "hr": [], "blob": 0, "top": ""}
    return t


def table_at(fs, cfg):
    n = fs.nodes.get(cfg)
    if n is None:
        return table_of(None)
    if n["kind"] != "f":
        return {"parse": "bad", "hn": [], "hu": [], "hp": [], "ht": [], "hl": [], "hr": [], "blob": 0, "top": ""}
    return table_of(n["data"])


# ----------------------------------------------------------------------------------------------
# scenarios of (D) -> concrete runs of the real code
# ----------------------------------------------------------------------------------------------

CREDS = {"u1": ("alice", "p1secret"), "u2": ("bob", "p2secret"), "tok": ("<token>", "tok3secret")}
ERRNO = {"mkdir": ["EACCES", "ENOSPC"], "creat": ["EACCES", "ENOSPC", "EMFILE"], "write": ["ENOSPC", "EIO"],
         "close": ["EIO"], "stat": ["EACCES"], "chmod": ["EPERM"], "chown": ["EPERM"], "rename": ["EACCES", "EXDEV", "ENOSPC"]}
SYSCALL_OF = {"mkdir": "mkdirat", "creat": "openat", "write": "write", "close": "close", "stat": "newfstatat",
              "chmod": "fchmodat", "chown": "fchownat", "rename": "renameat"}
BLOB = 4194304


def host_entry(name, e, style):
    """the JSON entry regctl writes for a host (style 'regctl') or a minimal hand-written one"""
    cred, tls = e
    o = {}
    if style == "regctl" or tls != "enabled":
        o["tls"] = tls
    if style == "regctl":
        o["hostname"] = "registry-1.docker.io" if name == "docker.io" else name
    if cred in CREDS:
        u, p = CREDS[cred]
        if u == "<token>":
            o["token"] = p
        else:
            o["user"], o["pass"] = u, p
    if style == "regctl":
        if name == "docker.io":
            o["credHost"] = "https://index.docker.io/v1/"
        o["reqConcurrent"] = 3
    return o


def value_text(val, names, style="regctl"):
    """bytes of a config file holding the abstract value <<entry A, entry B, blob limit>>"""
    hosts = {}
    for h, e in zip(("A", "B"), val[:2]):
        if e:
            hosts[names[h]] = host_entry(names[h], e, style)
    o = {}
    if hosts:
        o["hosts"] = hosts
    if str(val[2]) == "1":
        o["blobLimit"] = BLOB
    return json.dumps(o, indent=2).encode()


def start_class(st):
    c = st["cfg"]
    if c["kind"] == "dir":
        return "cfgdir"
    if c["kind"] == "none":
        return "nodir%d" % st["miss"] if st["miss"] else "nofile"
    return "file" if c["n"] == c["sz"] else "torn"


def owner_class(scn):
    c, i = scn["start"]["cfg"], scn["id"]
    if c["kind"] != "file":
        return "-"
    if (c["uid"] == 0) != (c["gid"] == 0):
        return "rootgrp"
    return "own" if (c["uid"], c["gid"]) == (i["uid"], i["gid"]) else "other"


def _sh(argv, timeout=120, **kw):
    try:
        return subprocess.run(argv, capture_output=True, text=True, timeout=timeout, **kw)
    except subprocess.TimeoutExpired:
        raise vlib.ToolError("timed out (tooling): " + " ".join(argv[:8]))


def strace_argv(out, inject=None):
    a = ["strace", "-f", "-xx", "-s", "1000000", "-e", "trace=" + TRACE_SET]
    if inject:
        a += ["-e", "inject=" + inject]
    return a + ["-o", out]


class Cmd:
    """one command of a scenario, made concrete"""

    def __init__(self, w, spec):
        self.w, self.spec = w, spec
        self.kind = spec["kind"]
        self.argv = None          # builder: base dir -> argv tail
        self.stdin = None
        self.pcmd = None          # what (P) is told: kind, h, u, p, v
        self.content = None       # put: the bytes
        self.chunk = 0
        self.failafter = -1


class Scen:
    def __init__(self, sid, g, rng):
        self.sid, self.g, self.scn = sid, g, g["scn"]
        self.rng = rng
        self.events, self.devents, self.snaps, self.cmdends = [], [], [], []
        self.notes = []


def concretise(env, sc):
    """draw the input dimensions the design spec leaves open (names, spellings, file style, errno, how the
    path is given) from the scenario's own rng"""
    scn, rng = sc.scn, sc.rng
    sc.nameA = rng.choice(["reg-a.example.org", "docker.io", "reg-a.example.org:8443"])
    sc.names = {"A": sc.nameA, "B": "localhost:5000"}
    sc.style = rng.choice(["regctl", "regctl", "regctl", "hand"])
    sc.ident = (scn["id"]["uid"], scn["id"]["gid"])
    sc.umask = scn["umask"]
    sc.via = "REGCTL_CONFIG" if scn["start"]["miss"] == 2 or rng.random() < 0.3 else "HOME"
    sc.rel = sc.via == "REGCTL_CONFIG" and rng.random() < 0.4       # the path given relative to the working directory
    sc.docker = rng.random() < 0.35                                  # a docker config with credentials next to it
    sc.cfgkey = ".regctl/config.json" if sc.via == "HOME" else ("x/conf/regctl.json" if scn["start"]["miss"] == 2 else "conf/regctl.json")
    sc.cmds = []
    for i, spec in enumerate(scn["ws"]):
        c = Cmd(i + 1, spec)
        k = spec["kind"]
        if k == "put":
            c.content = value_text(spec["val"], sc.names, "regctl") if spec["n"] > 0 else b""
            n = spec["n"]
            c.chunk = 0 if (n == 1 and spec["fault"]["at"] != "read" and rng.random() < 0.5) else (-(-len(c.content) // n) if n else 1)
            c.failafter = spec["fault"]["k"] if spec["fault"]["at"] == "read" else -1
            c.pcmd = {"kind": "put", "h": "", "u": "", "p": "", "v": ""}
        else:
            h = spec["h"]
            spell = ""
            if h:
                name = sc.names[h]
                opts = [name]
                if name == "docker.io":
                    opts += ["registry-1.docker.io", ""]
                if h == "B":
                    opts += ["http://" + name]
                spell = rng.choice(opts)
            hs = [spell] if spell else []
            if k == "login":
                u, p = CREDS[spec["u"]]
                if rng.random() < 0.3:
                    c.tail = ["registry", "login"] + hs + ["-u", u, "--pass-stdin", "--skip-check"]
                    c.stdin = p + "\n"
                else:
                    c.tail = ["registry", "login"] + hs + ["-u", u, "-p", p, "--skip-check"]
                c.pcmd = {"kind": "login", "h": canon_host(spell), "u": u, "p": p, "v": ""}
            elif k == "logout":
                c.tail = ["registry", "logout"] + hs
                c.pcmd = {"kind": "logout", "h": canon_host(spell), "u": "", "p": "", "v": ""}
            elif k == "set":
                c.tail = ["registry", "set"] + hs + ["--tls", spec["v"], "--skip-check"]
                c.pcmd = {"kind": "set", "h": canon_host(spell), "u": "", "p": "", "v": spec["v"]}
            elif k == "cset":
                c.tail = ["config", "set", "--blob-limit", str(BLOB)]
                c.pcmd = {"kind": "cset", "h": "", "u": "", "p": "", "v": BLOB}
            else:
                raise vlib.ToolError("unknown command kind " + k)
        c.fault = dict(spec["fault"])
        c.errno = rng.choice(ERRNO[c.fault["at"]]) if c.fault["at"] in ERRNO else ""
        sc.cmds.append(c)


def make_start(env, sc, base):
    """create the start state of the scenario below base (as root), owned as the scenario says"""
    st = sc.scn["start"]
    uid, gid = sc.ident
    os.makedirs(base)
    os.chown(base, uid, gid)
    os.chmod(base, 0o755)
    cfgp = os.path.join(base, sc.cfgkey)
    d = os.path.dirname(cfgp)
    chain = []
    x = d
    while x != base:
        chain.append(x)
        x = os.path.dirname(x)
    chain.reverse()
    if getattr(sc, "docker", False):
        dd = os.path.join(base, ".docker")
        os.mkdir(dd)
        with open(os.path.join(dd, "config.json"), "w") as f:
            json.dump({"auths": {"localhost:5000": {"auth": "ZG9ja2VydXNlcjpkb2NrZXJwYXNz"},
                                 "https://index.docker.io/v1/": {"auth": "aHViOmh1YnBhc3M="}}}, f, indent=2)
        for p_ in (dd, os.path.join(dd, "config.json")):
            os.chown(p_, uid, gid)
        os.chmod(os.path.join(dd, "config.json"), 0o600)
    present = chain[:len(chain) - st["miss"]] if st["miss"] else chain
    for i, p in enumerate(present):
        os.mkdir(p)
        os.chown(p, uid, gid)
        os.chmod(p, st["dir_mode"] if p == d else 0o755)
    if st["miss"]:
        return
    c = st["cfg"]
    if c["kind"] == "dir":
        os.mkdir(cfgp)
        os.chown(cfgp, c["uid"], c["gid"])
    elif c["kind"] == "file":
        txt = value_text(c["c"], sc.names, sc.style)
        with open(cfgp, "wb") as f:
            f.write(txt if c["n"] == c["sz"] else txt[:len(txt) // 2])      # n < sz: a truncated file
        os.chown(cfgp, c["uid"], c["gid"])
        os.chmod(cfgp, c["mode"])
    for i in range(st["stale"]):
        p = cfgp + "%d" % (1234567 + i)
        with open(p, "wb") as f:
            f.write(b'{\n  "hosts": {\n    "stale')
        os.chown(p, uid, gid)
        os.chmod(p, 0o600)


def cmd_argv(env, sc, c, base, res):
    if c.kind == "put":
        cf = os.path.join(os.path.dirname(res), "content-%d.bin" % c.w)
        if not os.path.exists(cf):
            with open(cf, "wb") as f:
                f.write(c.content)
            os.chmod(cf, 0o644)
        return [env["drv"], "-mode", "save", "-file", os.path.join(base, sc.cfgkey), "-content", cf, "-chunk", str(c.chunk),
                "-failafter", str(c.failafter), "-res", res]
    return [env["regctl"]] + c.tail


def cmd_env(sc, base):
    e = {"PATH": os.environ.get("PATH", "/usr/bin:/bin"), "HOME": base}
    if sc.via == "REGCTL_CONFIG":
        # (relative: the commands run in the parent of the home directory)
        e["REGCTL_CONFIG"] = os.path.join(os.path.basename(base), sc.cfgkey) if getattr(sc, "rel", False) else os.path.join(base, sc.cfgkey)
    return e


def run_proc(sc, argv, env, cwd, stdin=None):
    uid, gid = sc.ident
    try:
        return subprocess.run(argv, env=env, cwd=cwd, input=stdin, capture_output=True, text=True, timeout=120,
                              user=uid, group=gid, extra_groups=[], umask=sc.umask)
    except subprocess.TimeoutExpired:
        raise vlib.ToolError("timed out (tooling): " + " ".join(argv[:6]))


def cmd_result(c, p, res):
    """ok = the command reported success (exit status; for the driver the error conffile.Write returned)"""
    if c.kind == "put":
        if p.returncode != 0:
            raise vlib.ToolError("x02drv failed: rc=%d %s" % (p.returncode, p.stderr[-1000:]))
        with open(res) as f:
            r = json.load(f)
        return int(r["ok"]), r.get("err", "")
    return (1 if p.returncode == 0 else 0), p.stderr.strip()[-300:]


def find_inject(calls, dcalls, fault):
    """the invocation (syscall name, ordinal) of the call the fault point names, from a dry run"""
    want, nth = fault["at"], (fault["k"] if fault["at"] == "write" else 0)
    seen = 0
    for c, d in zip(calls, dcalls):
        if d is not None and d["call"] == want and c.name == SYSCALL_OF[want]:
            if seen == nth:
                return c.name, c.idx
            seen += 1
    return None


def run_command(env, sc, c, base, fs, work, tag, inject=None):
    """one command under strace; replays its calls on fs. -> (ok, err, mutation events, design calls, calls)"""
    st = os.path.join(work, "strace-%s.txt" % tag)
    res = os.path.join(work, "res-%s.json" % tag)
    argv = strace_argv(st, inject) + cmd_argv(env, sc, c, base, res)
    p = run_proc(sc, argv, cmd_env(sc, base), work, c.stdin)
    if not os.path.exists(st):
        raise vlib.ToolError("strace wrote no log: rc=%d %s" % (p.returncode, p.stderr[-1000:]))
    calls, killed = parse_strace(st)
    rp = Replayer(fs, work, sc.cfgkey, sc.ident, sc.umask, ignore=(res, st))
    muts, dcs, per_call = [], [], []
    for cl in calls:
        m, d = rp.step(cl)
        per_call.append(d)
        if m is not None:
            m["cls"] = rp.cls(m["path"]) if fs.inside(m["path"]) else "ext"
            m["sysname"], m["sysidx"] = cl.name, cl.idx
            muts.append((m, fs.clone()))
        if d is not None:
            d = dict(d)
            d["mut"] = len(muts)
            dcs.append(d)
    if killed:
        return None, "killed", muts, dcs, calls, per_call, rp
    if inject and c.kind == "put" and p.returncode != 0:
        # the per-thread invocation counter failed a call of the driver itself (its result file): not the scenario
        return None, "driver-hit", muts, dcs, calls, per_call, rp
    ok, err = cmd_result(c, p, res)
    return ok, err, muts, dcs, calls, per_call, rp


def run_seq_scenario(env, sc):
    """commands one after the other, each its own process"""
    work = os.path.join(env["work"], sc.sid)
    os.makedirs(work)
    concretise(env, sc)
    os.chown(work, sc.ident[0], sc.ident[1])
    base = os.path.join(work, "h")
    make_start(env, sc, base)
    fs = FS.load(base)
    sc.base, sc.work = base, work
    sc.start_fs = fs.clone()
    sc.snaps = [fs.clone()]
    sc.fsync = 0
    for c in sc.cmds:
        c.fired = False
        pre = fs.clone()
        for attempt in range(5):
            inject = None
            if c.fault["at"] in SYSCALL_OF:
                # dry run on a copy of the current state: which invocation is the call to fail?
                dry = os.path.join(work, "dry%d" % c.w)
                shutil.rmtree(dry, ignore_errors=True)
                pre.dump(dry, sc.ident)
                dfs = FS.load(dry)
                _, _, _, _, dcalls_raw, per_call, _ = run_command(env, sc, c, dry, dfs, work, "dry%d" % c.w)
                tgt = find_inject(dcalls_raw, per_call, c.fault)
                shutil.rmtree(dry, ignore_errors=True)
                if tgt is not None:
                    inject = "%s:error=%s:when=%d" % (tgt[0], c.errno, tgt[1])
            ok, err, muts, dcs, calls, per_call, rp = run_command(env, sc, c, base, fs, work, "c%d" % c.w, inject)
            if not inject:
                break
            inj = [(cl, d) for cl, d in zip(calls, per_call) if cl.injected]
            hexbase = "".join("\\x%02x" % ch for ch in base.encode())
            hit = [x for x in inj if x[1] is not None and x[1]["call"] == c.fault["at"]]
            stray = [x for x in inj if x not in hit and (x[1] is not None or hexbase in " ".join(x[0].args))]
            if len(hit) == 1 and not stray and err != "driver-hit":
                # (the counter is per thread: the same invocation number of another thread may be failed as well; accepted
                # only when that call has nothing to do with the scenario directory)
                c.fired = True
                break
            # the call was made by another thread than in the dry run (the counter is per thread): start the command again
            if attempt == 4:
                raise vlib.ToolError("fault injection did not hit the intended call in %s (%s): %s" %
                                     (sc.sid, inject, [(cl.name, cl.args[:2]) for cl, _ in inj][:3]))
            shutil.rmtree(base)
            pre.dump(base, sc.ident)
            fs.nodes = pre.clone().nodes
        sc.fsync += rp.fsync
        c.ok, c.err, c.inject = ok, err, inject
        real = FS.load(base)
        df = fs.diff(real)
        if df:
            raise vlib.ToolError("replayer does not reproduce the directory of %s after command %d: %s" % (sc.sid, c.w, df[:4]))
        c.pre_fs, c.muts, c.dcs = pre, muts, dcs
        c.end_fs = real
    return sc


# ----------------------------------------------------------------------------------------------
# racing saves
# ----------------------------------------------------------------------------------------------

def run_race_scenario(env, sc):
    """two conffile.Write calls in one process (x02drv -mode race), interleaved as the TLC schedule says"""
    work = os.path.join(env["work"], sc.sid)
    os.makedirs(work)
    concretise(env, sc)
    os.chown(work, sc.ident[0], sc.ident[1])
    base = os.path.join(work, "h")
    make_start(env, sc, base)
    fs = FS.load(base)
    sc.base, sc.work = base, work
    sc.start_fs = fs.clone()
    writers = []
    for c in sc.cmds:
        cf = os.path.join(work, "content-%d.bin" % c.w)
        with open(cf, "wb") as f:
            f.write(c.content)
        os.chmod(cf, 0o644)
        chunk = c.chunk if c.chunk else max(1, len(c.content))
        writers.append({"content": cf, "chunk": chunk, "failafter": c.failafter})
    spec = os.path.join(work, "race.json")
    with open(spec, "w") as f:
        json.dump({"file": os.path.join(base, sc.cfgkey), "writers": writers, "schedule": sc.g["sched"]}, f)
    os.chmod(spec, 0o644)
    st, res = os.path.join(work, "strace.txt"), os.path.join(work, "res.json")
    p = run_proc(sc, strace_argv(st) + [env["drv"], "-mode", "race", "-spec", spec, "-res", res], cmd_env(sc, base), work)
    if p.returncode != 0:
        raise vlib.ToolError("x02drv race failed: rc=%d %s" % (p.returncode, p.stderr[-1000:]))
    with open(res) as f:
        results = json.load(f)
    calls, _ = parse_strace(st)
    rp = Replayer(fs, work, sc.cfgkey, sc.ident, sc.umask, ignore=(res, st))
    sc.muts = []
    for cl in calls:
        m, d = rp.step(cl)
        if m is not None:
            m["cls"] = rp.cls(m["path"]) if fs.inside(m["path"]) else "ext"
            m["sysname"], m["sysidx"] = cl.name, cl.idx
            sc.muts.append((m, fs.clone()))
    real = FS.load(base)
    df = fs.diff(real)
    if df:
        raise vlib.ToolError("replayer does not reproduce the directory of race %s: %s" % (sc.sid, df[:4]))
    for c, r in zip(sc.cmds, results):
        c.ok, c.err = int(r["ok"]), r.get("err", "")
    sc.end_fs = real
    return sc


CMD_RACES = [
    # (start value, held command (loads, then waits for its password on stdin), command that runs meanwhile)
    ("V0", ("login", "B", "u1"), ("login", "A", "u2")),
    ("V0", ("login", "A", "u2"), ("set", "A", "disabled")),
    ("none", ("login", "A", "u1"), ("login", "B", "tok")),
    ("V0", ("login", "B", "tok"), ("logout", "A", "")),
]


def run_cmd_race(env, sid, spec, rng):
    """two regctl processes: the first loads the config and is then held at its stdin (--pass-stdin) while the
    second runs to its end; then the first saves. The order of the two logs is known from that."""
    startv, held, other = spec
    scn = {"mode": "race", "id": {"uid": 1000, "gid": 1000}, "umask": 18,
           "start": {"miss": 0 if startv == "V0" else 1, "dir_mode": 0o700, "stale": 0,
                     "cfg": ({"kind": "file", "c": [["u1", "enabled"], [], "0"], "n": 1, "sz": 1, "mode": 0o600, "uid": 1000, "gid": 1000}
                             if startv == "V0" else {"kind": "none"})},
           "ws": [{"kind": k, "h": h, "u": (x if k == "login" else ""), "v": (x if k == "set" else ""), "n": 1,
                   "fault": {"at": "none", "k": 0}} for k, h, x in (held, other)]}
    sc = Scen(sid, {"scn": scn, "sched": [], "oks": [1, 1]}, rng)
    work = os.path.join(env["work"], sid)
    os.makedirs(work)
    os.chown(work, 1000, 1000)
    base = os.path.join(work, "h")
    concretise(env, sc)
    sc.via, sc.cfgkey = "HOME", ".regctl/config.json"
    c1, c2 = sc.cmds
    # the held command must read its password from stdin
    u, p = CREDS[held[2]]
    spell = c1.tail[2] if len(c1.tail) > 2 and not c1.tail[2].startswith("-") else ""
    c1.tail = ["registry", "login"] + ([spell] if spell else []) + ["-u", u, "--pass-stdin", "--skip-check"]
    make_start(env, sc, base)
    fs = FS.load(base)
    sc.base, sc.work, sc.start_fs = base, work, fs.clone()
    st1, st2 = os.path.join(work, "strace-1.txt"), os.path.join(work, "strace-2.txt")
    e = cmd_env(sc, base)
    p1 = subprocess.Popen(strace_argv(st1) + [env["regctl"]] + c1.tail, env=e, cwd=work, stdin=subprocess.PIPE,
                          stdout=subprocess.PIPE, stderr=subprocess.PIPE, text=True, user=1000, group=1000, extra_groups=[], umask=18)
    try:
        # wait (file based, no verdict depends on time) until the first process sits in read(0, ...)
        t0 = time.time()
        while True:
            try:
                with open(st1, errors="replace") as f:
                    if re.search(r"^\d+\s+read\(0,", f.read(), re.M):
                        break
            except OSError:
                pass
            if p1.poll() is not None or time.time() - t0 > 60:
                raise vlib.ToolError("the held regctl did not reach its stdin read")
            time.sleep(0.02)
        p2 = run_proc(sc, strace_argv(st2) + [env["regctl"]] + c2.tail, e, work, c2.stdin)
        out1, err1 = p1.communicate(p + "\n", timeout=60)
    finally:
        if p1.poll() is None:
            p1.kill()
    calls1, _ = parse_strace(st1)
    calls2, _ = parse_strace(st2)
    split = next((i for i, cl in enumerate(calls1) if cl.name == "read" and cl.args and cl.args[0] == "0"), None)
    if split is None:
        raise vlib.ToolError("no read(0) in the log of the held regctl")
    rp1 = Replayer(fs, work, sc.cfgkey, sc.ident, 18, ignore=(st1, st2))
    rp2 = Replayer(fs, work, sc.cfgkey, sc.ident, 18, ignore=(st1, st2))
    sc.phases = []          # (writer, [(mutation, snapshot)]) in the order of effect
    for w, rp, calls in ((1, rp1, calls1[:split]), (2, rp2, calls2), (1, rp1, calls1[split:])):
        muts = []
        for cl in calls:
            m, d = rp.step(cl)
            if m is not None:
                m["cls"] = rp.cls(m["path"])
                muts.append((m, fs.clone()))
        sc.phases.append((w, muts, fs.clone()))
    real = FS.load(base)
    df = fs.diff(real)
    if df:
        raise vlib.ToolError("replayer does not reproduce the directory of command race %s: %s" % (sid, df[:4]))
    c1.ok, c1.err = (1 if p1.returncode == 0 else 0), err1[-300:]
    c2.ok, c2.err = (1 if p2.returncode == 0 else 0), p2.stderr[-300:]
    sc.end_fs = real
    return sc


# ----------------------------------------------------------------------------------------------
# traces for (P) and for (D)
# ----------------------------------------------------------------------------------------------

def header_of(sc, mode):
    f = observe(sc.start_fs, sc.cfgkey)
    t = table_at(sc.start_fs, sc.cfgkey)
    chown_fault = any(c.fault["at"] == "chown" for c in sc.cmds)
    h = {"mode": mode, "priv": 1 if sc.ident[0] == 0 and not chown_fault else 0, "puid": sc.ident[0], "pgid": sc.ident[1]}
    h.update(f)
    h.update(t)
    return h


def cmd_event(c, new):
    e = {"ev": "cmd", "w": c.w, "new": new}
    e.update(c.pcmd)
    return e


def new_label(c, end_fs, cfgkey):
    if c.kind == "put":
        return label(c.content)
    if c.ok != 1:
        return ""
    n = end_fs.nodes.get(cfgkey)
    return label(n["data"]) if n is not None and n["kind"] == "f" else ""


def sys_event(k, w, m, snap, cfgkey):
    e = {"ev": "sys", "k": k, "w": w, "call": m["call"], "cls": m["cls"]}
    e.update(observe(snap, cfgkey))
    return e


def end_event(c, k, fs, cfgkey):
    e = {"ev": "end", "w": c.w, "ok": c.ok, "n": k}
    e.update(observe(fs, cfgkey))
    e.update(table_at(fs, cfgkey))
    return e


def build_seq_trace(sc, probes):
    evs, k = [], 0
    sc.points = {}            # k -> (cmd, index of the mutation in the command)
    for c in sc.cmds:
        evs.append(cmd_event(c, new_label(c, c.end_fs, sc.cfgkey)))
        first = k
        for i, (m, snap) in enumerate(c.muts):
            k += 1
            evs.append(sys_event(k, c.w, m, snap, sc.cfgkey))
            sc.points[k] = (c, i)
        evs.append(end_event(c, k, c.end_fs, sc.cfgkey))
        for kk in range(first + 1, k + 1):
            pr = probes.get((sc.sid, kk))
            if pr is None:
                continue
            evs.append({"ev": "fresh", "k": kk, "ok": pr["fresh_ok"]})
            r = {"ev": "retry", "k": kk, "w": c.w, "ok": pr["retry_ok"]}
            r.update(pr["facts"])
            r.update(pr["table"])
            evs.append(r)
    evs.append({"ev": "done", "trace": sc.sid})
    return {"id": sc.sid, "header": header_of(sc, "seq"), "events": evs, "scenario": sc.g}


def build_race_trace(sc):
    evs, k = [], 0
    for c in sc.cmds:
        evs.append(cmd_event(c, label(c.content)))
    for m, snap in sc.muts:
        k += 1
        evs.append(sys_event(k, 0, m, snap, sc.cfgkey))
    for c in sc.cmds:
        evs.append(end_event(c, k, sc.end_fs, sc.cfgkey))
    e = {"ev": "raceend"}
    e.update(observe(sc.end_fs, sc.cfgkey))
    evs.append(e)
    evs.append({"ev": "done", "trace": sc.sid})
    return {"id": sc.sid, "header": header_of(sc, "race"), "events": evs, "scenario": sc.g}


def build_cmdrace_trace(sc):
    """held command = writer 1, the command that runs meanwhile = writer 2 (ends first)"""
    evs, k = [], 0
    c1, c2 = sc.cmds
    (_, m1a, fs1a), (_, m2, fs2), (_, m1b, fs1b) = sc.phases
    evs.append(cmd_event(c1, new_label(c1, sc.end_fs, sc.cfgkey)))
    evs.append(cmd_event(c2, new_label(c2, fs2, sc.cfgkey)))
    for w, muts, endfs, c in ((1, m1a, None, None), (2, m2, fs2, c2), (1, m1b, fs1b, c1)):
        for m, snap in muts:
            k += 1
            evs.append(sys_event(k, w, m, snap, sc.cfgkey))
        if c is not None:
            evs.append(end_event(c, k, endfs, sc.cfgkey))
    e = {"ev": "raceend"}
    e.update(observe(sc.end_fs, sc.cfgkey))
    evs.append(e)
    evs.append({"ev": "done", "trace": sc.sid})
    return {"id": sc.sid, "header": header_of(sc, "race"), "events": evs, "scenario": sc.g}


def dtrace_of(sc):
    evs = []
    for c in sc.cmds:
        for d in c.dcs:
            evs.append({"ev": "dsys", "w": c.w, "call": d["call"], "ok": d["ok"]})
        evs.append({"ev": "dend", "w": c.w, "ok": c.ok})
    evs.append({"ev": "ddone"})
    return {"id": sc.sid, "header": {"scn": sc.scn}, "events": evs}


# ----------------------------------------------------------------------------------------------
# crash states: a fresh real reader, and the interrupted command run again
# ----------------------------------------------------------------------------------------------

def probe_point(env, sc, k):
    c, i = sc.points[k]
    snap = c.muts[i][1]
    d = os.path.join(sc.work, "crash%03d" % k)
    snap.dump(d, sc.ident)
    e = cmd_env(sc, d)
    p = run_proc(sc, [env["regctl"], "registry", "config"], e, sc.work)
    fresh_ok = 1 if p.returncode == 0 else 0
    res = os.path.join(sc.work, "retry%03d.json" % k)
    c2 = copy.copy(c)
    c2.failafter = -1            # the re-run is not faulted
    p2 = run_proc(sc, cmd_argv(env, sc, c2, d, res), e, sc.work, c.stdin)
    ok, err = cmd_result(c, p2, res)
    after = FS.load(d)
    out = {"fresh_ok": fresh_ok, "fresh_err": p.stderr[-200:], "retry_ok": ok, "retry_err": err,
           "facts": observe(after, sc.cfgkey), "table": table_at(after, sc.cfgkey)}
    shutil.rmtree(d, ignore_errors=True)
    return out


def select_points(scs, rng, budget):
    must, rest, seen = [], [], set()
    for sc in scs:
        k = 0
        for c in sc.cmds:
            for m, snap in c.muts:
                k += 1
                f = observe(snap, sc.cfgkey)
                key = (c.kind, m["call"], m["cls"], start_class(sc.scn["start"]), c.fault["at"], f["cfg"] == "absent")
                if key not in seen:
                    seen.add(key)
                    must.append((sc.sid, k))
                else:
                    rest.append((sc.sid, k))
    if budget is None or len(must) + len(rest) <= budget:
        return must + rest, len(seen)
    return must + rng.sample(rest, max(0, budget - len(must))), len(seen)


def kill_confirm(env, scs, rng, n):
    """really SIGKILL the process at a seed-selected system call (strace inject, the call is not executed) and
    compare what is left with the replayer's reconstruction of the prefix before that call"""
    cands = [(sc, c, i) for sc in scs for c in sc.cmds for i in range(len(c.muts))
             if c.fault["at"] not in SYSCALL_OF and len(sc.cmds) == 1]
    ok, inconclusive, points = 0, 0, []
    for j, (sc, c, i) in enumerate(vlib.sample(rng, cands, n)):
        m = c.muts[i][0]
        work = os.path.join(env["work"], "kill%03d" % j)
        os.makedirs(work)
        os.chown(work, sc.ident[0], sc.ident[1])
        base = os.path.join(work, "h")
        sc.start_fs.dump(base, sc.ident)
        fs = FS.load(base)
        k2 = copy.copy(sc)
        _, err, muts, _, calls, _, _ = run_command(env, k2, c, base, fs, work, "kill",
                                                   "%s:signal=KILL:when=%d" % (m["sysname"], m["sysidx"]))
        last = calls[-1] if calls else None
        if err != "killed" or len(muts) != i or last is None or last.ret is not None or last.name != m["sysname"]:
            inconclusive += 1      # the call was made by another thread than in the recorded run (per-thread counter)
            continue
        real = FS.load(base)
        want = (c.muts[i - 1][1] if i > 0 else sc.start_fs)

        def norm(f):
            # temp names are random: compare them by content / mode / owner
            o = []
            for kx, x in f.nodes.items():
                if not f.inside(kx):
                    continue
                nm = kx if (x["kind"] == "d" or kx == sc.cfgkey) else os.path.dirname(kx) + "/*"
                o.append((nm, x["kind"], x["data"], x["mode"], x["uid"], x["gid"]))
            return sorted(o)
        if norm(real) != norm(want):
            raise vlib.ToolError("SIGKILL at %s #%d of %s leaves a directory that differs from the replayer's reconstruction"
                                 % (m["sysname"], m["sysidx"], sc.sid))
        ok += 1
        points.append("%s: kill -9 before %s of %s (%s)" % (c.kind, m["sysname"], m["cls"], start_class(sc.scn["start"])))
    return ok, inconclusive, points


# ----------------------------------------------------------------------------------------------
# TLC validation
# ----------------------------------------------------------------------------------------------

def validate_traces(ctx, traces, lbl):
    fn = ctx.path("traces", "%s.ndjson" % lbl)
    index = []
    with open(fn, "w") as f:
        for ti, t in enumerate(traces):
            hdr = {"ev": "reset", "trace": str(t["id"])}
            hdr.update(t["header"])
            f.write(json.dumps(hdr, sort_keys=True) + "\n")
            index.append((ti, -1))
            for ei, ev in enumerate(t["events"]):
                f.write(json.dumps(ev, sort_keys=True) + "\n")
                index.append((ti, ei))
    res = ctx.tlc("ConfFileTrace", "X02_trace.cfg", workers=1, timeout=1500, record=False, allow_violation=True,
                  extra=["-continue", "-difftrace"], env={"VERIF_TRACE": fn, "JAVA_TOOL_OPTIONS": "-Xss64m"})
    out = res["output"]
    done = set(re.findall(r'<<"DONE", "([^"]*)">>', out))
    missing = [t["id"] for t in traces if str(t["id"]) not in done]
    if missing:
        raise vlib.ToolError("trace validation did not consume traces %s:\n%s" % (missing[:5], out[-3000:]))
    viol = []
    for block in out.split("Error: Invariant Ok is violated.")[1:]:
        block = block.split("Error: Invariant")[0]
        l, bad = None, None
        for m in re.finditer(r"^/\\ (l|bad) = (.*)$", block, re.M):
            if m.group(1) == "l":
                l = int(m.group(2))
            else:
                bad = m.group(2)
        if l is None or bad is None:
            raise vlib.ToolError("cannot parse TLC counterexample:\n" + block[-2000:])
        ti, ei = index[l - 2]
        viol.append((ti, ei, re.findall(r'"([^"]+)"', bad)))
    other = re.search(r"Error: (?!Invariant Ok is violated|The behavior up to this point)(.*)", out)
    if other:
        raise vlib.ToolError("TLC error during trace validation: %s\n%s" % (other.group(1), out[-3000:]))
    ctx.cov["trace_states"] = ctx.cov.get("trace_states", 0) + res["distinct"]
    return viol


def validate_dtraces(ctx, dtraces, cfg, lbl):
    fn = ctx.path("traces", "%s.ndjson" % lbl)
    starts, n = {}, 0
    with open(fn, "w") as f:
        for t in dtraces:
            n += 1
            starts[n] = t
            hdr = {"ev": "reset", "trace": str(t["id"])}
            hdr.update(t["header"])
            f.write(json.dumps(hdr, sort_keys=True) + "\n")
            for ev in t["events"]:
                n += 1
                f.write(json.dumps(ev, sort_keys=True) + "\n")
    res = ctx.tlc("ConfFileDTrace", cfg, workers=1, timeout=1500, record=False,
                  env={"VERIF_TRACE": fn, "JAVA_TOOL_OPTIONS": "-Xss64m"})
    out = res["output"]
    done = set(re.findall(r'<<"DONE", "([^"]*)">>', out))
    hw = {}
    m = re.search(r'<<\s*"HIGHWATER",(.*?)>>\s*\n', out, re.S)
    if m:
        for a, b in re.findall(r"(\d+) :> (\d+)", m.group(1)):
            hw[int(a)] = int(b)
        if not hw:
            for i, b in enumerate(re.findall(r"\d+", m.group(1))):
                hw[sorted(starts)[i]] = int(b)
    drift = {}
    for line, t in starts.items():
        if str(t["id"]) not in done:
            reached = hw.get(line, line + 1)
            drift[t["id"]] = max(0, reached - line - 1)
    ctx.cov["dtrace_states"] = ctx.cov.get("dtrace_states", 0) + res["distinct"]
    return done, drift


# ----------------------------------------------------------------------------------------------
# the check
# ----------------------------------------------------------------------------------------------

def _known_loader(ctx):
    base = ctx.load_known

    def load():
        k = base()
        try:
            with open(os.path.join(vlib.VERIF, "known.d", "X02.json")) as f:
                mine = json.load(f)
        except (OSError, ValueError):
            return k
        k["findings"] = [x for x in k.get("findings", []) if x.get("property") != "X02"] + mine
        return k
    return load


def probe_environment(work):
    """The check runs real processes as uid 0 and as uid 1000 under strace with fault injection. Anything missing here
    is a tooling condition (exit 2 with a clear message), never a verdict."""
    if os.geteuid() != 0:
        raise vlib.ToolError("environment: the X02 check must run as root (it runs regctl as uid 0 and as uid 1000 and sets "
                             "owners of the scenario files); euid is %d" % os.geteuid())
    if shutil.which("strace") is None:
        raise vlib.ToolError("environment: strace is not installed; the system calls of the real code cannot be recorded")
    try:
        p = subprocess.run(["strace", "-f", "-o", "/dev/null", "-e", "trace=openat", "-e", "inject=fchownat:error=EPERM:when=1",
                            "true"], capture_output=True, text=True, timeout=60)
    except (OSError, subprocess.TimeoutExpired) as e:
        raise vlib.ToolError("environment: strace cannot be run: %s" % e)
    if p.returncode != 0:
        raise vlib.ToolError("environment: strace / ptrace (with fault injection) does not work here: " + p.stderr.strip()[-300:])
    d = os.path.join(work, "envprobe")
    try:
        os.makedirs(d, exist_ok=True)
        os.chown(d, 1000, 1000)
    except OSError as e:
        raise vlib.ToolError("environment: cannot chown a scratch directory to uid 1000 (%s): no CAP_CHOWN?" % e)
    try:
        p = subprocess.run(["strace", "-f", "-o", os.path.join(d, "st.txt"), "-e", "trace=openat", "id", "-u"],
                           capture_output=True, text=True, timeout=60, cwd=d, user=1000, group=1000, extra_groups=[])
    except (OSError, subprocess.SubprocessError, ValueError) as e:
        raise vlib.ToolError("environment: cannot start a process as uid 1000 (setuid/setgid/setgroups refused): %s" % e)
    if p.returncode != 0 or p.stdout.strip() != "1000":
        raise vlib.ToolError("environment: a process run as uid 1000 under strace failed (rc=%d, uid=%r): %s - ptrace for "
                             "unprivileged users (yama ptrace_scope / seccomp) or setuid is not available"
                             % (p.returncode, p.stdout.strip(), p.stderr.strip()[-300:]))
    shutil.rmtree(d, ignore_errors=True)


def prepare(ctx):
    os.chmod(ctx.scratch, 0o755)          # the scenarios also run as an unprivileged uid
    work = ctx.path("x02", "work", "x")
    work = os.path.dirname(work)
    os.chmod(os.path.dirname(work), 0o755)
    os.chmod(work, 0o755)
    probe_environment(work)
    ctx.build("x02drv")
    ctx.build_repo_cmd("./cmd/regctl", "regctl")
    os.chmod(ctx.bin, 0o755)
    return {"drv": os.path.join(ctx.bin, "x02drv"), "regctl": os.path.join(ctx.bin, "regctl"), "work": work}


def scen_key(g):
    scn = g["scn"]
    faults = [w["fault"]["at"] for w in scn["ws"] if w["fault"]["at"] != "none"]
    return (tuple(w["kind"] for w in scn["ws"]), faults[0] if faults else "none", start_class(scn["start"]), owner_class(scn),
            scn["id"]["uid"])


def sample_scenarios(gs, rng, budget):
    groups = {}
    for g in gs:
        groups.setdefault(scen_key(g), []).append(g)
    keys = sorted(groups, key=str)
    # one of every class of single commands; command pairs and the rest from the remaining budget
    single = [k for k in keys if len(k[0]) == 1]
    picked = [rng.choice(groups[k]) for k in single]
    if budget is not None and len(picked) > budget:
        must = [g for g in picked if owner_class(g["scn"]) == "rootgrp"]
        picked = must + rng.sample([g for g in picked if g not in must], budget - len(must))
    rest = [g for g in gs if g not in picked]
    if budget is None:
        return picked + rest
    pairs = [g for g in rest if len(g["scn"]["ws"]) > 1]
    singles = [g for g in rest if len(g["scn"]["ws"]) == 1]
    return picked + vlib.sample(rng, pairs, max(16, budget // 5)) + vlib.sample(rng, singles, max(8, budget - len(picked)))


def signature(t, ei, obl):
    ev = t["events"][ei]
    scn = t["scenario"]["scn"]
    w = ev.get("w", 0)
    kinds = [x["kind"] for x in scn["ws"]]
    kind = kinds[w - 1] if w and w <= len(kinds) else "+".join(kinds)
    fault = scn["ws"][w - 1]["fault"]["at"] if w and w <= len(kinds) else "none"
    if ev["ev"] == "sys":
        phase = "crash:%s:%s" % (ev["call"], ev["cls"])
    else:
        phase = ev["ev"]
    return "%s/%s@%s[start=%s,owner=%s,id=%s,fault=%s,mode=%s]" % (
        kind, obl, phase, start_class(scn["start"]), owner_class(scn), "root" if scn["id"]["uid"] == 0 else "user", fault, scn["mode"])


def binding_demo(ctx, traces, dtraces, matched, nrejected):
    """the trace specs must reject corrupted copies of accepted real traces"""
    def pick(pred):
        for t in traces:
            if pred(t):
                return t
        if nrejected:
            return None      # this tree's traces of that shape were all rejected: there is nothing accepted to corrupt
        raise vlib.ToolError("no trace to demonstrate the binding of (P) on")
    seq_file = pick(lambda t: t["header"]["mode"] == "seq" and t["header"]["cfg"] not in ("absent", "dir")
                    and t["scenario"]["scn"]["ws"][0]["kind"] in ("login", "set")
                    and any(e["ev"] == "end" and e["ok"] == 1 and len(e["hn"]) >= 2 for e in t["events"])
                    and any(e["ev"] == "sys" for e in t["events"]) and any(e["ev"] == "retry" for e in t["events"]))
    put_ok = pick(lambda t: t["header"]["mode"] == "seq" and t["scenario"]["scn"]["ws"][0]["kind"] == "put"
                  and t["header"]["cfg"] not in ("absent", "dir")
                  and any(e["ev"] == "end" and e["ok"] == 1 for e in t["events"]))
    race = pick(lambda t: t["header"]["mode"] == "race" and any(e["ev"] == "raceend" for e in t["events"])
                and any(e["ev"] == "end" and e["ok"] == 1 for e in t["events"])
                and all(e.get("kind") == "put" for e in t["events"] if e["ev"] == "cmd"))

    def mut(base, name, fn):
        if base is None:
            return None
        m = copy.deepcopy(base)
        m["id"] = name
        m["events"][-1]["trace"] = name
        fn(m)
        return m

    def first(m, kind):
        return next(i for i, e in enumerate(m["events"]) if e["ev"] == kind)

    def set_ev(kind, **kw):
        def f(m):
            m["events"][first(m, kind)].update(kw)
        return f

    def other_host_changed(m):
        e = m["events"][first(m, "end")]
        tgt = m["events"][first(m, "cmd")]["h"]
        i = next(i for i, h in enumerate(e["hn"]) if h != tgt)
        e["hp"] = list(e["hp"])
        e["hp"][i] = "changed"

    def drop(m):
        del m["events"][first(m, "sys")]

    def prev_at_end(m):
        m["events"][first(m, "end")]["cfg"] = m["header"]["cfg"]
    muts = [
        (mut(seq_file, "demo-partial", set_ev("sys", cfg="c0000000000000000")), "S1-old-or-new"),
        (mut(seq_file, "demo-temp-readable", set_ev("sys", tmp_go=[0o22], tmp_n=1)), "S3-temp-private"),
        (mut(seq_file, "demo-mode-changed", set_ev("end", cfg_mode=0o666)), "S3-mode-kept"),
        (mut(seq_file, "demo-docker-config-touched", set_ev("sys", others="changed")), "S5-nothing-else-touched"),
        (mut(seq_file, "demo-temp-left", lambda m: m["events"][first(m, "end")].update(
            tmp_n=m["header"]["tmp_n"] + 1, tmp_go=list(m["header"]["tmp_go"]) + [0])), "S2-no-temp-left"),
        (mut(seq_file, "demo-other-host", other_host_changed), "S4-denotes"),
        (mut(seq_file, "demo-drop-syscall", drop), "seq"),
        (mut(seq_file, "demo-unloadable", set_ev("fresh", ok=0)), "S1-loadable"),
        (mut(seq_file, "demo-rerun-fails", set_ev("retry", ok=0)), "S1-rerun-succeeds"),
        (mut(put_ok, "demo-success-not-in-place", prev_at_end), "S2-success-in-place"),
        (mut(race, "demo-race-mix", set_ev("raceend", cfg="c1111111111111111")), "S2-last-rename-wins"),
    ]
    muts = [(m, w) for m, w in muts if m is not None]
    viol = validate_traces(ctx, [m for m, _ in muts], "demo") if muts else []
    for i, (m, want) in enumerate(muts):
        got = set(o for ti, ei, obls in viol if ti == i for o in obls)
        if want not in got:
            raise vlib.ToolError("binding demo %s: (P) did not report %s (reported %s): the trace spec does not bind"
                                 % (m["id"], want, sorted(got)))
    n = len(muts)
    d0 = next((d for d in dtraces if d["id"] in matched and
               [e.get("call") for e in d["events"]].count("rename") == 1 and "chmod" in [e.get("call") for e in d["events"]]), None)
    if d0 is not None:
        dm = copy.deepcopy(d0)
        dm["id"] = "demo-d-swap"
        calls = [e.get("call") for e in dm["events"]]
        i, j = calls.index("chmod"), calls.index("rename")
        dm["events"][i], dm["events"][j] = dm["events"][j], dm["events"][i]
        done, _ = validate_dtraces(ctx, [d0, dm], "X02_dtrace.cfg", "demo-d")
        if d0["id"] not in done or dm["id"] in done:
            raise vlib.ToolError("binding demo: ConfFileDTrace accepted a call sequence with the rename before the chmod "
                                 "(or rejected the original)")
        n += 1
    return n


def run(ctx):
    rng = random.Random(ctx.seed)
    ctx.load_known = _known_loader(ctx)
    env = prepare(ctx)
    thorough = ctx.thorough
    tick = [time.time()]

    def lap(what):
        now = time.time()
        vlib.log("X02: %-52s %6.1fs" % (what, now - tick[0]))
        tick[0] = now

    # 1. the design spec, exhaustively, against the obligations (the runs go on in the background while the real
    #    code is exercised; they are collected before the evidence is written)
    jobs = []          # (key, module, cfg, expect a counterexample?, label)
    if not ctx.replay:
        if thorough:
            jobs.append(("full", "ConfFileMC", "X02_mc_full.cfg", False,
                         "every command kind x fault point x start state x root/user, command pairs, racing saves; kill -9 anywhere + re-run"))
        else:
            jobs.append(("qfault", "ConfFileMC", "X02_mc_qfault.cfg", False,
                         "every command kind x fault point x start state x root/user (no crash)"))
            jobs.append(("qcrash", "ConfFileMC", "X02_mc_qcrash.cfg", False,
                         "unfaulted commands, command pairs, racing saves; kill -9 anywhere + re-run"))
        jobs.append(("owner", "ConfFileMC", "X02_mc_owner.cfg", False,
                     "root saves a file whose owner or group (not both) is root: holds (the code since c56fb15)"))
        jobs.append(("asfound", "ConfFileMC", "X02_mc_asfound_owner.cfg", True,
                     "as-found switch: chown only if uid > 0 && gid > 0 (counterexample expected: finding X02-1)"))
        if thorough:
            jobs.append(("race", "ConfFileMC", "X02_mc_race.cfg", False,
                         "racing saves: 2 chunks each, racing commands, a faulted racer; one racer may be killed"))
            jobs.append(("seq", "ConfFileMCT", "X02_mc_seq.cfg", False,
                         "umask 022/077/000, put of 0-3 chunks, faulted first command of a pair, command triples"))
            jobs.append(("crash2", "ConfFileMC", "X02_mc_crash2.cfg", False, "the re-run may be killed as well (two crashes)"))
            for v in ("inplace", "noremove", "tmp666", "chmodlate", "nochmod"):
                jobs.append(("mut-" + v, "ConfFileMC", "X02_mc_mut_%s.cfg" % v, True,
                             "design-level mutant %s (counterexample expected)" % v))
    pool = concurrent.futures.ThreadPoolExecutor(2 if not thorough else 3)
    futs = {key: pool.submit(ctx.tlc, mod, cfg, workers=4, timeout=3000, allow_violation=exp, label=lbl)
            for key, mod, cfg, exp, lbl in jobs}

    def collect_mc():
        res = {}
        for key, mod, cfg, exp, lbl in jobs:
            res[key] = futs[key].result()
            if exp and key.startswith("mut-") and not res[key]["violated"]:
                raise vlib.ToolError("the design-level mutant %s satisfies every invariant: the invariants are too weak" % key)
            if key == "asfound" and not res[key]["violated"]:
                raise vlib.ToolError("ConfFile with Variant=asfound satisfies S3-owner-kept on the root-group owner classes: "
                                     "the as-found switch does not contain the defect it was kept to expose")
        return res

    # 2. scenarios from TLC
    if ctx.replay:
        with open(ctx.replay) as f:
            rp = json.load(f)["replay"]
        seq_gs = [rp["scenario"]] if rp["scenario"]["scn"]["mode"] == "seq" else []
        race_gs = [rp["scenario"]] if rp["scenario"]["scn"]["mode"] == "race" and "cmdrace" not in rp["scenario"] else []
        cmdraces = [rp["scenario"]["cmdrace"]] if "cmdrace" in rp["scenario"] else []
        ngen = 1
    else:
        gen = ctx.tlc_scenarios("ConfFileGen", "X02_gen_seq.cfg", timeout=900, record=False)
        allseq = gen["scenarios"]
        genr = ctx.tlc_scenarios("ConfFileGen", "X02_gen_race2.cfg" if thorough else "X02_gen_race1.cfg", timeout=900, record=False)
        allrace = [g for g in genr["scenarios"] if all(w["fault"]["at"] in ("none", "read") for w in g["scn"]["ws"])]
        if thorough:
            genr1 = ctx.tlc_scenarios("ConfFileGen", "X02_gen_race1.cfg", timeout=900, record=False)
            allrace += [g for g in genr1["scenarios"] if all(w["fault"]["at"] in ("none", "read") for w in g["scn"]["ws"])]
        ngen = len(allseq) + len(allrace)
        seq_gs = sample_scenarios(allseq, rng, None if thorough else 110)
        race_gs = allrace if thorough else vlib.sample(rng, allrace, 36)
        cmdraces = list(range(len(CMD_RACES)))
        for i, g in enumerate(seq_gs + race_gs):
            g["rs"] = "%d/%d" % (ctx.seed, i)
            # the umask is an input of the scenario record (D) is started in: drawn here, 022 twice as likely
            g["scn"]["umask"] = random.Random(g["rs"] + "/umask").choice([0o22, 0o22, 0o77, 0o27, 0])
    lap("TLC scenario generation (%d behaviours of (D))" % ngen)

    # 3. the real code under strace
    def one_seq(x):
        i, g = x
        return run_seq_scenario(env, Scen("s%04d" % i, g, random.Random(g["rs"])))

    def one_race(x):
        i, g = x
        return run_race_scenario(env, Scen("r%04d" % i, g, random.Random(g["rs"])))
    with concurrent.futures.ThreadPoolExecutor(10) as ex:
        seqs = list(ex.map(one_seq, list(enumerate(seq_gs))))
        races = list(ex.map(one_race, list(enumerate(race_gs))))
    craces = []
    for j in cmdraces:
        sc = run_cmd_race(env, "q%02d" % j, CMD_RACES[j], random.Random("%d/q%d" % (ctx.seed, j)))
        sc.g = {"scn": sc.scn, "cmdrace": j, "sched": []}
        craces.append(sc)
    lap("%d + %d + %d scenarios on the real code under strace" % (len(seqs), len(races), len(craces)))
    result_drift = []
    for sc in seqs + races:
        got = [c.ok for c in sc.cmds]
        if got != list(sc.g["oks"]):
            result_drift.append({"scenario": sc.sid, "kinds": [c.kind for c in sc.cmds], "faults": [c.fault for c in sc.cmds],
                                 "design": sc.g["oks"], "code": got, "err": [c.err[:120] for c in sc.cmds]})

    # 4. crash states: fresh reader + re-run
    for sc in seqs:
        sc.points = {}
        k = 0
        for c in sc.cmds:
            for i in range(len(c.muts)):
                k += 1
                sc.points[k] = (c, i)
    selected, nclasses = select_points(seqs, rng, None if (thorough or ctx.replay) else 420)
    byid = {sc.sid: sc for sc in seqs}
    with concurrent.futures.ThreadPoolExecutor(10) as ex:
        outs = list(ex.map(lambda x: probe_point(env, byid[x[0]], x[1]), selected))
    probes = dict(zip(selected, outs))
    lap("fresh reader + re-run on %d crash states" % len(selected))

    # 5. (P)
    traces = [build_seq_trace(sc, probes) for sc in seqs] + [build_race_trace(sc) for sc in races] + \
             [build_cmdrace_trace(sc) for sc in craces]
    viol = validate_traces(ctx, traces, "impl")
    lap("TLC validation of %d traces against (P): %d violating observations" % (len(traces), len(viol)))
    rejected, sigs = set(), {}
    for ti, ei, obls in viol:
        rejected.add(ti)
        for obl in obls:
            sigs.setdefault(signature(traces[ti], ei, obl), []).append((ti, ei, obl))
    allsc = {sc.sid: sc for sc in seqs + races + craces}
    known_re = [re.compile(kf["signature"]) for kf in ctx.load_known().get("findings", [])
                if kf.get("property") == "X02" and kf.get("status") == "known"]
    groups = set()
    for sig in sorted(sigs, key=lambda s: sigs[s][0]):
        ti, ei, obl = sigs[sig][0]
        t, ev = traces[ti], traces[ti]["events"][ei]
        sc = allsc[t["id"]]
        if not any(kr.fullmatch(sig) for kr in known_re):
            # one replay file per (obligation, kind of observation); every signature stays in the evidence
            group = obl + "@" + sig.split("@", 1)[1].split("[", 1)[0]
            if group in groups or len(groups) >= 10:
                continue
            groups.add(group)
        what = "%s violated at %s of scenario %s (%d x): commands %s, observed %s" % (
            obl, ev["ev"] + (" %d (%s %s)" % (ev["k"], ev.get("call"), ev.get("cls")) if ev["ev"] == "sys" else ""), t["id"], len(sigs[sig]),
            [getattr(c, "tail", ["put"]) for c in sc.cmds],
            json.dumps({x: ev[x] for x in ("cfg", "cfg_mode", "cfg_uid", "cfg_gid", "dir_mode", "tmp_go", "tmp_n", "ok", "hn", "hu", "hl", "blob")
                        if x in ev}))
        if ctx.report(sig, what, {"scenario": t["scenario"], "header": t["header"], "rejected_event": ev,
                                  "events": t["events"][max(0, ei - 8):ei + 1],
                                  "names": sc.names, "via": sc.via, "style": sc.style,
                                  "errors": [getattr(c, "err", "") for c in sc.cmds],
                                  "cmd": "tools/check X02 --replay <this file>"}):
            pass
    mcres = collect_mc()
    own = mcres.get("asfound")
    states = sum(r["distinct"] for r in mcres.values())
    trans = sum(r["generated"] for r in mcres.values())
    lap("TLC on the design spec (%d runs, in the background)" % len(mcres))
    ncrash = sum(len(c.muts) for sc in seqs for c in sc.cmds) + sum(len(sc.muts) for sc in races) + \
        sum(len(m) for sc in craces for _, m, _ in sc.phases)
    cov = {
        "states": states, "transitions": trans,
        "traces_validated_against_impl": len(traces) - len(rejected), "traces_total": len(traces), "traces_rejected": len(rejected),
        "scenarios_generated_by_tlc": ngen,
        "scenarios_run": {"sequential": len(seqs), "racing_saves": len(races), "racing_commands": len(craces)},
        "commands_run": sum(len(sc.cmds) for sc in seqs + races + craces),
        "faults_injected": sum(1 for sc in seqs for c in sc.cmds if c.fired) +
        sum(1 for sc in seqs + races for c in sc.cmds if c.failafter >= 0),
        "crash_states": ncrash, "crash_states_probed_and_rerun": len(selected), "crash_point_classes": nclasses,
        "evaluations": ncrash + 2 * len(selected) + sum(len(sc.cmds) for sc in seqs + races + craces),
        "distinct_nontrivial": len(set(scen_key(sc.g) for sc in seqs)) + len(races) + len(craces),
        "rule": "an evaluation = one observed directory state (after a prefix of the system calls of a real command = a kill -9 "
                "point, the same state loaded by a fresh regctl, the state after the command was re-run on it, or the state "
                "when a command returned) judged by (P) under TLC; distinct = distinct (command kinds, fault point, start "
                "class, owner class, identity) scenarios + race schedules",
        "violating_states": len(viol), "violation_signature_count": len(sigs), "all_violation_signatures": sorted(sigs),
        "result_drift": len(result_drift), "result_drift_detail": result_drift[:10],
        "fsync_calls_seen": sum(getattr(sc, "fsync", 0) for sc in seqs),
        "identities": sorted(set("%d:%d" % sc.ident for sc in seqs)),
        "entry_points": ["regctl registry login (-p / --pass-stdin)", "regctl registry logout", "regctl registry set --tls",
                         "regctl config set --blob-limit", "regctl registry config (fresh reader)",
                         "conffile.File.Write (chunked / failing / gated reader)"],
    }
    if ctx.replay:
        return "model_checking", cov, []

    # 6. the chown guard: the baseline of (D) is the repaired code; a tree that shows the owner defect on real traces
    #    (e.g. the fix reverted) is explained by the as-found switch (never a verdict by itself)
    seen_owner = any("S3-owner-kept" in s and "owner=rootgrp" in s for s in sigs)
    cov["design_counterexamples"] = {"owner_guard_as_found": {"tlc": own["violated"], "reproduced_on_real_code": seen_owner}}
    cov["owner_guard_observed"] = "asfound" if seen_owner else "code"

    # 7. binding of (D): the recorded call sequences are behaviours of ConfFile
    dts = [dtrace_of(sc) for sc in seqs]
    done, drift = validate_dtraces(ctx, dts, "X02_dtrace.cfg", "dtrace")
    cov["design_traces_matched"], cov["design_traces_total"], cov["drift"] = len(done), len(dts), len(drift)
    if drift:
        det = {}
        for sid, i in list(drift.items())[:12]:
            d = next(x for x in dts if x["id"] == sid)
            det[sid] = {"kinds": [c.kind for c in allsc[sid].cmds], "faults": [c.fault["at"] for c in allsc[sid].cmds],
                        "unmatched_event_index": i, "event": d["events"][min(i, len(d["events"]) - 1)],
                        "calls": [e.get("call", e["ev"]) + ":" + str(e.get("ok", "")) for e in d["events"]]}
        cov["drift_detail"] = det
        vlib.log("X02: %d recorded call sequences are not behaviours of ConfFile (drift, not a violation): %s"
                 % (len(drift), json.dumps(det)[:1500]))
        if seen_owner:
            # this tree skips the chown for root-owned ids: is its drift from the baseline what the as-found switch describes?
            done2, _ = validate_dtraces(ctx, [d for d in dts if d["id"] in drift], "X02_dtrace_asfound.cfg", "dtrace-asfound")
            cov["drift_explained_by_as_found_model"] = len(done2)
    lap("TLC validation of %d call sequences against (D)" % len(dts))

    # 8. really kill the process at sampled calls
    kill_ok, kill_inc, kill_points = kill_confirm(env, seqs, rng, 30 if thorough else 8)
    cov["sigkill_confirmed"], cov["sigkill_inconclusive"], cov["sigkill_points"] = kill_ok, kill_inc, kill_points[:10]
    if kill_ok == 0:
        raise vlib.ToolError("no crash state could be confirmed by really killing the process")
    lap("SIGKILL confirmation of %d crash states" % kill_ok)

    # 9. binding demo
    if ctx.violations:
        # the verdict of this run is a violation on real traces; the demo (is an ACCEPTING run meaningful?) is moot
        cov["binding_demos_rejected"] = 0
    else:
        cov["binding_demos_rejected"] = binding_demo(ctx, [t for i, t in enumerate(traces) if i not in rejected], dts, done,
                                                     len(rejected))
    lap("binding demo")
    t0 = traces[0]
    cov["samples"] = [{"id": t0["id"], "scenario": t0["scenario"], "header": t0["header"], "events": t0["events"][:5]},
                      {"id": traces[-1]["id"], "events": traces[-1]["events"][-3:]}]
    assumptions = [
        "crash = death of the saving process (kill -9) between two system calls; no power loss, no page-cache loss (the code "
        "does not fsync: out of scope, as in the statement)",
        "a system call is atomic; the order of completion in the strace log is the order of effect",
        "content is symbolic in (D); on the real side equal content = equal sha256, the table is read by python's json module "
        "with the documented defaults of the format (tls enabled, hostname = registry name)",
        "bounds: 2 hosts, 8 commands + put of 0-3 chunks, one fault per command (mkdir, creat, read, write, close, stat, chmod, "
        "chown, rename), 13 start states, root and one unprivileged user, sequences of <= 2 commands on the real code "
        "(3 in the thorough model run), 2 racing saves",
        "racing saves on the real code are interleaved at the gates of the source reader (before the save, before every read); "
        "racing regctl commands are ordered by holding one at its stdin between load and save",
        "a root process whose chown is made to fail is not held to keep the owner (the code ignores that error on purpose)",
        "baseline of (D) = the code since /repo c56fb15 (chown whenever the owner is known); the as-found guard is a switch",
    ]
    return "model_checking", cov, assumptions

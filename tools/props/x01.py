"""X01 (extra area) - regclient's operations use the per-host request throttles correctly.

(D) spec/ThrottleUse.tla (+ThrottleUseConf / ThrottleUseMC) model-checked by TLC (safety, liveness,
three seeded leaks that must keep failing); TLC enumerates the configuration space
(ThrottleUseGen); x01drv runs a sample of the configurations as concurrent real operations against
the model registry and records the throttle's hook events together with what reaches the wire;
every recorded stream is validated by TLC against (P) ThrottleUseProp via ThrottleUseTrace.
"""
import copy
import json
import random

import vlib


def load_traces(fn):
    out = []
    with open(fn) as f:
        for line in f:
            if line.strip():
                out.append(json.loads(line))
    return out


def culprit(t, r):
    """name the API whose slot / request the rejected event is about (for the signature)"""
    evs = t["events"]
    gop = {}
    repo_op = {}
    api = {}
    for e in evs:
        if e["ev"] == "op":
            gop[e["g"]] = e["op"]
            repo_op[e["repo"]] = e["op"]
            api[e["op"]] = "%s/%s" % (e["kind"], e["api"])
    ev = r["event"] or {}
    if ev.get("ev") in ("send", "read"):
        rid = ev.get("r")
        snd = next((e for e in evs if e["ev"] == "send" and e.get("r") == rid), ev)
        for repo, op in repo_op.items():
            if "/" + repo + "/" in snd.get("path", "") or "/" + repo + "-copy/" in snd.get("path", ""):
                return api[op]
        return api.get(gop.get(snd.get("g")), "sub-goroutine")
    if ev.get("ev") == "final":
        held = {}
        for e in evs[:r["line"]]:
            k = (e.get("q"), e.get("e"))
            if e["ev"] in ("acq_fast", "try_ok"):
                held[k] = e["g"]
            elif e["ev"] == "enqueue":
                held[("w",) + k] = e["g"]
            elif e["ev"] == "promote":
                held[k] = held.pop(("w",) + k, None)
            elif e["ev"] == "cancel_rm":
                held.pop(("w",) + k, None)
            elif e["ev"] == "released":
                held.pop(k, None)
        who = sorted({api.get(gop.get(g), "sub-goroutine") for g in held.values()})
        return "+".join(who) or "?"
    if ev.get("ev") == "stuck":
        return "+".join(sorted({w.split(":")[1] for w in ev.get("waiting", "").split(",") if ":" in w})) or "?"
    return "?"


def run(ctx):
    rng = random.Random(ctx.seed)
    ctx.build("x01drv")
    thorough = ctx.thorough

    # 1. the design spec
    mc = [ctx.tlc("ThrottleUseMC", "X01_mc_quick.cfg", workers=8, label="2 programmed callers + 1, 3 hosts, limits 1-2", heap="6g"),
          ctx.tlc("ThrottleUseMC", "X01_live.cfg", workers=8, label="liveness: every call returns", heap="6g")]
    if thorough:
        mc.append(ctx.tlc("ThrottleUseMC", "X01_mc_t1.cfg", workers=8, label="more failures, limits 1-3", timeout=3000, heap="10g"))
        mc.append(ctx.tlc("ThrottleUseMC", "X01_mc_t2.cfg", workers=8, label="3 programmed callers, limit 1", timeout=3000, heap="10g"))
    # the seeded leaks must keep failing, else (D) does not express the property any more
    for i, name in enumerate(("fail-keeps-slot", "restart-keeps-slot", "cleanup-skips-source", "error-skips-cleanup")):
        r = ctx.tlc("ThrottleUseMC", "X01_mc_leak%d.cfg" % (i + 1), workers=4, label="expected counterexample: " + name,
                    allow_violation=True, record=False, heap="4g")
        if not r.get("violated"):
            raise vlib.ToolError("(D) with the seeded leak %s satisfies every invariant: the model is vacuous" % name)
    states = sum(r["distinct"] for r in mc)
    trans = sum(r["generated"] for r in mc)

    # 2. configurations from TLC, executed on the real code
    gen = ctx.tlc_scenarios("ThrottleUseGen", "X01_gen.cfg", workers=4, label="configuration space")
    scns = gen["scenarios"]
    if len(scns) < 20000:
        raise vlib.ToolError("configuration space too small: %d" % len(scns))
    total = len(scns)
    n = 6000 if thorough else 700
    # every program at least once per caller position, the rest at random
    chosen = rng.sample(scns, n)
    scn_file = ctx.path("x01", "scn.jsonl")
    nchunks = 8 if thorough else 4
    outs = []
    stats = {"scenarios": 0, "stalls": 0}
    import concurrent.futures

    def drive(i):
        fn = ctx.path("x01", "scn-%d.jsonl" % i)
        with open(fn, "w") as f:
            for s in chosen[i::nchunks]:
                f.write(json.dumps(s) + "\n")
        out = ctx.path("x01", "out-%d.jsonl" % i)
        r = ctx.run(["x01drv", "-in", fn, "-out", out, "-seed", str(ctx.seed * 100 + i)], timeout=2400)
        return out, json.loads(r.stdout.strip().splitlines()[-1])
    with concurrent.futures.ThreadPoolExecutor(max_workers=nchunks) as ex:
        for out, m in ex.map(drive, range(nchunks)):
            outs.append(out)
            stats["scenarios"] += m["scenarios"]
            stats["stalls"] += m["stalls"]
            if m.get("stopped"):
                stats["stopped"] = True
    del scn_file
    traces = []
    stalls = []
    kinds = set()
    apis = {}
    finals = stuck = sends = reads = contended = 0
    for fn in outs:
        for t in load_traces(fn):
            m = t.get("meta", {})
            if "stall" in m:
                stalls.append("%s in %s" % (m["stall"], t["id"]))
                continue
            traces.append({"id": t["id"], "events": t["events"], "scenario": m})
            ks = [e["ev"] for e in t["events"]]
            kinds.add(json.dumps(ks))
            finals += ks.count("final")
            stuck += ks.count("stuck")
            sends += ks.count("send")
            reads += ks.count("read")
            contended += 1 if "enqueue" in ks else 0
            for a in m.get("apis", {}).values():
                apis[a] = apis.get(a, 0) + 1

    # 3. trace validation against (P)
    accepted, rejected = ctx.validate_batch("ThrottleUseTrace", "X01_trace.cfg", traces, timeout=3000)
    for r in rejected:
        t = r["trace"]
        detail = r["detail"].strip('"') or r["reason"]
        what = "%s at event %s of trace %s" % (detail, json.dumps(r["event"]), t["id"])
        sig = "x01:%s:%s" % (detail, culprit(t, r))
        ctx.report(sig, what, {"scenario": t["scenario"], "events": t["events"], "rejected_at": r["line"]})
    if stalls and not rejected:
        raise vlib.ToolError("driver stalled (callers neither finished nor parked in Acquire): " + "; ".join(stalls[:3]))
    if not rejected and (contended < len(traces) // 10 or finals < len(traces) * 0.9):
        raise vlib.ToolError("the runs were not what they should be: %d traces, %d with a queued caller, %d finished"
                             % (len(traces), contended, finals))

    # 4. binding demos: a dropped release, a request attributed to another goroutine, a wrong limit
    if not rejected:
        base = next((t for t in traces if any(e["ev"] == "promote" for e in t["events"])
                     and any(e["ev"] == "read" for e in t["events"])), None)
        if base is None:
            raise vlib.ToolError("no trace with a hand-over and a body read to demonstrate the binding")
        demos = []
        m1 = copy.deepcopy(base)
        cal = {e["q"] for e in m1["events"] if e["ev"] == "calib"}
        i = max(i for i, e in enumerate(m1["events"]) if e["ev"] == "released" and e["q"] in cal)
        del m1["events"][i]
        m1["id"] = "demo-drop-released"
        demos.append(m1)
        m2 = copy.deepcopy(base)
        i = max(i for i, e in enumerate(m2["events"]) if e["ev"] == "send" and e["host"] in ("a", "m", "b"))
        m2["events"][i]["g"] = -1
        m2["id"] = "demo-send-by-stranger"
        demos.append(m2)
        m3 = copy.deepcopy(base)
        i = next(i for i, e in enumerate(m3["events"]) if e["ev"] == "calib")
        m3["events"][i]["max"] += 1
        m3["id"] = "demo-limit"
        demos.append(m3)
        m4 = copy.deepcopy(base)
        # move the release of a request's slot in front of the last read of its body
        rd = max(i for i, e in enumerate(m4["events"]) if e["ev"] == "read")
        rid = m4["events"][rd]["r"]
        snd = next(i for i, e in enumerate(m4["events"]) if e["ev"] == "send" and e["r"] == rid)
        g = m4["events"][snd]["g"]
        acq = max(i for i, e in enumerate(m4["events"][:snd]) if e["ev"] in ("acq_fast", "wake") and e["g"] == g)
        key = (m4["events"][acq]["q"], m4["events"][acq]["e"])
        rel = next((i for i, e in enumerate(m4["events"]) if i > rd and e["ev"] == "released" and (e["q"], e["e"]) == key), None)
        if rel is not None:
            ev = m4["events"].pop(rel)
            m4["events"].insert(rd, ev)
            m4["id"] = "demo-read-after-release"
            demos.append(m4)
        for m in demos:
            a, rj = ctx.validate_batch("ThrottleUseTrace", "X01_trace.cfg", [m])
            if not rj:
                raise vlib.ToolError("binding demo %s was accepted: trace spec does not bind" % m["id"])

    sample = [{"id": t["id"], "scenario": t["scenario"].get("scenario"), "apis": t["scenario"].get("apis"),
               "events": t["events"][:30]} for t in traces[:1]]
    cov = {
        "states": states, "transitions": trans,
        "traces_validated_against_impl": accepted,
        "samples": sample,
        "evaluations": len(traces),
        "distinct_nontrivial": len(kinds),
        "rule": "a trace = 3 concurrent real operations (programs from the TLC-enumerated configuration space: "
                "kind, hosts, failing attempts, restarts, cancellation while queued; API and fault kind drawn per "
                "scenario) against the model registry with per-host limits 1-3; distinct = distinct event-kind sequences",
        "exhaustive": False,
        "configuration_space": total, "scenarios_run": stats["scenarios"], "rejected": len(rejected),
        "traces_with_a_queued_caller": contended, "traces_finished": finals, "traces_stuck": stuck,
        "requests_observed": sends, "body_reads_observed": reads, "apis": apis,
        "entry_points": ["ManifestGet/Head/Put/Delete", "TagList", "TagDelete", "ReferrerList", "BlobHead", "BlobGet (+Seek, Close)",
                         "BlobGetOCIConfig", "BlobPut", "BlobDelete", "BlobCopy", "ImageCopy"],
    }
    assumptions = [
        "which queue serves which host is learned from requests sent alone (calibration) and cross-checked against the "
        "configured limit; scenarios give the three hosts limits that differ in most configurations",
        "a slot is attributed to the goroutine that acquired it and a request to the goroutine that sent it "
        "(net/http calls RoundTrip in the caller's goroutine; the model registry reads request bodies there too)",
        "'stuck' is reported only when every unfinished caller is parked in Acquire's select (goroutine dump, observed "
        "twice without an event in between); any other stall is a tooling error",
        "extra area: not one of the listed properties; (D) abstracts the queue to a counting semaphore with FIFO hand-over",
    ]
    return "model_checking", cov, assumptions

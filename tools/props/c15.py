"""C15 - image references parse canonically, round-trip, and reject malformed names.

spec/RefGrammar.tla is a token-level grammar model with an independently written recogniser;
TLC enumerates its scenario space (RefGen), c15drv executes every scenario (and character-level
mutants of a sample) on the real types/ref, and TLC validates each recorded result against the
recogniser and the oracle-free laws (RefTrace).
"""
import concurrent.futures
import json
import random

import vlib

KNOWN_TOOLING = "tooling:"


def run(ctx):
    rng = random.Random(ctx.seed)
    ctx.build("c15drv")
    gen = ctx.tlc_scenarios("RefGen", "C15_gen.cfg", workers=4, label="scenario space of RefGrammar", timeout=1200)
    scns = gen["scenarios"]
    if len(scns) < 50000:
        raise vlib.ToolError("scenario space too small: %d" % len(scns))
    total = len(scns)
    if ctx.thorough:
        chosen = scns
        mutbases = 1500
    else:
        small = [s for s in scns if s["kind"] != "reg"]
        big = [s for s in scns if s["kind"] == "reg"]
        # every (host class, tag class, digest class, component classes) combination at least once
        # every (host class, tag class, digest class) combination and every (host lexeme, component
        # classes) combination at least once
        byclass = {}
        for s in big:
            byclass.setdefault(("htd", s["hc"], s["tc"], s["dc"]), []).append(s)
            byclass.setdefault(("hp", s["h"], tuple(s["pcc"])), []).append(s)
            # every (host lexeme, first component lexeme, number of components): words with a meaning in
            # another slot ("localhost", "library") matter by their spelling, not by their class
            byclass.setdefault(("hp1", s["h"], s["pcs"][0], len(s["pcs"])), []).append(s)
        picked = [rng.choice(v) for v in byclass.values()]
        rest = rng.sample(big, 1000)
        chosen = rng.sample(small, min(len(small), 1500)) + picked + rest
        mutbases = 120
    rng.shuffle(chosen)
    nchunks = 8 if ctx.thorough else 6
    chunks = [chosen[i::nchunks] for i in range(nchunks)]
    stats = {"scenarios": 0, "accepted": 0, "mutants": 0, "mutants_accepted": 0}
    logs = []
    for i, ch in enumerate(chunks):
        fn = ctx.path("c15", "scn-%d.jsonl" % i)
        with open(fn, "w") as f:
            for s in ch:
                f.write(json.dumps(s) + "\n")
        log = ctx.path("c15", "log-%d.ndjson" % i)
        r = ctx.run(["c15drv", "-in", fn, "-out", log, "-seed", str(ctx.seed * 100 + i),
                     "-mutbases", str(mutbases // nchunks)], timeout=900)
        m = json.loads(r.stdout.strip().splitlines()[-1])
        for k in stats:
            stats[k] += m[k]
        logs.append(log)

    def validate_log(log):
        out = []
        lines = open(log).read().splitlines()
        st = tr = 0
        for attempt in range(6):
            v = ctx.validate("RefTrace", "C15_trace.cfg", log, timeout=3000)
            st += v["distinct"]
            tr += v["generated"]
            if v["accepted"]:
                break
            k = v["line"]
            e = json.loads(lines[k - 1])
            out.append(((v.get("detail") or v["reason"]).strip('"'), e))
            lines[k - 1] = json.dumps({"ev": "skip"})
            with open(log, "w") as f:
                f.write("\n".join(lines) + "\n")
        return out, st, tr, len(lines)

    states = gen["distinct"]
    trans = gen["generated"]
    nlines = 0
    with concurrent.futures.ThreadPoolExecutor(max_workers=6) as ex:
        results = list(ex.map(validate_log, logs))
    for rej, st, tr, n in results:
        states += st
        trans += tr
        nlines += n
        for detail, e in rej:
            if detail.startswith(KNOWN_TOOLING):
                raise vlib.ToolError("malformed trace line: %s %s" % (detail, json.dumps(e)[:300]))
            small = {k: e[k] for k in e if not k.startswith(("st_", "sd_", "ad_")) and len(str(e[k])) < 200}
            cls = detail.split(":")[0]
            if e["ev"] == "mutant":
                what_in = "mutant " + bytes.fromhex(e["shex"]).decode("utf-8", "replace")
                sig = "ref:mutant:%s:%s" % (cls, e.get("scheme", ""))
            else:
                what_in = e["s"][:200]
                sig = "ref:%s:%s:%s" % (e["kind"], cls, e.get("sc", ""))
            ctx.report(sig, "%s on %r" % (detail, what_in), {"event": small})
    # binding demos
    if not ctx.violations:
        def demo(name, pred, edit):
            ls = open(logs[0]).read().splitlines()
            for i, ln in enumerate(ls):
                e = json.loads(ln)
                if pred(e):
                    edit(e)
                    ls = [json.dumps(e)]
                    break
            else:
                raise vlib.ToolError("binding demo %s: nothing to corrupt" % name)
            p = ctx.path("c15", "demo-%s.ndjson" % name)
            with open(p, "w") as f:
                f.write("\n".join(ls) + "\n")
            if ctx.validate("RefTrace", "C15_trace.cfg", p)["accepted"]:
                raise vlib.ToolError("binding demo %s accepted: trace spec does not bind" % name)
        # (each validation pays TLC's evaluation of the grammar's constant sets: run the demos side by side)
        demos = [
            ("components", lambda e: e["ev"] == "ref" and e["ok"] == 1 and e["kind"] == "reg" and e["hc"] == "absent",
             lambda e: e.update(repository=e["repository"].replace("library/", "")) if "library/" in e["repository"]
             else e.update(registry="example.org")),
            ("accept", lambda e: e["ev"] == "ref" and e["ok"] == 0, lambda e: e.update(ok=1)),
            ("roundtrip", lambda e: e["ev"] == "mutant" and e["ok"] == 1, lambda e: e.update(c_tag=e["c_tag"] + "x")),
            ("setter", lambda e: e["ev"] == "ref" and e["ok"] == 1, lambda e: e.update(st_digest="sha256:00")),
            ("history", lambda e: e["ev"] == "ref" and e["ok"] == 1, lambda e: e.update(again=0)),
        ]
        with concurrent.futures.ThreadPoolExecutor(max_workers=5) as ex:
            list(ex.map(lambda d: demo(*d), demos))
    samples = [{k: v for k, v in chosen[0].items()}, {k: v for k, v in chosen[1].items()}]
    cov = {
        "states": states, "transitions": trans,
        "traces_validated_against_impl": nlines - sum(len(r[0]) for r in results),
        "log_files": len(logs),
        "samples": samples,
        "evaluations": nlines,
        "distinct_nontrivial": stats["scenarios"] + stats["mutants_accepted"],
        "rule": "scenario = one lexeme per slot from RefGrammar (all-valid combinations and every single invalid "
                "slot), executed through ref.New/NewHost, CommonName, re-parse, SetTag/SetDigest/AddDigest; "
                "mutants = insert/delete/replace at every position from a hostile alphabet (only accepted "
                "mutants are logged; rejected ones have nothing to check); distinct = distinct strings",
        "exhaustive": bool(ctx.thorough),
        "scenario_space": total, "scenarios_run": stats["scenarios"], "scenarios_accepted_by_parser": stats["accepted"],
        "mutants_tried": stats["mutants"], "mutants_accepted": stats["mutants_accepted"],
        "entry_points": ["ref.New", "ref.NewHost", "Ref.CommonName", "Ref.SetTag", "Ref.SetDigest", "Ref.AddDigest"],
    }
    assumptions = ["the grammar model covers the lexeme classes listed in RefGrammar.tla; IPv6 hosts, host-only strings "
                   "passed to New and dotted first components that are not valid hosts are outside the scenario space",
                   "arbitrary byte strings are represented by character-level mutants of grammar strings only"]
    return "model_checking", cov, assumptions

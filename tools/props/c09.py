"""C09 - export then import reproduces the image; the archive is a valid OCI layout.

(D) spec/TarImport.tla (+TarImportCat catalogue, TarImportMC properties): the tar importer of
image.go as a state machine, the archive order chosen by the environment; checked exhaustively by
TLC against (P) spec/ExportImportProp.tla for the design as it is (property holds everywhere) and,
through three switches, for the design as it was found (fails exactly on the classes repaired by
the fixes of findings C09-1..4).  TarImportGen emits scenarios (archive order, link
pattern, selection + the predicted result / passes / push order); c09drv exports with the real
ImageExport, audits the stream, re-packs it per scenario, imports with the real ImageImport and
records raw source / archive / target facts; TLC validates every recorded trace against (P)
(TarImportTrace).  Differences to the prediction of (D) are drift, never a verdict.
"""
import concurrent.futures
import copy
import json
import os
import random
import re
import time

import vlib

SCN_RE = re.compile(r'^<<"(SCN|CAT)", "(.*)">>$')


def load_known(ctx):
    """KNOWN_FINDINGS.json is assembled from known.d/*.json by tools/mkmanifest; read this property's
    fragment directly as well so that the check does not depend on when that was last run."""
    base = vlib.Ctx.load_known(ctx)
    try:
        with open(os.path.join(vlib.VERIF, "known.d", "C09.json")) as f:
            have = {k.get("id") for k in base.get("findings", [])}
            base.setdefault("findings", []).extend(k for k in json.load(f) if k.get("id") not in have)
    except FileNotFoundError:
        pass
    return base


def parse_gen(out):
    cats, scns = {}, []
    for line in out.splitlines():
        m = SCN_RE.match(line.strip())
        if not m:
            continue
        obj = json.loads(m.group(2).encode().decode("unicode_escape"))
        if m.group(1) == "CAT":
            cats["/".join(obj["sid"])] = obj
        else:
            scns.append(obj)
    return cats, scns


def err_class(msg):
    """Coarse class of the importer's error text; only used inside signatures and for drift."""
    if not msg:
        return "none"
    if "Body length 0" in msg or "e3b0c44298fc1c149afbf4c8996fb92427ae41e4649b934ca495991b7852b855" in msg:
        return "empty-body"
    if "unable to read all files from tar" in msg or "failed to import layers from docker tar" in msg:
        return "not-found"
    if "MANIFEST_BLOB_UNKNOWN" in msg or "blob unknown" in msg:
        return "refused-by-registry"
    if "digest" in msg.lower():
        return "digest"
    return "other"


PRED_ERR = {"blob put from a drained reader": "empty-body",
            "unable to read all files from tar": "not-found",
            "failed to import layers from docker tar": "not-found"}


def run(ctx):
    ctx.load_known = lambda: load_known(ctx)
    rng = random.Random(ctx.seed)
    thorough = ctx.thorough
    ctx.build("c09drv")

    # ------------------------------------------------------------ 1. model checking of (D)
    ctx._specdir()      # (create the scratch copy once, the runs below are concurrent)
    t0 = time.time()
    runs = [("C09_mc_quick.cfg", 8, None,
             "importer as it is: every order of 3 representative archives, all link patterns, Docker archives; the "
             "property holds everywhere"),
            # expected counterexamples: with one as-found switch on, the design fails on the class that the
            # corresponding fix repaired (what seeded/fixrev-C09-* re-introduce on real code)
            ("C09_mc_s6.cfg", 2, "as found: blob-typed index entry uploaded from a drained reader (C09-1, fixed ad30bfd)", ""),
            ("C09_mc_links.cfg", 2, "as found: link targets / link chains resolved wrongly (C09-2 a529ea7, C09-3 72bf6e2)", ""),
            ("C09_mc_duppath.cfg", 2, "as found: Docker layer path listed twice (C09-4, fixed 4eaa9ce)", "")]
    if thorough:
        runs += [("C09_mc_asfound_quick.cfg", 8, None,
                  "design as found (all three switches on): fails exactly on the recorded classes, holds elsewhere"),
                 ("C09_mc_small.cfg", 8, None, "as it is, the other archives of <= 6 entries, every order"),
                 ("C09_mc_asfound_small.cfg", 8, None, "as found, the other archives of <= 6 entries, every order"),
                 ("C09_mc_mid.cfg", 8, None, "as it is, 13 archives of 7 entries, every order"),
                 ("C09_sim_big.cfg", 4, "sim", "as it is, all archives of 7 and 8 entries, 16000 random orders"),
                 ("C09_live.cfg", 4, None, "termination (liveness) on the smallest archives")]

    def mc_run(r):
        cfg, workers, expect, label = r
        if expect and expect != "sim":
            res = ctx.tlc("TarImportMC", cfg, workers=workers, allow_violation=True, timeout=3000,
                          label="expected counterexample: " + expect)
            if res["violated"] != "PropHolds":
                raise vlib.ToolError("TarImport.tla no longer shows: %s; update spec, finding and check together" % expect)
            return None
        if expect == "sim":
            return ctx.tlc("TarImportMC", cfg, workers=workers, timeout=3000, label=label, simulate="num=4000", depth=200,
                           extra=["-seed", str(ctx.seed)])
        return ctx.tlc("TarImportMC", cfg, workers=workers, timeout=3000, label=label)
    with concurrent.futures.ThreadPoolExecutor(max_workers=3 if thorough else 5) as ex:
        mc = [r for r in ex.map(mc_run, runs) if r]
    # export walk + importer composed: the archive ImageExport writes (as modelled) is complete, holds every
    # name once and is imported in a single pass; the predicted entry order is compared with the real one below
    mc.append(ctx.tlc("TarExport", "C09_mc_roundtrip.cfg", workers=2, timeout=1500,
                      label="export walk composed with the importer, every single-root graph"))
    vacuous = only_as_found = None
    if thorough:
        # action coverage (TLC's -coverage runs out of memory on the recursive operators): registers
        def untaken(cfg, label):
            cv = ctx.tlc("TarImportCov", cfg, workers=1, timeout=3000, label=label)
            m = re.search(r'<<\s*"COVERAGE",\s*<<(.*?)>>\s*>>', cv["output"], re.S)
            if not m:
                raise vlib.ToolError("coverage run printed no COVERAGE line")
            return {x for x in re.findall(r'"([^"]*)"', m.group(1)) if x}
        now = untaken("C09_cov.cfg", "action coverage of the importer spec, design as it is")
        found = untaken("C09_cov_asfound.cfg", "action coverage of the importer spec, design as found")
        vacuous = sorted(now & found)
        only_as_found = sorted(now - found)     # e.g. NotFound -> failed: no well formed archive fails any more
        if vacuous:
            raise vlib.ToolError("actions of TarImport.tla never taken: %s" % vacuous)
    xg = ctx.tlc("TarExportGen", "C09_gen_export.cfg", workers=1, timeout=1500, label="generator: export entry order")
    xorder = {}
    for m in re.finditer(r'^<<"XORD", "(.*)">>$', xg["output"], re.M):
        o = json.loads(m.group(1).encode().decode("unicode_escape"))
        xorder[o["g"]] = ["/".join(n) for n in o["names"]]
    states = sum(r["distinct"] for r in mc)
    trans = sum(r["generated"] for r in mc)
    vlib.log("C09: model checking %.0fs" % (time.time() - t0))

    # ------------------------------------------------------------ 2. scenarios from TLC
    cats, raw = {}, []
    gens = []
    if thorough:
        gens.append(("C09_gen_small.cfg", dict(workers=8), "every order, archives <= 6 entries", "bfs"))
        gens.append(("C09_gen_large.cfg", dict(workers=1, simulate="num=4000", depth=200,
                                               extra=["-seed", str(ctx.seed)]), "random orders, larger archives", "sim"))
    else:
        gens.append(("C09_gen_tiny.cfg", dict(workers=4), "every order, archives <= 5 entries", "bfs"))
        gens.append(("C09_gen_all.cfg", dict(workers=1, simulate="num=1200", depth=200,
                                             extra=["-seed", str(ctx.seed)]), "random orders, all scenario ids", "sim"))
    for cfg, kw, label, origin in gens:
        g = ctx.tlc("TarImportGen", cfg, timeout=3000, label="generator: " + label, **kw)
        c, s = parse_gen(g["output"])
        cats.update(c)
        for x in s:
            x["origin"] = origin
        raw += s
    seen = set()
    scns = []
    for s in raw:
        k = json.dumps([s["sid"], s["arch"]], sort_keys=True)
        if k in seen:
            continue
        seen.add(k)
        scns.append(s)
    if len(scns) < 300:
        raise vlib.ToolError("generator produced only %d scenarios" % len(scns))
    scns.sort(key=lambda s: json.dumps([s["sid"], s["arch"]], sort_keys=True))
    if not thorough and len(scns) > 2600:
        # keep every scenario id, sample the rest
        by = {}
        for s in scns:
            by.setdefault("/".join(s["sid"]), []).append(s)
        keep = []
        for k in sorted(by):
            keep += vlib.sample(rng, by[k], 6)
        rest = [s for s in scns if s not in keep]
        scns = keep + vlib.sample(rng, rest, 2600 - len(keep))

    # endpoint pairing, compression, export name: independent of the importer automaton, spread
    # deterministically (seeded) over the scenarios
    drv_in = ctx.path("c09", "in.jsonl")
    n = 0
    jobs = []
    for s in scns:
        key = "/".join(s["sid"])
        cat = cats[key]["sc"]
        n += 1
        j = {"id": "%s#%d" % (key, n), "sid": s["sid"], "arch": s["arch"], "origin": s["origin"],
             "pred": {"ok": s["ok"], "passes": s["passes"], "pushes": s["pushes"], "err": s["err"]},
             "tgt": rng.choice(["reg", "reg", "dir"]), "gzip": rng.choice([0, 0, 1])}
        j["xn"] = "tag"
        # dimensions of the archive and of the environment that the importer automaton does not see; drawn
        # independently per scenario, which covers all pairs many times over at either tier
        j["rcomp"] = rng.choice(["none", "none", "gzip", "zstd", "xz"])      # compression of the re-packed archive
        j["tarfmt"] = rng.choice(["pax", "pax", "gnu", "ustar"])             # tar header format
        j["tfeat"] = rng.choice(["default", "minimal"]) if j["tgt"] == "reg" else "default"   # target registry features
        j["chunk"] = rng.choice([0, 0, 1]) if j["tgt"] == "reg" else 0       # client uploads in 128 byte chunks
        j["sfeat"], j["dkcomp"], j["dkls"], j["spath"] = "default", "none", 0, "plain"
        if cat["kind"] == "docker" and cat["lp"] != "dkrest":
            j["src"], j["xref"] = "none", 0
            j["dkcomp"], j["dkls"] = rng.choice(["none", "gzip", "zstd", "xz"]), rng.choice([0, 1])
        else:
            j["src"], j["xref"] = rng.choice(["reg", "dir"]), rng.choice([0, 0, 0, 1])
            if j["src"] == "reg":
                j["sfeat"] = rng.choice(["default", "default", "minimal"])   # source registry features
            else:
                j["spath"] = rng.choice(["plain", "plain", "odd"])          # directory name of the layout source
            if len(cat["roots"]) > 1:
                j["xref"] = 0       # the selections of the catalogue name the tags the images are exported under
            else:
                # the export name carries a tag, a digest or both (the documentation of ImageExport allows all three)
                j["xn"] = rng.choice(["tag", "tag", "dig", "tagdig", "tagdig"])
            if cat["lp"] == "dkrest" and j["src"] == "dir":
                j["xref"] = 1       # the Docker name of an export from a layout is only known with an override
        jobs.append(j)
    # the exported stream imported as it is (no re-pack), once per export configuration
    groups = {}
    for j in jobs:
        cat = cats["/".join(j["sid"])]["sc"]
        if cat["kind"] == "oci" and len(cat["roots"]) == 1:
            groups.setdefault((cat["g"], j["src"], j["sfeat"], j["gzip"], j["xref"], j["xn"], j["spath"]), j)
    for (g, src, sf, gz, xr, xn, sp), j in sorted(groups.items()):
        for tgt in ("reg", "dir"):
            n += 1
            sid = [g, "none", "def"]
            if "/".join(sid) not in cats:
                continue
            jobs.append({"id": "%s/asis#%d" % (g, n), "sid": sid, "arch": [], "origin": "asis", "src": src, "tgt": tgt,
                         "sfeat": sf, "gzip": gz, "xref": xr, "xn": xn, "spath": sp, "tfeat": rng.choice(["default", "minimal"]) if tgt == "reg" else "default",
                         "chunk": rng.choice([0, 1]) if tgt == "reg" else 0})
    with open(drv_in, "w") as f:
        for k in sorted(cats):
            f.write(json.dumps({"type": "cat", "sid": cats[k]["sid"], "cat": cats[k]["sc"]}) + "\n")
        for j in jobs:
            f.write(json.dumps({"type": "scn", "scn": j}) + "\n")
    drv_out = ctx.path("c09", "out.jsonl")
    vlib.log("C09: %d scenarios generated %.0fs" % (len(jobs), time.time() - t0))
    ctx.run(["c09drv", "-in", drv_in, "-out", drv_out, "-scratch", os.path.dirname(ctx.path("c09", "work", "x"))], timeout=2400)
    blocks = []
    with open(drv_out) as f:
        for line in f:
            if line.strip():
                blocks.append(json.loads(line))
    vlib.log("C09: driver done %.0fs" % (time.time() - t0))
    ntr = sum(len(b["traces"]) for b in blocks)
    if ntr != len(jobs):
        raise vlib.ToolError("driver returned %d traces for %d scenarios" % (ntr, len(jobs)))

    # ------------------------------------------------------------ 3. trace validation against (P)
    # Docker blocks and OCI groups are kept together (an OCI group = consecutive blocks of one export
    # configuration: the import traces hang on the last one)
    units, cur = [], []
    for b in blocks:
        cur.append(b)
        if b["traces"] or b["kind"] == "docker":
            units.append(cur)
            cur = []
    if cur:
        units.append(cur)
    nchunks = 8 if thorough else 4
    chunks = [[] for _ in range(nchunks)]
    sizes = [0] * nchunks
    for u in sorted(units, key=lambda u: -sum(len(b["lines"]) + 3 * len(b["traces"]) for b in u)):
        i = sizes.index(min(sizes))
        chunks[i].append(u)
        sizes[i] += sum(len(b["lines"]) + 3 * len(b["traces"]) for b in u)

    def validate_chunk(ci):
        """returns (rejections, states, transitions, nlines); a rejection = (detail, block, trace|None, event)"""
        lines, where = [], []
        for u in chunks[ci]:
            for b in u:
                for e in b["lines"]:
                    lines.append(e)
                    where.append((b, None))
                for t in b["traces"]:
                    for e in t["events"]:
                        lines.append(e)
                        where.append((b, t))
        if not lines:
            return [], 0, 0, 0
        fn = ctx.path("c09", "log-%d.ndjson" % ci)

        def write():
            with open(fn, "w") as f:
                for e in lines:
                    f.write(json.dumps(e, sort_keys=True) + "\n")
        write()
        env = {"VERIF_TRACE": fn, "JAVA_TOOL_OPTIONS": "-Dtlc2.tool.queue.IStateQueue=StateDeque -Xss64m"}
        res = ctx.tlc("TarImportTrace", "C09_trace_collect.cfg", workers=1, timeout=3000, env=env, record=False)
        st, tr = res["distinct"], res["generated"]
        hw = re.findall(r'<<"HIGHWATER", (\d+), (\d+)>>', res["output"])
        if not hw or int(hw[-1][1]) != len(lines):
            raise vlib.ToolError("trace validation produced no usable HIGHWATER line:\n" + res["output"][-3000:])
        if int(hw[-1][0]) < len(lines) + 1:
            k = int(hw[-1][0])
            raise vlib.ToolError("log line %d has no enabled step (malformed log): %s" % (k, json.dumps(lines[k - 1])[:400]))
        rej = []
        for m in re.finditer(r'<<\s*"REJECT",\s*(\d+),\s*"(.*?)"\s*>>', res["output"], re.S):
            k, detail = int(m.group(1)), m.group(2)
            e = lines[k - 1]
            if "skip" not in e:
                raise vlib.ToolError("rejection at a line that carries no obligation: %s" % json.dumps(e)[:300])
            if e["skip"] == 1:
                continue
            b, t = where[k - 1]
            rej.append((detail, b, t, copy.deepcopy(e)))
            e["skip"] = 1
        # the strict configuration has to accept the log once the reported lines are neutralised
        write()
        v = ctx.validate("TarImportTrace", "C09_trace.cfg", fn, timeout=3000)
        st += v["distinct"]
        tr += v["generated"]
        if not v["accepted"]:
            raise vlib.ToolError("strict validation rejects line %s after neutralising the collected rejections: %s %s"
                                 % (v["line"], v["reason"], v.get("detail")))
        return rej, st, tr, len(lines)

    tstates = ttrans = nlines = 0
    rejections = []
    with concurrent.futures.ThreadPoolExecutor(max_workers=4) as ex:
        for rej, st, tr, nl in ex.map(validate_chunk, range(nchunks)):
            rejections += rej
            tstates += st
            ttrans += tr
            nlines += nl
    vlib.log("C09: validation done %.0fs" % (time.time() - t0))
    rejected_ids = set()
    for detail, b, t, e in rejections:
        clause = detail.split(":")[0]
        if t is None:
            g = b.get("meta", {}).get("graph", "?")
            sig = "export:%s:%s" % (clause, g)
            if b.get("meta", {}).get("srcpath") == "odd":
                sig += ":oddpath"       # layout source in a directory whose name ends with "_"
            what = "%s (block %s%s)" % (detail, b["block"], ", export error: " + b["meta"]["export_error"]
                                        if b.get("meta", {}).get("export_error") else "")
            ctx.report(sig, what, {"block": b["block"], "lines": [{k: v for k, v in x.items() if k not in ("od", "os", "oa", "oh", "ep", "ec", "er", "ei")}
                                                                   for x in b["lines"]]})
            continue
        rejected_ids.add(t["id"])
        scn = t["scn"]
        g, lp, sel = scn["sid"]
        msg = t["meta"].get("err", "")
        kind = "docker" if b["kind"] == "docker" else "import"
        sig = "%s:%s:%s:%s:%s" % (kind, clause, g, lp, err_class(msg))
        dims = " ".join("%s=%s" % (k, scn[k]) for k in ("sfeat", "tfeat", "chunk", "rcomp", "tarfmt", "dkcomp", "dkls") if scn.get(k) not in (None, 0, "default", "none", "pax"))
        what = "%s; scenario %s (%s -> %s, gzip=%s, export name %s%s%s%s)%s" % (
            detail, t["id"], scn.get("src"), scn.get("tgt"), scn.get("gzip"), scn.get("xn"),
            " overridden" if scn.get("xref") else "", (", " + dims) if dims else "",
            ", selection " + sel if sel != "def" else "", ("; ImageImport: " + msg[:300]) if msg else "")
        small = {k: v for k, v in e.items() if k not in ("od", "os", "oa", "oh")}
        ctx.report(sig, what, {"scenario": scn, "block": b["block"], "rejected_event": small, "meta": t["meta"],
                               "cmd": "tools/check C09 --replay <this file>"})

    # ------------------------------------------------------------ 4. drift: (D)'s prediction vs the real importer
    drift = {"result": 0, "passes": 0, "pushes": 0}
    compared = exact = 0
    drift_samples = []
    traces = [(b, t) for b in blocks for t in b["traces"]]
    for b, t in traces:
        p = t["scn"].get("pred")
        if not p:
            continue
        compared += 1
        real_ok = any(e["ev"] in ("imp_result", "dk_result") and e["ok"] == 1 for e in t["events"])
        d = []
        if real_ok != p["ok"] or (not real_ok and PRED_ERR.get(p["err"], "other") != err_class(t["meta"].get("err", ""))):
            d.append("result")
        if t["meta"].get("passes") != p["passes"]:
            d.append("passes")
        if "pushes" in t["meta"] and t["meta"]["pushes"] != p["pushes"]:
            d.append("pushes")
        for k in d:
            drift[k] += 1
        if d and len(drift_samples) < 5:
            drift_samples.append({"id": t["id"], "kinds": d, "pred": p, "real": t["meta"]})
        if not d:
            exact += 1

    xcompared = 0
    drift["export_order"] = 0
    for b in blocks:
        g = b.get("meta", {}).get("graph")
        if b["kind"] == "oci" and g in xorder and "order" in b["meta"]:
            xcompared += 1
            if b["meta"]["order"] != xorder[g]:
                drift["export_order"] += 1
                if len(drift_samples) < 8:
                    drift_samples.append({"block": b["block"], "kinds": ["export_order"], "pred": xorder[g], "real": b["meta"]["order"]})

    # ------------------------------------------------------------ 5. binding demos
    if not ctx.violations:
        def demo(name, pick, edit):
            for b in blocks:
                for t in b["traces"]:
                    if t["id"] in rejected_ids or not pick(b, t):
                        continue
                    # the block this trace hangs on: all blocks of its unit up to b
                    unit = next(u for u in units if b in u)
                    lines = [copy.deepcopy(e) for x in unit for e in x["lines"]]
                    tl = [copy.deepcopy(e) for e in t["events"]]
                    out = edit(lines, tl)
                    if out is None:
                        continue
                    fn = ctx.path("c09", "demo-%s.ndjson" % name)
                    with open(fn, "w") as f:
                        for e in out:
                            f.write(json.dumps(e, sort_keys=True) + "\n")
                    if ctx.validate("TarImportTrace", "C09_trace.cfg", fn)["accepted"]:
                        raise vlib.ToolError("binding demo %s was accepted: the trace spec does not bind" % name)
                    return
            raise vlib.ToolError("binding demo %s: no trace to corrupt" % name)

        def drop_blob(lines, tl):
            e = tl[2]
            if len(e["od"]) < 2:
                return None
            i = next((i for i, d in enumerate(e["od"]) if d != e["top"]), None)
            if i is None:
                return None
            del e["od"][i], e["os"][i], e["oa"][i], e["oh"][i]
            return lines + tl

        def wrong_top(lines, tl):
            tl[2]["top"] = "sha256:" + "0" * 64
            return lines + tl

        def corrupt_entry(lines, tl):
            te = next(e for e in lines if e["ev"] == "tar")
            i = next((i for i, h in enumerate(te["hex"]) if h), None)
            if i is None:
                return None
            te["calc"][i] = "0" * 64
            return lines + tl

        def drop_result(lines, tl):
            return lines + [tl[0], tl[2]]

        def dk_layer(lines, tl):
            if not tl[2]["layers"]:
                return None
            tl[2]["layers"][0] = "0" * 64
            return lines + tl
        oci = lambda b, t: b["kind"] == "oci"
        demo("missing-blob", oci, drop_blob)
        demo("wrong-top", oci, wrong_top)
        demo("archive-digest", oci, corrupt_entry)
        demo("dropped-event", oci, drop_result)
        demo("docker-layer", lambda b, t: b["kind"] == "docker", dk_layer)

    # ------------------------------------------------------------ 6. evidence
    accepted = len(traces) - len(rejected_ids)
    graphs = sorted({t["scn"]["sid"][0] for _, t in traces})
    patterns = sorted({t["scn"]["sid"][1] for _, t in traces})
    pairs = sorted({"%s->%s" % (t["scn"]["src"], t["scn"]["tgt"]) for _, t in traces})
    multipass = sum(1 for _, t in traces if t["meta"].get("passes", 0) > 1)
    sample = []
    for b, t in traces[:1] + traces[-1:]:
        sample.append({"id": t["id"], "scenario": {k: t["scn"][k] for k in ("sid", "src", "tgt", "gzip", "xref")},
                       "arch": [("/".join(e["name"]), e["kind"]) for e in t["scn"]["arch"]],
                       "events": [{k: v for k, v in e.items() if k not in ("od", "os", "oa", "oh")} for e in t["events"]], "meta": t["meta"]})
    cov = {
        "states": states, "transitions": trans,
        "traces_validated_against_impl": accepted,
        "samples": sample,
        "evaluations": len(traces) + len(blocks),
        "distinct_nontrivial": len({json.dumps([t["scn"]["sid"], t["scn"]["arch"]] + [t["scn"].get(k) for k in ("src", "tgt", "gzip", "rcomp", "tarfmt", "tfeat", "chunk", "xn", "xref", "dkcomp", "dkls")])
                                    for _, t in traces if t["meta"].get("passes", 0) > 1 or t["scn"]["sid"][1] != "none"}),
        "rule": "a trace = one archive (order of entries, link / naming pattern, compression chosen by TLC / seeded) "
                "built from the audited stream of a real ImageExport and imported by the real ImageImport into a fresh "
                "strict model registry or layout directory; a block = one audited export; distinct non-trivial = distinct "
                "(scenario id, order, endpoints, gzip) needing more than one pass over the archive or going through links",
        "exhaustive": bool(thorough),
        "exhaustive_note": "thorough replays every order of every archive of <= 6 entries; larger archives and the quick "
                           "tier are seeded samples; TLC's check of (D) is exhaustive over orders for the listed tiers",
        "export_blocks": len(blocks), "import_traces": len(traces), "rejected_traces": len(rejected_ids),
        "rejections": len(rejections), "trace_lines": nlines, "trace_states": tstates, "trace_transitions": ttrans,
        "graphs": graphs, "link_patterns": patterns, "endpoint_pairs": pairs, "multi_pass_imports": multipass,
        "pred_compared": compared, "pred_exact": exact, "export_orders_compared": xcompared,
        "drift": drift, "drift_samples": drift_samples,
        "vacuous_actions": vacuous if vacuous is not None else "checked in the thorough tier",
        "actions_taken_only_with_as_found_switches": only_as_found if only_as_found is not None else "checked in the thorough tier",
        "dimension_values_seen": {k: sorted({str(t["scn"].get(k)) for _, t in traces if t["scn"].get(k) is not None})
                                  for k in ("src", "tgt", "sfeat", "spath", "tfeat", "chunk", "gzip", "rcomp", "tarfmt", "xn", "xref", "dkcomp", "dkls")},
        "export_names": sorted({"%s%s" % (t["scn"].get("xn"), "+override" if t["scn"].get("xref") else "") for _, t in traces}),
        "entry_points": ["RegClient.ImageExport", "RegClient.ImageImport", "ImageWithExportCompress", "ImageWithExportRef",
                         "ImageWithImportName", "scheme reg + ocidir blob/manifest put"],
    }
    assumptions = [
        "no sha256 collisions; all digests in the catalogue are sha256",
        "graph catalogue and link patterns as listed in spec/TarImportCat.tla; archives of > 8 entries are not explored",
        "the target registry refuses a manifest whose config / layers / entries are absent (MANIFEST_BLOB_UNKNOWN), "
        "which is what makes a wrong push order a failed import; the order itself is an invariant of (D) only",
        "import selection of a name / tag that the archive does not contain is outside the statement",
        "'Docker-loadable' is audited as: manifest.json has one entry whose Config and Layers name archive entries "
        "holding the image's config and layers in order, RepoTags carry the exported tag (no docker daemon involved)",
    ]
    if any(drift.values()):
        vlib.log("C09: design-spec drift (not a violation): %s" % drift)
    return "model_checking", cov, assumptions

"""C02 - a manifest is exactly the bytes its digest names, at fetch and after edits.

spec/Manifest.tla: abstract object (getter values, frame rule for setters), the precedence of
expected-digest sources, and the scenario spaces TLC enumerates (setter programs, fetch
combinations). c02drv executes them on the real types/manifest, scheme/reg, scheme/ocidir and logs
independently computed facts; spec/ManifestTrace.tla validates every line.
"""
import concurrent.futures
import json
import random

import vlib


def run(ctx):
    rng = random.Random(ctx.seed)
    ctx.build("c02drv")
    ge = ctx.tlc_scenarios("ManifestGen", "C02_gen_edit.cfg", workers=4, label="setter programs (length <= 3, 7 kinds, 2 algorithms)")
    gf = ctx.tlc_scenarios("ManifestGen", "C02_gen_fetch.cfg", workers=4, label="fetch combinations")
    edits, fetches = ge["scenarios"], gf["scenarios"]
    if len(edits) < 50000 or len(fetches) < 20000:
        raise vlib.ToolError("scenario spaces too small: %d / %d" % (len(edits), len(fetches)))
    total_e, total_f = len(edits), len(fetches)
    if not ctx.thorough:
        short = [e for e in edits if len(e["prog"]) <= 2]
        long3 = [e for e in edits if len(e["prog"]) == 3]
        edits = short + rng.sample(long3, 6000)
        # the struct-built and the push-then-pull routes are small once the combinations that do not exist are
        # dropped (the driver skips them): always run them completely
        def effective(f):
            if f["via"] == "orig":
                return f["variant"] == "canon" and f["kind"] != "d1_signed" and f["hdr"] == "absent" and f["hdrmt"] == "absent"
            if f["via"] == "regputget":
                return f["desc"] == "absent" and f["hdr"] == "absent" and f["hdrmt"] == "absent" and f["kind"] != "d1_signed"
            return False
        small = [f for f in fetches if effective(f)]
        rest = [f for f in fetches if f["via"] not in ("orig", "regputget")]
        fetches = small + rng.sample(rest, 12000)
    rng.shuffle(edits)
    rng.shuffle(fetches)
    nchunks = 8 if ctx.thorough else 4
    logs = []
    for mode, scns in (("edit", edits), ("fetch", fetches)):
        for i in range(nchunks):
            ch = scns[i::nchunks]
            fn = ctx.path("c02", "%s-%d.jsonl" % (mode, i))
            with open(fn, "w") as f:
                for s in ch:
                    f.write(json.dumps(s) + "\n")
            log = ctx.path("c02", "%s-%d.ndjson" % (mode, i))
            ctx.run(["c02drv", "-mode", mode, "-in", fn, "-out", log, "-scratch", ctx.path("c02", "layouts", "x")[:-2]],
                    timeout=1200)
            logs.append((mode, log))

    def validate_log(item):
        mode, log = item
        out = []
        lines = open(log).read().splitlines()
        st = tr = 0
        for attempt in range(6):
            v = ctx.validate("ManifestTrace", "C02_trace.cfg", log, timeout=3000)
            st += v["distinct"]
            tr += v["generated"]
            if v["accepted"]:
                break
            k = v["line"]
            e = json.loads(lines[k - 1])
            prog = []
            if e["ev"] in ("op", "init"):
                j = k - 1
                while j >= 0:
                    pe = json.loads(lines[j])
                    if pe["ev"] == "reset":
                        break
                    if pe["ev"] == "op":
                        prog.insert(0, [pe["op"], pe["arg"], pe["err"]])
                    j -= 1
            out.append(((v.get("detail") or v["reason"]).strip('"'), e, prog))
            # neutralise the rest of this program / this line
            lines[k - 1] = json.dumps({"ev": "skip"})
            j = k
            while e["ev"] in ("op", "init") and j < len(lines) and json.loads(lines[j])["ev"] == "op":
                lines[j] = json.dumps({"ev": "skip"})
                j += 1
            with open(log, "w") as f:
                f.write("\n".join(lines) + "\n")
        accepted = sum(1 for ln in lines if '"ok": 1' in ln or '"ok":1' in ln)
        return out, st, tr, len(lines), accepted

    with concurrent.futures.ThreadPoolExecutor(max_workers=4) as ex:
        results = list(ex.map(validate_log, logs))
    states = ge["distinct"] + gf["distinct"]
    trans = ge["generated"] + gf["generated"]
    nlines = 0
    returned = 0
    for rej, st, tr, n, acc in results:
        states += st
        trans += tr
        nlines += n
        returned += acc
        for detail, e, prog in rej:
            if detail.startswith("tooling:"):
                raise vlib.ToolError("malformed trace line: %s %s" % (detail, json.dumps(e)[:300]))
            cls = detail.split(":")[0]
            small = {k: v for k, v in e.items() if len(str(v)) < 160}
            if e["ev"] == "fetch":
                sig = "manifest:fetch:%s:%s:%s" % (cls, e["kind"], e["via"])
                what = "%s (kind %s via %s, desc=%s ref=%s hdr=%s hdrmt=%s variant=%s)" % (
                    detail, e["kind"], e["via"], e["desc"], e["ref"], e["hdr"], e["hdrmt"], e["variant"])
            else:
                sig = "manifest:edit:%s:%s:%s" % (cls, e["kind"], e.get("op", "init"))
                what = "%s (kind %s, program %s)" % (detail, e["kind"], json.dumps(prog))
            ctx.report(sig, what, {"event": small, "program": prog})
    if returned == 0:
        raise vlib.ToolError("no fetch scenario returned a manifest: the fetch obligations were never exercised")
    if not ctx.violations:
        def demo(name, mode, pred, edit, keep_prefix=False):
            log = next(l for m, l in logs if m == mode)
            ls = open(log).read().splitlines()
            for i, ln in enumerate(ls):
                e = json.loads(ln)
                if pred(e):
                    edit(e)
                    ls[i] = json.dumps(e)
                    ls = ls[:i + 1] if keep_prefix else [ls[i]]
                    break
            else:
                raise vlib.ToolError("binding demo %s: nothing to corrupt" % name)
            p = ctx.path("c02", "demo-%s.ndjson" % name)
            with open(p, "w") as f:
                f.write("\n".join(ls) + "\n")
            if ctx.validate("ManifestTrace", "C02_trace.cfg", p)["accepted"]:
                raise vlib.ToolError("binding demo %s accepted: trace spec does not bind" % name)
        demo("fetch-wrong", "fetch", lambda e: e["ev"] == "fetch" and e["ok"] == 0 and e["desc"] == "wrong",
             lambda e: e.update(ok=1))
        demo("fetch-raw", "fetch", lambda e: e["ev"] == "fetch" and e["ok"] == 1, lambda e: e.update(raw_sha256="00"))
        demo("fetch-digest", "fetch", lambda e: e["ev"] == "fetch" and e["ok"] == 1 and e["desc"] == "absent" and e["ref"] == "absent"
             and e["hdr"] == "absent", lambda e: e.update(rep_digest="sha256:" + "1" * 64))
        demo("edit-digest", "edit", lambda e: e["ev"] == "op" and e["err"] == 0, lambda e: e.update(rep_size=e["rep_size"] + 1), True)
        demo("edit-frame", "edit", lambda e: e["ev"] == "op" and e["err"] == 0 and e["op"] == "ann",
             lambda e: e.update(g_subject="x", r_subject="x"), True)
    cov = {
        "states": states, "transitions": trans,
        "traces_validated_against_impl": nlines - sum(len(r[0]) for r in results),
        "log_files": len(logs),
        "samples": [edits[0], fetches[0]],
        "evaluations": nlines,
        "distinct_nontrivial": len(edits) + len(fetches),
        "rule": "edit scenario = (kind, digest algorithm, setter program of length <= 3 over 16 calls); fetch scenario = "
                "(kind, body variant, descriptor/reference/header digest each absent|right sha256|right sha512|wrong, "
                "header media type, via manifest.New | reg ManifestGet + re-push | ocidir ManifestGet); all distinct by "
                "construction (TLC enumerates sets)",
        "exhaustive": bool(ctx.thorough),
        "edit_space": total_e, "fetch_space": total_f, "edit_run": len(edits), "fetch_run": len(fetches),
        "fetches_returning_a_manifest": returned,
        "entry_points": ["manifest.New (WithRaw/WithOrig/WithDesc/WithRef/WithHeader)", "RegClient.ManifestGet (reg, ocidir)",
                         "RegClient.ManifestPut", "SetAnnotation", "SetConfig", "SetLayers", "SetManifestList", "SetSubject",
                         "SetOrig", "GetDescriptor", "RawBody", "MarshalJSON", "getters"],
    }
    assumptions = ["expected digest = descriptor, else reference, else registry header (manifest.New: later digests are ignored)",
                   "body variants: canonical, reordered keys + white space, unknown top-level field (not arbitrary JSON)",
                   "for a signed schema1 manifest the digest names the signed payload (extracted independently from the JWS "
                   "envelope) and either the document or the payload length is accepted as its size",
                   "response caching is covered by C10's re-fetch audit, not here"]
    return "model_checking", cov, assumptions

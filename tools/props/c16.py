"""C16 - platform selection returns a runnable and best entry; platform strings have a normal form.

Reference model spec/Platform.tla (Runnable, Exact, Canon over a spelled universe enumerated by
TLC); the real types/platform relations (Compatible, Match, Better) and the real search results
(DescriptorListSearch, GetPlatformDesc) are recorded by c16drv and validated by TLC against
spec/PlatformTrace.tla; spec/ScanLemma.tla lifts the pairwise order laws to lists of any order.
"""
import json

import vlib


def scan_lemma_proof(ctx):
    """TLAPS proof of the scan lemma for lists of any length over any entry set
    (spec/ScanLemmaProof.tla). It does not depend on /repo; a failure to run the prover is recorded,
    not turned into a verdict."""
    import re
    import shutil
    import subprocess
    d = ctx.path("c16", "tlaps", "x")[:-2]
    shutil.copy(vlib.os.path.join(vlib.SPEC, "ScanLemmaProof.tla"), d)
    try:
        r = subprocess.run(["timeout", "900", "tlapm", "--threads", "8", "ScanLemmaProof.tla"], cwd=d,
                           capture_output=True, text=True)
    except OSError as e:
        return {"ran": False, "note": "tlapm not available: %s" % e}
    out = r.stdout + r.stderr
    m = re.search(r"All (\d+) obligations proved", out)
    if m:
        return {"ran": True, "obligations": int(m.group(1)), "discharged": int(m.group(1)),
                "checker_cmd": "tlapm --threads 8 spec/ScanLemmaProof.tla"}
    m = re.search(r"(\d+)/(\d+) obligations failed", out)
    if m:
        raise vlib.ToolError("ScanLemmaProof: %s of %s obligations failed" % (m.group(1), m.group(2)))
    return {"ran": False, "note": "tlapm rc=%d: %s" % (r.returncode, out[-200:])}


def run(ctx):
    ctx.build("c16drv")
    scan = ctx.tlc("ScanLemma", "C16_scan.cfg", label="scan lemma, all strict orders on 4 elements, all lists <= 4",
                   workers=8)
    proof = scan_lemma_proof(ctx)
    gen = ctx.tlc_scenarios("PlatformGen", "C16_gen.cfg", workers=1, label="spelled universe")
    uni = gen["scenarios"]
    if len(uni) < 500:
        raise vlib.ToolError("universe too small: %d" % len(uni))
    ufile = ctx.path("c16", "universe.jsonl")
    with open(ufile, "w") as f:
        for u in uni:
            f.write(json.dumps(u) + "\n")
    rounds = 3 if ctx.thorough else 1
    lists = 150 if ctx.thorough else 30
    total_lines = 0
    hosts = 0
    searches = 0
    states = scan["distinct"]
    trans = scan["generated"]
    samples = []
    distinct = set()
    for r in range(rounds):
        log = ctx.path("c16", "log-%d.ndjson" % r)
        res = ctx.run(["c16drv", "-in", ufile, "-out", log, "-seed", str(ctx.seed * 1000 + r),
                       "-hosts", "0", "-lists", str(lists)], timeout=900)
        meta = json.loads(res.stdout.strip().splitlines()[-1])
        hosts += meta["hosts"]
        lines = open(log).read().splitlines()
        total_lines += len(lines)
        for ln in lines[len(uni):]:
            e = json.loads(ln)
            if e["ev"] == "search":
                searches += 1
                distinct.add((e["h"], tuple(e["list"]), e["api"]))
        if r == 0:
            samples = [json.loads(lines[0]), json.loads(lines[len(uni) + 1])]
            hs = json.loads(lines[len(uni)])
            samples.append({"ev": "host", "h": hs["h"], "run": hs["run"], "compat_ones": sum(hs["compat"]),
                            "note": "tables abbreviated"})
        # validate; on rejection record, neutralise the line and continue (bounded)
        for attempt in range(8):
            v = ctx.validate("PlatformTrace", "C16_trace.cfg", log, timeout=2400)
            states += v["distinct"]
            trans += v["generated"]
            if v["accepted"]:
                break
            k = v["line"]
            e = json.loads(lines[k - 1])
            detail = (v.get("detail") or v["reason"]).strip('"')
            if detail.startswith("tooling:"):
                raise vlib.ToolError("trace malformed at line %d: %s" % (k, detail))
            small = {x: e[x] for x in e if x not in ("better", "compat", "match", "bz", "reps")}
            if e["ev"] == "search":
                small["host_platform"] = uni[e["h"] - 1]
            elif e["ev"] == "host":
                small["host_platform"] = uni[e["h"] - 1]
            sig = "platform:%s:%s" % (e["ev"], detail.split(":")[0])
            ctx.report(sig, "%s at %s" % (detail, json.dumps(small)[:600]),
                       {"event": small, "universe_size": len(uni), "seed": ctx.seed * 1000 + r})
            lines[k - 1] = json.dumps({"ev": "skip"})
            with open(log, "w") as f:
                f.write("\n".join(lines) + "\n")
        else:
            vlib.log("more than 8 rejected lines in one log; stopping")
    # binding demos on the last accepted log
    if not ctx.violations:
        def mutate(fn, pred, edit, name):
            ls = open(fn).read().splitlines()
            for i, ln in enumerate(ls):
                e = json.loads(ln)
                if pred(e):
                    edit(e)
                    ls[i] = json.dumps(e)
                    break
            else:
                raise vlib.ToolError("binding demo %s: no event to corrupt" % name)
            p = ctx.path("c16", "demo-%s.ndjson" % name)
            with open(p, "w") as f:
                f.write("\n".join(ls) + "\n")
            v = ctx.validate("PlatformTrace", "C16_trace.cfg", p, timeout=2400)
            if v["accepted"]:
                raise vlib.ToolError("binding demo %s accepted: trace spec does not bind" % name)

        def flip_compat(e):
            e["compat"][e["run"][0] - 1] = 0
        mutate(log, lambda e: e["ev"] == "host" and e["run"], flip_compat, "compat")
        mutate(log, lambda e: e["ev"] == "search" and e["res"] != 0 and len(e["list"]) > 1,
               lambda e: e.update(res=0), "search")
        mutate(log, lambda e: e["ev"] == "plat" and e["arch"] == "x86_64",
               lambda e: e.update(str=e["os"] + "/x86_64"), "alias")
    cov = {
        "states": states, "transitions": trans,
        "traces_validated_against_impl": total_lines - len(ctx.violations),
        "log_files": rounds,
        "samples": samples,
        "evaluations": total_lines,
        "distinct_nontrivial": len(distinct),
        "rule": "universe of %d spelled platforms enumerated by TLC (every alias spelling); %d canonical hosts "
                "per round, each against all 176 canonical target classes with random spellings; searches = "
                "seeded lists of 1-4 entries (runnable, other, platform-less) in every permutation through "
                "DescriptorListSearch and GetPlatformDesc; distinct = (host, list order, api)" % (len(uni), hosts // rounds),
        "exhaustive": True,
        "exhaustive_note": "exhaustive over the spelled universe for normal form / parse, over all host x target "
                           "class pairs for Compatible / Match, over all host x target x runnable-prev triples for "
                           "Better; lists are sampled (the scan lemma covers every list and order)",
        "universe": len(uni), "hosts": hosts, "searches": searches,
        "scan_lemma_proof": proof,
        "entry_points": ["platform.Parse", "Platform.String", "platform.Compatible", "platform.Match",
                         "platform.NewCompare/Better", "descriptor.DescriptorListSearch", "manifest.GetPlatformDesc"],
    }
    assumptions = ["os.features / features not varied", "variants restricted per architecture to existing ones",
                   "the ranking is the implementation's own; only its order laws and exact-match preference are required",
                   "host platform of the machine is linux (Parse fills local defaults only for one-component strings, not used)"]
    return "model_checking", cov, assumptions

"""C05 - a blob upload commits exactly the caller's bytes under their digest, or fails.

(D) spec/BlobPut.tla (+BlobPutMC configuration spaces) is checked exhaustively by TLC (O1-O3 and
the loop's own invariants, termination on a smaller space, two expected counterexamples that keep
the known design facts visible).  BlobPutGen emits behaviours of (D) (breadth first for the small
spaces, -simulate for the large one); each is a scenario: input, client settings, destination kind
and the script of the server's choices.  harness/cmd/c05drv runs the real regclient.BlobPut
(scheme/reg, scheme/ocidir) against a scripted conforming upload endpoint / a layout directory and
records the server side events plus independently computed facts; every trace is validated by TLC
against (P) spec/BlobPutProp.tla through spec/BlobPutTrace.tla.  A verdict comes only from a
rejected real trace.
"""
import copy
import hashlib
import json
import os
import random
import re
import time

import vlib

UNIT = 512
MISMATCH = ("wrongdig", "sizeplus", "sizeminus", "prefix")
INVALID = ("baddig", "unkalg")

# environment dimensions: they change nothing in what a conforming client has to send, so the
# prediction of (D) still applies; each TLC scenario gets a random combination (pairwise coverage
# follows from the number of scenarios)
ENV = {
    "host": ["c05.test", "c05.test:5000"],
    "alias": ["", "backend.c05.test:8443"],
    "repo": ["proj/tgt", "tgt", "a/b/c-d/e"],
    "refsfx": ["", ":v1", "@sha256:" + "ab" * 32],
    "prefix": ["", "pfx", "p1/p2"],
    "tls": [0, 1],
    "mirror": [0, 1],
    "conc": [0, 1],
    "warm": [0, 1],
    "mt": ["", "application/octet-stream", "application/vnd.oci.image.layer.v1.tar+gzip"],
    "auth": [0, 1],
}
# redirects inside the upload session (environment: http.Client follows them, the code only sees the
# URL that finally answered).  Which request kinds the front door redirects, where to (other host with
# its own path space / same host, own path space / other host, same paths), 307 or 308, one or two
# hops, reference form of the redirect, and in which URL space the node names the session afterwards.
REDIR_KINDS = ["patch", "patch,put,get,delete", "post", "post,patch,put,get,delete", "put", "get",
               "put,get,delete", "post,put", "patch,get", "delete"]
REDIR_TO = ["host", "path", "hostsame"]
REDIR_SYSTEMATIC = [(k, to, lf, sp) for k in REDIR_KINDS for to in REDIR_TO for lf in ("path", "rel", "url", "mix", "dots")
                    for sp in ("node", "front")]


def set_redir(scn, kinds, to, lform, lspace, rng, fullput=False):
    scn["redir"], scn["rto"], scn["lspace"] = kinds, to, lspace
    if lform is not None:
        scn["lform"] = lform
    scn["rcode"] = rng.choice([307, 307, 308, 308, 301, 302, 303])  # 30x: the status GET only, the rest 307
    scn["rloc"] = rng.choice(["url", "path"])
    scn["rhops"] = 2 if rng.random() < 0.2 else 1
    # a redirected single request upload from a source that cannot be rewound fails by necessity
    # ((P) waives O3 there); the model does not know redirects, so its prediction does not apply
    if scn["seek"] != 1 and fullput and "put" in kinds.split(","):
        scn["adapt"] = 1


WRONGSIZE = ("sizeplus", "sizeminus", "sizeonlyplus", "sizeonlyminus", "prefix")


def load_traces(fn):
    out = []
    with open(fn) as f:
        for line in f:
            if line.strip():
                out.append(json.loads(line))
    return out


def to_drv(s, sid, rng):
    """TLC scenario (cf + script at unit granularity) -> driver scenario."""
    cf = s["cf"]
    scn = {
        "id": sid, "dest": cf["dest"], "len": cf["len"], "tail": 0, "unit": UNIT,
        "chunk": cf["chunk"], "defch": 0, "blobmax": cf["bmax"], "defmax": 0, "min": cf["min"],
        "enforce": int(bool(cf["enforce"])), "seek": int(bool(cf["seek"])), "piece": 0,
        "decl": cf["decl"], "alg": rng.choice(["sha256", "sha512"]), "loc": cf["loc"],
        "exists": cf["exists"], "koff": 0, "sdelta": 0, "script": [],
    }
    # --- dimensions (D) abstracts from
    for k, vals in ENV.items():
        if cf["dest"] == "ocidir" and k not in ("refsfx", "warm", "mt"):
            continue
        scn[k] = vals[0] if rng.random() < 0.55 else rng.choice(vals[1:])
    if cf["dest"] == "ocidir" and scn.get("refsfx", "").startswith("@"):
        scn["refsfx"] = ":v1"
    retry = s.get("retry", 5)
    if retry != 5:
        scn["retry"] = retry
        scn["auth"] = 0                     # the 401 round trip uses one of the (fewer) tries
    if cf["dest"] == "reg" and not cf["seek"] and rng.random() < 0.4:
        scn["seek"] = 2                     # a seeker whose Seek fails: as little rewindable as a plain reader
    # shape of the upload Location.  The model knows three styles (no token, token in the query,
    # token in a moving path) and treats every token bearing one alike; without faults the token
    # free style behaves the same as well.  Query spelling, reference form and a move of the
    # session to another host change nothing in what a conforming client sends.
    if cf["dest"] == "reg":
        if cf["loc"] == "query":
            faultfree = not any(st["act"].startswith(("f5", "rst")) for st in s["script"])
            x = rng.random()
            scn["loc"] = "query" if x < 0.45 else "move" if x < 0.8 else "plain" if faultfree else "query"
        shapes = ["std", "semi", "pct", "plus", "multi", "digestx"]
        if scn["loc"] != "query":
            shapes = ["none"] + shapes
        scn["qshape"] = "" if rng.random() < 0.35 else rng.choice(shapes)
        scn["lform"] = "" if rng.random() < 0.35 else rng.choice(["path", "rel", "url", "mix", "dots", "net"])
        x = rng.random()
        scn["lhost"] = 1 if x < 0.25 else 2 if x < 0.35 else 0
        if rng.random() < 0.35:
            kinds = REDIR_KINDS
            if any(st["on"] == "get" for st in s["script"]) and rng.random() < 0.6:
                kinds = [k for k in REDIR_KINDS if "get" in k.split(",")]   # the status request is rare: use it
            set_redir(scn, rng.choice(kinds), rng.choice(REDIR_TO), None,
                      "node" if rng.random() < 0.75 else "front", rng,
                      fullput=any(st["on"] == "put" and st["n"] > 0 for st in s["script"]))
    # OCI layout: a second put that overlaps this one (well formed puts only, so that what the
    # peer commits cannot be mistaken for a commit of this put)
    if cf["dest"] == "ocidir" and cf["len"] > 0 and cf["decl"] in ("none", "right", "digonly", "sizeonly") \
            and rng.random() < 0.6:
        scn["peer"] = {"order": rng.choice(["b-stalls", "a-stalls"]), "at": rng.randrange(0, cf["len"] + 1),
                       "then": rng.choice(["same", "wrong", "err", "short"]), "decl": rng.choice(["same", "none"]),
                       "client": rng.choice(["same", "other"])}
    if cf["decl"] == "baddig" and rng.random() < 0.5:
        scn["decl"] = "unkalg"              # well formed digest of an unavailable algorithm: same code path
    if cf["len"] == 0 and cf["decl"] in ("right", "digonly"):
        scn["alg"] = "sha256"               # BlobPut knows the empty blob only by its sha256 digest (zeroDig)
    for st in s["script"]:
        scn["script"].append({"on": st["on"], "act": st["act"], "k": st["k"], "via": st["via"]})
    # the model's DefChunk is 2: an unset host.BlobChunk with WithBlobSize(2 units) is the same
    if cf["dest"] == "reg" and cf["chunk"] == 2 and rng.random() < 0.25:
        scn["chunk"], scn["defch"] = 0, 2
    # likewise an unset host.BlobMax with the client wide limit (WithBlobSize max)
    if cf["dest"] == "reg" and rng.random() < 0.25:
        scn["blobmax"], scn["defmax"] = 0, cf["bmax"]
    # WithBlobLimit = the model's ChunkLimit (6 units); it also raises a positive client wide max
    if cf["dest"] == "reg" and scn["defmax"] <= 0 and rng.random() < 0.3:
        scn["limit"] = 6
    return scn


def expected(s, unit):
    """request sequence predicted by (D), in bytes"""
    out = []
    for st in s["script"]:
        out.append((st["on"], st["s"] * unit if st["on"] == "patch" else 0, st["n"] * unit, st["st"],
                    st["acc"] * unit))
    return out


def observed(events):
    out = []
    for e in events:
        k = e["ev"]
        if k == "post":
            out.append(("mount" if e["mount"] else "post", 0, 0, e["status"], 0))
        elif k == "patch":
            out.append(("patch", max(e["start"], 0), e["n"], e["status"], e["acc"]))
        elif k == "put":
            out.append(("put", 0, e["n"], e["status"], e.get("acc", 0)))
        elif k == "get":
            out.append(("get", 0, 0, e["status"], 0))
        elif k == "delete":
            out.append(("delete", 0, 0, e["status"], 0))
        elif k == "nosession":
            out.append(({"PATCH": "patch", "PUT": "put", "GET": "get", "DELETE": "delete"}.get(e["method"], "?"),
                        0, 0, 404, 0))
    return out


def same_requests(exp, obs):
    if len(exp) != len(obs):
        return False
    for a, b in zip(exp, obs):
        if a[0] != b[0] or a[3] != b[3] or a[4] != b[4]:
            return False
        if a[0] == "patch" and b[3] != 404 and (a[1] != b[1] or a[2] != b[2]):
            return False
        if a[0] == "put" and b[3] != 404 and a[2] != b[2]:
            return False
    return True


def variants(base, rng, n):
    """byte level variations of TLC scenarios that the unit granular model cannot express: lengths
    that are not a multiple of the block, resume offsets inside a block, short reads of the source,
    one byte units, wrong declared sizes off the block boundaries.  The script is followed as far as it fits (adapted replay)."""
    out = []
    pool = [b for b in base if b["dest"] == "reg"]
    oci = [b for b in base if b["dest"] == "ocidir"]
    if not pool:
        return out
    wsize = [b for b in base if b["decl"] in WRONGSIZE]
    for i in range(n):
        kind = ("tail", "koff", "piece", "unit1", "tail+koff", "sdelta")[i % 6]
        if i % 40 == 39:
            kind = "unit64k"
        if kind == "sdelta" and wsize:
            b = copy.deepcopy(wsize[rng.randrange(len(wsize))])
        elif oci and kind in ("tail", "piece") and i % 4 == 0:
            b = copy.deepcopy(oci[rng.randrange(len(oci))])
        else:
            b = copy.deepcopy(pool[rng.randrange(len(pool))])
        b["base"] = b["id"]
        b["id"] = "%s~%s%d" % (b["id"], kind, i)
        if "tail" in kind:
            b["tail"] = rng.choice([1, 188, 511])
        if "koff" in kind:
            b["koff"] = rng.choice([1, 100, 511])
        if kind == "piece":
            b["piece"] = rng.choice([1, 100, 700])
        if kind == "unit1":
            b["unit"] = 1
        if kind == "unit64k":                # sizes above the copy buffers of io and net/http
            b["unit"] = 65536
        if kind == "sdelta":                 # declared size next to / away from the block boundary
            b["sdelta"] = rng.choice([1, -1, 100, -100])
        b["variant"] = kind
        out.append(b)
    return out


def kept_whole(sc):
    """the scripted endpoint refuses the single request PUT but keeps its whole body"""
    total = sc["len"] * sc.get("unit", UNIT) + sc.get("tail", 0)
    return total > 0 and any(st["on"] == "put" and st["act"] == "refuse" and
                             st.get("k", 0) * sc.get("unit", UNIT) - sc.get("koff", 0) >= total for st in sc["script"])


def load_known(ctx):
    """KNOWN_FINDINGS.json is assembled from known.d/*.json by tools/mkmanifest; read this property's
    fragment directly as well so that the check does not depend on when that was last run."""
    base = vlib.Ctx.load_known(ctx)
    try:
        with open(os.path.join(vlib.VERIF, "known.d", "C05.json")) as f:
            have = {k.get("id") for k in base.get("findings", [])}
            base.setdefault("findings", []).extend(k for k in json.load(f) if k.get("id") not in have)
    except FileNotFoundError:
        pass
    return base


def run(ctx):
    ctx.load_known = lambda: load_known(ctx)
    rng = random.Random(ctx.seed)
    thorough = ctx.thorough
    t0 = time.time()
    def lap(what):
        vlib.log("C05 [%6.1fs] %s" % (time.time() - t0, what))
    ctx.build("c05drv")
    lap("driver built")

    # ------------------------------------------------------------ 1. model checking of (D)
    mc = []
    if thorough:
        mc.append(ctx.tlc("BlobPutMC", "C05_mc_thorough.cfg", timeout=3000,
                          label="len 0-7, chunk 1-3, BlobMax -1/2/4, min none/2/3 (enforced or not), 2 partial, no fault"))
        mc.append(ctx.tlc("BlobPutMC", "C05_mc_thorough1.cfg", timeout=3000,
                          label="len 0-5, chunk 1-3, BlobMax -1/2/4, min none/2/3, 2 partial, 1 fault"))
        mc.append(ctx.tlc("BlobPutMC", "C05_mc_faults.cfg", timeout=3000,
                          label="len 0-5, chunk 1-3, BlobMax -1/2, min none/2 enforced, 4 descriptor kinds, 1 partial, 2 faults"))
    else:
        mc.append(ctx.tlc("BlobPutMC", "C05_mc_quick.cfg", timeout=900,
                          label="len 0-4, chunk 1-3, BlobMax -1/2, min none/2 enforced, 2 partial, 1 fault"))
    mc.append(ctx.tlc("BlobPutMC", "C05_live.cfg", timeout=1500, label="termination (liveness)", workers=8))
    mc.append(ctx.tlc("BlobPutOci", "C05_mc_oci.cfg", timeout=900, workers=4,
                      label="two overlapping puts on one OCI layout, every interleaving"))
    mc.append(ctx.tlc("BlobPutLoc", "C05_mc_loc.cfg", timeout=900, workers=2,
                      label="session URLs: redirects (any subset of 5 requests) x target x Location form x answer space x "
                            "token style; every request reaches the session"))
    # expected counterexamples that do not belong to an open finding are checked at the thorough tier only
    if thorough:
        r = ctx.tlc("BlobPutLoc", "C05_mc_known_locbase.cfg", allow_violation=True, workers=2,
                    label="expected: a Location resolved against the requested URL loses a redirected session")
        if r["violated"] != "Reached":
            raise vlib.ToolError("BlobPutLoc.tla does not depend on the base of the Location reference any more")
        r = ctx.tlc("BlobPutOci", "C05_mc_oci_fixed.cfg", allow_violation=True, workers=4,
                    label="expected: with one temp name per digest an overlapping put overwrites a committed blob")
        if r["violated"] != "SuccessMeansStored":
            raise vlib.ToolError("BlobPutOci.tla does not depend on the unique temp names any more")
    r = ctx.tlc("BlobPutMC", "C05_mc_known_keptall.cfg", allow_violation=True,
                label="expected: refused single PUT that left the whole blob in the session (finding C05-3)")
    if r["violated"] != "O3Strict":
        raise vlib.ToolError("BlobPut.tla no longer shows finding C05-3 (whole blob kept by a refused PUT); update "
                             "the spec, the known finding and this check together")
    # expected counterexamples: facts about the design that the checks below rely on
    r = ctx.tlc("BlobPutMC", "C05_mc_known_mount.cfg", allow_violation=True,
                label="expected: mount short cut returns success for a mismatching descriptor")
    if r["violated"] not in ("O1Strict", "O2Strict"):
        raise vlib.ToolError("BlobPut.tla no longer shows the mount short cut (finding C05-1); update "
                             "the spec, the known finding and this check together")
    if thorough:
        r = ctx.tlc("BlobPutMC", "C05_mc_known_baddig.cfg", allow_violation=True,
                    label="expected (as-found switch IgnoreInvalidDigest): a declared digest that does not validate is ignored")
        if r["violated"] != "O2Strict":
            raise vlib.ToolError("BlobPut.tla with IgnoreInvalidDigest = TRUE no longer shows the as-found behaviour of "
                                 "finding C05-2 (fixed by 69e13de)")
        r = ctx.tlc("BlobPutMC", "C05_mc_s13.cfg", allow_violation=True,
                    label="expected: chunks shrink after a partial acceptance (S13)")
        if r["violated"] != "NoMinViolation":
            raise vlib.ToolError("BlobPut.tla no longer shows the shrinking chunk buffer (S13)")
    lap("design spec checked")
    states = sum(x["distinct"] for x in mc)
    trans = sum(x["generated"] for x in mc)

    # ------------------------------------------------------------ 2. scenarios from TLC
    tlc_scns = []
    for cfg, label in (("C05_gen_core.cfg", "all partial acceptances, small space"),
                       ("C05_gen_bf.cfg", "no partial acceptance, no fault: refused single PUT keeping 0..all units; "
                                          "descriptors x mount/refuse/fall-back on both "
                                          "destinations; declared size above / below the length on and off chunk "
                                          "boundaries with no digest / digest of the stream / of the prefix; minimum "
                                          "chunk length x chunk setting on the POST and on the mount reply"),
                       ("C05_gen_s13.cfg", "enforced minimum chunk length + partial acceptance (S13, safety only; "
                                           "thorough tier)")):
        if cfg == "C05_gen_s13.cfg" and not thorough:
            continue
        g = ctx.tlc_scenarios("BlobPutGen", cfg, workers=8, label="generator " + label)
        got = sorted(g["scenarios"], key=lambda x: json.dumps(x, sort_keys=True))
        for s in got:
            s["src"] = cfg[4:-4]
        tlc_scns += got
    nsim = 12000 if thorough else 800
    g = ctx.tlc_scenarios("BlobPutGen", "C05_gen.cfg", workers=1, simulate="num=%d" % nsim, depth=500,
                          extra=["-seed", str(ctx.seed)], label="generator random behaviours")
    for s in g["scenarios"]:
        s["src"] = "gen_sim"
    tlc_scns += g["scenarios"]
    g = ctx.tlc_scenarios("BlobPutGen", "C05_gen_retry.cfg", workers=1, simulate="num=%d" % (nsim // 4), depth=500,
                          extra=["-seed", str(ctx.seed + 1000)], label="generator random behaviours, retry limit 3")
    for s in g["scenarios"]:
        s["src"] = "gen_retry"
    tlc_scns += g["scenarios"]
    if len(tlc_scns) < 500:
        raise vlib.ToolError("generator produced only %d scenarios" % len(tlc_scns))
    # drop duplicates (the random generator repeats short behaviours)
    seen, uniq = set(), []
    for s in tlc_scns:
        key = hashlib.sha1(json.dumps([s["cf"], s["script"], s.get("retry", 5)], sort_keys=True).encode()).hexdigest()
        if key not in seen:
            seen.add(key)
            uniq.append(s)
    tlc_scns = uniq

    drv = []
    model = {}
    for i, s in enumerate(tlc_scns):
        sid = "%s-%d" % (s["src"], i)
        d = to_drv(s, sid, rng)
        drv.append(d)
        model[sid] = s
    # redirects, systematically: every combination of (redirected kinds, target, Location form, URL
    # space the node answers in) on breadth first scenarios with a well formed input and no fault
    combos = list(REDIR_SYSTEMATIC)
    random.Random(5).shuffle(combos)
    n_redir_sys = 0
    for d in drv:
        if n_redir_sys >= 2 * len(combos):
            break
        if d["dest"] == "reg" and d["id"].startswith(("gen_core", "gen_bf")) and d["decl"] in ("none", "right") \
                and d["seek"] == 1 and not d["enforce"] and d["len"] >= 2 and d["loc"] != "plain":
            d.pop("adapt", None)
            set_redir(d, *combos[n_redir_sys % len(combos)], rng)
            n_redir_sys += 1
    exact_ids = set(model) - {d["id"] for d in drv if d.get("adapt")}
    var = variants([d for d in drv if d["id"].startswith(("gen_core", "gen_sim", "gen_bf", "gen_retry"))], rng, 3000 if thorough else 300)
    drv += var
    for b in var:
        if b["variant"] in ("unit1", "unit64k") and not b.get("adapt"):  # only the scale changes: the model's prediction still applies
            model[b["id"]] = model[b["base"]]
            exact_ids.add(b["id"])

    # overlapping layout puts, systematically: who stalls, where, what the other stream is, what it declares
    n_peer = 0
    for ln in (2, 3):
        for decl in ("right", "none", "digonly"):
            for order in ("b-stalls", "a-stalls"):
                for at in sorted({0, 1, ln}):
                    for then in ("same", "wrong", "err", "short"):
                        for pdecl in ("same", "none"):
                            n_peer += 1
                            drv.append({"id": "oci_peer-%d" % n_peer, "dest": "ocidir", "len": ln, "tail": rng.choice([0, 0, 77]),
                                        "unit": UNIT, "seek": 0, "decl": decl, "alg": rng.choice(["sha256", "sha512"]),
                                        "exists": "none", "script": [], "chunk": 1, "min": 0, "enforce": 0,
                                        "peer": {"order": order, "at": at, "then": then, "decl": pdecl,
                                                 "client": rng.choice(["same", "other"])}})
    scn_file = ctx.path("c05", "scn.jsonl")
    with open(scn_file, "w") as f:
        for d in drv:
            f.write(json.dumps(d) + "\n")
    out = ctx.path("c05", "traces.jsonl")
    ctx.run(["c05drv", "-in", scn_file, "-out", out, "-dir", ctx.path("c05", "layouts", "x")], timeout=1500)
    raw = load_traces(out)
    peers = [t for t in raw if t["id"].endswith("~peer")]
    raw = [t for t in raw if not t["id"].endswith("~peer")]
    lap("%d scenarios generated and executed on the real code" % len(drv))
    if len(raw) != len(drv):
        raise vlib.ToolError("driver returned %d traces for %d scenarios" % (len(raw), len(drv)))

    # ------------------------------------------------------------ 3. drift of (D) against the code
    byid = {d["id"]: d for d in drv}
    exact = adapted = 0
    drift = {}
    stalls = []
    traces = []
    kinds = set()
    for t in raw:
        sc = byid[t["id"]]
        meta = t.get("meta") or {}
        if "stall" in meta or "peerstall" in meta:
            stalls.append(t["id"])
        if t["id"] in exact_ids:
            s = model[t["id"]]
            res = t["events"][-1]
            ok = same_requests(expected(s, sc["unit"]), observed(t["events"])) if sc["dest"] == "reg" else True
            ok_res = (res["ok"] == 1) == (s["result"] == "ok")
            if ok and ok_res and not meta.get("drift"):
                exact += 1
            else:
                key = "result" if not ok_res else "requests"
                drift[key] = drift.get(key, 0) + 1
                if drift[key] <= 3:
                    vlib.log("C05 drift (%s) in %s:\n scenario %s\n model %s\n real  %s" % (
                        key, t["id"], json.dumps(sc), expected(s, sc["unit"]), observed(t["events"])))
        else:
            adapted += 1
        traces.append({"id": t["id"], "events": t["events"], "header": t["header"], "scenario": sc})
        kinds.add(json.dumps([sc["dest"], sc["decl"], sc["seek"], sc["exists"], t["header"]["len"],
                              [(e["ev"], e.get("status"), e.get("acc")) for e in t["events"]]]))

    # the overlapping put of a layout scenario is a put of its own, with the same obligations
    for t in peers:
        sc = dict(byid[t["id"][:-len("~peer")]])
        sc["decl"], sc["seek"], sc["script"] = t["header"]["decl"], 0, []
        adapted += 1
        traces.append({"id": t["id"], "events": t["events"], "header": t["header"], "scenario": sc})

    # S13 (informational): uploads that a destination enforcing its minimum refused after it had
    # accepted a chunk partially; (P) does not demand success there
    s13 = sum(1 for t in traces if t["id"].startswith("gen_s13") and t["events"][-1]["ok"] == 0
              and any(e.get("why") == "minlen" for e in t["events"]))

    # ------------------------------------------------------------ 4. trace validation against (P)
    # Scenarios in the input class of the known finding C05-1 (mismatching descriptor + accepted
    # mount) are each rejected by (P); as long as the finding is open only a few of them are
    # validated (every rejection costs one more TLC run), the others are counted as skipped.
    open_ids = {k.get("id") for k in ctx.load_known().get("findings", []) if k.get("status") == "known"}
    def known_class(t):
        sc = t["scenario"]
        if "C05-1-mount-shortcut" in open_ids and sc["decl"] in MISMATCH and \
                any(st["on"] == "mount" and st["act"] == "accept" for st in sc["script"]):
            return "mount"
        if "C05-2-invalid-digest-ignored" in open_ids and sc["decl"] in INVALID:
            return "invalid-" + sc["dest"]
        if "C05-3-whole-blob-kept" in open_ids and kept_whole(sc):
            return "kept-whole"
        return None
    skipped_known = 0
    classes = {}
    for t in traces:
        c = known_class(t)
        if c:
            classes.setdefault(c, []).append(t)
    keep = set()
    for c in sorted(classes):
        keep |= set(x["id"] for x in vlib.sample(rng, classes[c], 2))
        skipped_known += len(classes[c]) - min(2, len(classes[c]))
    traces = [t for t in traces if not known_class(t) or t["id"] in keep]
    accepted, rejected = ctx.validate_batch("BlobPutTrace", "C05_trace.cfg", traces, timeout=3000, max_reports=12)
    for r in rejected:
        t = r["trace"]
        if r["reason"] == "invariant Harness":
            hb = re.findall(r'/\\ hbad = (.*)', r.get("state", ""))
            raise vlib.ToolError("the scripted endpoint left its own contract (%s) in trace %s at %s" % (
                hb[-1] if hb else "?", t["id"], json.dumps(r["event"])))
        detail = (r["detail"] or "").strip().strip('"') or r["reason"]
        mounted = any(e["ev"] == "post" and e.get("mounted") == 1 for e in t["events"])
        ctxname = "mount-accepted" if mounted else "invalid-digest" if t["scenario"]["decl"] in INVALID else \
            "kept-whole-blob" if kept_whole(t["scenario"]) else "upload"
        sig = "%s:%s:%s" % (t["scenario"]["dest"], detail, ctxname)
        what = "%s at event %s of trace %s (decl=%s seek=%s len=%s)" % (
            detail, json.dumps(r["event"]), t["id"], t["scenario"]["decl"], t["scenario"]["seek"], t["header"]["len"])
        ctx.report(sig, what, {"scenario": t["scenario"], "header": t["header"], "events": t["events"],
                               "rejected_at": r["line"], "cmd": "tools/check C05 --replay <this file>"})
    lap("traces validated")
    if stalls and not rejected:
        raise vlib.ToolError("driver stalled in: " + ", ".join(stalls[:5]))

    # ------------------------------------------------------------ 5. binding demo
    demos = 0
    if not ctx.violations:
        def pick(pred):
            return next((t for t in traces if pred(t)), None)
        good = pick(lambda t: t["events"][-1]["ok"] == 1 and t["scenario"]["dest"] == "reg" and t["header"]["len"] > 0
                    and any(e["ev"] == "patch" for e in t["events"]))
        wrong = pick(lambda t: t["scenario"]["decl"] == "wrongdig" and t["events"][-1]["ok"] == 0)
        if good is None or wrong is None:
            raise vlib.ToolError("no traces to demonstrate the binding")
        m1 = copy.deepcopy(good)
        m1["events"][-1]["hsha"] = "0" * 64
        m1["events"][-1]["hheld"] = "?" + m1["events"][-1]["hheld"][1:]
        m1["id"] = "demo-content"
        m2 = copy.deepcopy(wrong)
        m2["events"][-1]["ok"] = 1
        m2["id"] = "demo-noerror"
        m3 = copy.deepcopy(good)
        m3["events"][-1]["rsize"] += 1
        m3["id"] = "demo-size"
        m4 = pick(lambda t: t["events"][-1]["ok"] == 1 and t["scenario"]["decl"] in ("none", "right")
                  and not any(e.get("fault", "none") != "none" for e in t["events"])
                  and t["scenario"]["seek"] == 1 and not (t["scenario"]["enforce"] and t["scenario"]["min"]))
        m4 = copy.deepcopy(m4)
        m4["events"][-1]["ok"] = 0
        m4["id"] = "demo-o3"
        for m in (m1, m2, m3, m4):
            a, rj = ctx.validate_batch("BlobPutTrace", "C05_trace.cfg", [m])
            if not rj:
                raise vlib.ToolError("binding demo %s was accepted: the trace spec does not bind" % m["id"])
            demos += 1

    n_model = exact + sum(drift.values())
    if n_model and sum(drift.values()) * 10 > n_model:
        vlib.log("C05: more than 10%% of the TLC scenarios deviate from the design spec: %s" % drift)
    sample = []
    for t in traces[:1] + traces[len(traces) // 2:len(traces) // 2 + 1]:
        sample.append({"id": t["id"], "scenario": t["scenario"], "events": t["events"][:12]})
    cov = {
        "states": states, "transitions": trans,
        "traces_validated_against_impl": accepted,
        "samples": sample,
        "evaluations": len(traces),
        "distinct_nontrivial": len(kinds),
        "rule": "one evaluation = one real regclient.BlobPut call (registry endpoint scripted by a TLC behaviour, or "
                "an OCI layout) whose recorded events were validated against BlobPutProp; distinct = distinct "
                "(destination, descriptor kind, source kind, pre-existing content, length, server event sequence)",
        "exhaustive": False,
        "tlc_scenarios": len(tlc_scns), "replayed_exactly": exact, "byte_level_variants": adapted,
        "redirect_scenarios": sum(1 for d in drv if d.get("redir")), "redirect_systematic": n_redir_sys,
        "redirects_observed": sum(1 for t in traces for e in t["events"] if e["ev"] == "redir"),
        "model_drift": drift, "rejected": len(rejected), "s13_refusals_observed": s13, "skipped_known_finding_class": skipped_known, "binding_demos_rejected": demos,
        "entry_points": ["regclient.BlobPut", "scheme/reg.(*Reg).BlobPut", "scheme/ocidir.(*OCIDir).BlobPut"],
    }
    assumptions = [
        "exhaustive only within the stated constants (length <= 7 units, chunk <= 3, <= 2 partial acceptances, "
        "<= 2 transient faults)",
        "ideal hash in the design spec; the harness computes sha256 / sha512 with crypto/* independently of go-digest",
        "conforming destination = the scripted endpoint of c05drv: PATCH in order, verifying closing PUT, "
        "416 for out of order chunks, an empty session is reported as Range 0--1; a destination that enforces "
        "OCI-Chunk-Min-Length never accepts a chunk partially",
        "O3 is demanded only for traces without injected transient failures",
        "a conforming destination may answer any request of the upload session with a 307 / 308 redirect to another "
        "host or path (the status GET also with 301-303) and name the session by any URI reference of RFC 3986; a "
        "redirected single request PUT from a source that cannot be rewound is treated like a refused one (O3 waived)",
    ]
    return "model_checking", cov, assumptions

"""X05 - bearer token and scope lifecycle of internal/auth as driven by internal/reghttp (extra area).

(D) spec/TokenLife.tla mirrors Auth.AddScope / UpdateRequest / HandleResponse, the bearer and basic
handlers and the retry loop of reghttp Resp.next, one action per critical section / wire round
trip; TLC checks it composed with the monitor (P) spec/TokenLifeProp.tla (TokenLifeMC), with the
repairs of the two findings switched on, as found (expected counterexample) and with six design
mutants (expected counterexamples).  TLC generated scenarios (request programs + server scripts,
TokenLifeGen) are executed on the real code by harness/cmd/x05drv against a model registry / token
service; every recorded trace is validated by TLC against (P) through spec/TokenLifeTrace.tla.
A verdict comes only from a real trace rejected by (P).
"""
import copy
import json
import os
import random
import re
import time

import vlib

REJ_RE = re.compile(r'<<\s*"REJ",\s*"([^"]*)",\s*(\d+),\s*"([^"]*)"\s*>>')
MUTANTS = ["dropScopes", "noCompare", "noRestamp", "noMinLife", "sharedAuth", "neverPost"]
GOODK = ("ok", "okr", "oka", "okpast", "okshort", "oknoiat", "okfut", "part")

# scenarios that are always run (every class that has produced a rejection, and the corner cases
# of the statement), whatever the seed selects
R1 = "r1.test"
R2 = "r2.test"


def C(h, repo, meth):
    return {"h": h, "repo": repo, "meth": meth}


FIXED = [
    {"hosts": {R1: "userpass", R2: "none"}, "threads": [[C(R1, "a", "GET"), C(R1, "a", "PUT"), C(R1, "a", "DELETE"), C(R2, "b", "GET")]],
     "rs": {}, "ts": {R1: ["okr", "ok", "ok"]}},
    {"hosts": {R1: "userpass"}, "threads": [[C(R1, "a", "GET"), C(R1, "a", "GET")]], "rs": {R1: ["std", "stub"]}, "ts": {R1: ["empty"]}},
    {"hosts": {R1: "userpass"}, "threads": [[C(R1, "a", "GET"), C(R1, "b", "GET"), C(R1, "a", "PUT")]], "rs": {}, "ts": {R1: ["okr", "okr", "okr"]}},
    {"hosts": {R1: "userpass"}, "threads": [[C(R1, "a", "GET"), C(R1, "b", "GET")]], "rs": {}, "ts": {R1: ["okr", "deny", "ok"]}},
    {"hosts": {R1: "idtoken"}, "threads": [[C(R1, "a", "GET"), C(R1, "a", "PUT")]], "rs": {}, "ts": {R1: ["deny", "ok", "okr"]}},
    {"hosts": {R1: "userpass"}, "threads": [[C(R1, "a", "GET")] * 1 + [C(R1, "a", "GET")]], "rs": {R1: ["stub", "stub", "stub", "stub", "stub", "stub", "stub", "stub"]}, "ts": {}},
    {"hosts": {R1: "userpass"}, "threads": [[C(R1, "a", "GET"), C(R1, "a", "GET"), C(R1, "a", "PUT")]], "rs": {}, "ts": {R1: ["okpast", "okshort"]}},
    {"hosts": {R1: "userpass"}, "threads": [[C(R1, "a", "GET"), C(R1, "a", "GET"), C(R1, "b", "GET"), C(R1, "b", "GET")]], "rs": {}, "ts": {R1: ["oknoiat", "okfut"]}},
    {"hosts": {R1: "userpass", R2: "userpass"}, "threads": [[C(R1, "a", "GET"), C(R2, "a", "GET"), C(R1, "a", "PUT"), C(R2, "a", "PUT")]], "rs": {}, "ts": {R1: ["okr"], R2: ["okr"]}},
    {"hosts": {R1: "userpass"}, "threads": [[C(R1, "a", "PUT")]], "rs": {}, "ts": {R1: ["junk"]}},
    {"hosts": {R1: "none"}, "threads": [[C(R1, "a", "DELETE"), C(R1, "a", "GET")]], "rs": {R1: ["nosc"]}, "ts": {}},
    {"hosts": {R1: "userpass", R2: "idtoken"}, "threads": [[C(R1, "a", "GET"), C(R1, "b", "PUT")], [C(R1, "a", "DELETE")], [C(R2, "a", "GET"), C(R1, "b", "GET")]],
     "rs": {}, "ts": {}, "gate": 1},
]


def load_known_extra(ctx):
    """known.d/X05.json is merged into KNOWN_FINDINGS.json by tools/mkmanifest; until that has been
    run the fragment is read directly (same semantics: status known suppresses)."""
    orig = ctx.load_known

    def merged():
        k = orig()
        try:
            with open(os.path.join(vlib.VERIF, "known.d", "X05.json")) as f:
                frag = json.load(f)
        except (OSError, ValueError):
            frag = []
        have = {x.get("id") for x in k.get("findings", [])}
        return {"findings": list(k.get("findings", [])) + [x for x in frag if x.get("id") not in have]}
    ctx.load_known = merged


def tr_name(h):
    """model names of (D) -> names of the driver"""
    return {"r1": R1, "r2": R2}.get(h, h)


def to_driver(s):
    """a scenario printed by TokenLifeGen -> the driver's input"""
    threads = s["threads"]
    if isinstance(threads, dict):
        threads = [threads[k] for k in sorted(threads, key=int)]
    return {
        "hosts": {tr_name(h): c for h, c in s["hosts"].items()},
        "threads": [[C(tr_name(c["h"]), c["repo"], c["meth"]) for c in th] for th in threads if th],
        "rs": {tr_name(h): list(v) for h, v in s["rs"].items() if v},
        "ts": {tr_name(h): list(v) for h, v in s["ts"].items() if v},
        "pred": [[p["c"], p["res"]] for p in s.get("pred", [])],
    }


# ------------------------------------------------------------------ signatures
def signature(t, ei, detail):
    evs = t["events"]
    ev = evs[ei]
    ctxs = ""
    if ev["ev"] == "reg":
        svc = "svc-" + ev["h"]
        prev = [e for e in evs[:ei] if e["ev"] == "tok" and e["svc"] == svc]
        last = prev[-1]["reply"] if prev else "none"
        if detail == "bearer-without-issued-token":
            had = any(e["reply"] == "empty" for e in prev)
            ctxs = "%s-after-%s" % ("empty-token" if ev["aid"] == "b:" else "unknown-token", "empty" if had else last)
        else:
            ctxs = "%s-%s-after-%s" % (ev["akind"], ev["mood"], last)
    elif ev["ev"] == "tok":
        prev = [e for e in evs[:ei] if e["ev"] == "tok" and e["svc"] == ev["svc"]]
        last = prev[-1] if prev else None
        if detail == "refresh-token-not-used":
            if last is None:
                ctxs = "configured-token-first-request"
            elif last["rid"] != "":
                ctxs = "after-" + last["reply"]
            elif last["status"] == 200 and last["reply"] in GOODK + ("empty",):
                ctxs = "forgotten-after-" + last["reply"]
            else:
                ctxs = "after-" + last["reply"]
        else:
            ctxs = "%s-after-%s" % (ev["meth"].lower(), last["reply"] if last else "none")
    elif ev["ev"] == "end":
        ctxs = "seq" if t["header"]["seq"] == 1 else "conc"
    return "x05:%s:%s" % (detail, ctxs)


# ------------------------------------------------------------------ validation
def write_traces(fn, traces):
    index = {}
    n = 0
    with open(fn, "w") as f:
        for t in traces:
            hdr = {"ev": "reset", "trace": str(t["id"]), "seq": t["header"]["seq"], "rl": t["header"]["rl"]}
            f.write(json.dumps(hdr, sort_keys=True) + "\n")
            n += 1
            for ei, ev in enumerate(t["events"]):
                f.write(json.dumps(ev, sort_keys=True) + "\n")
                n += 1
                index[n] = (t, ei)
    return index


def validate_all(ctx, traces):
    """One TLC pass over all traces with the report-and-continue trace spec (TSpecAll)."""
    if not traces:
        return set(), []
    ctx._vround = getattr(ctx, "_vround", 0) + 1
    fn = ctx.path("traces", "TokenLifeTrace-all-%d.ndjson" % ctx._vround)
    index = write_traces(fn, traces)
    r = ctx.validate("TokenLifeTrace", "X05_trace_all.cfg", fn, timeout=1500)
    if not r["accepted"]:
        raise vlib.ToolError("trace validation (report-and-continue) stopped at line %s: %s\n%s"
                             % (r.get("line"), r.get("reason"), r["output"][-3000:]))
    ctx.cov["trace_states"] = ctx.cov.get("trace_states", 0) + r["distinct"]
    reports, bad_ids = [], set()
    for m in REJ_RE.finditer(r["output"]):
        line = int(m.group(2))
        if line not in index:
            raise vlib.ToolError("REJ line %d does not name an event" % line)
        t, ei = index[line]
        if str(t["id"]) != m.group(1):
            raise vlib.ToolError("REJ line %d: trace %s expected %s" % (line, m.group(1), t["id"]))
        bad_ids.add(t["id"])
        reports.append({"trace": t, "line": ei, "event": t["events"][ei], "detail": m.group(3)})
    return {t["id"] for t in traces if t["id"] not in bad_ids}, reports


def standard(ctx, name, t):
    """One trace on the standard path (TSpec + INVARIANT Ok): None when accepted, else
    (index of the rejected event, obligation)."""
    fn = ctx.path("traces", "TokenLifeTrace-%s.ndjson" % name)
    write_traces(fn, [t])
    r = ctx.validate("TokenLifeTrace", "X05_trace.cfg", fn, timeout=600)
    if r["accepted"]:
        return None
    if r["line"] is None or r["line"] < 2:
        raise vlib.ToolError("cannot locate the rejected event of %s:\n%s" % (name, r["output"][-3000:]))
    return r["line"] - 2, (r.get("detail") or r["reason"]).strip('"')


def judge(ctx, traces):
    ok_ids, reports = validate_all(ctx, traces)
    by_sig = {}
    for r in reports:
        r["sig"] = signature(r["trace"], r["line"], r["detail"])
        by_sig.setdefault(r["sig"], []).append(r)
    confirmed = 0
    for sig, reps in sorted(by_sig.items()):
        # confirm representatives on the standard path (TSpec + INVARIANT Ok): the first rejection of a
        # trace must be found there too, at the same event, for the same obligation (at most 6 per run)
        first = min((x for x in reports if x["trace"]["id"] == reps[0]["trace"]["id"]), key=lambda x: x["line"])
        if first["sig"] == sig and confirmed < 6:
            confirmed += 1
            rj = standard(ctx, "confirm-%s" % first["trace"]["id"], first["trace"])
            if rj is None or rj[0] != first["line"] or rj[1] != first["detail"]:
                raise vlib.ToolError("rejection of %s at event %d (%s) not confirmed on the standard path: %s"
                                     % (first["trace"]["id"], first["line"], first["detail"], rj))
        rep = reps[0]
        t = rep["trace"]
        what = "%s (%d traces; first: event %d of %s: %s)" % (
            rep["detail"], len({x["trace"]["id"] for x in reps}), rep["line"], t["id"],
            json.dumps(rep["event"], sort_keys=True)[:500])
        for _ in reps:
            ctx.report(sig, what, {"scenario": t["scenario"], "events": t["events"], "rejected_at": rep["line"],
                                   "obligation": rep["detail"], "cmd": "tools/check X05 --replay <this file>"})
    return ok_ids, reports


# ------------------------------------------------------------------------ run
def run_scenarios(ctx, scns, tag):
    scn_file = ctx.path("x05", "scn-%s.jsonl" % tag)
    with open(scn_file, "w") as f:
        for s in scns:
            f.write(json.dumps(s) + "\n")
    out = ctx.path("x05", "traces-%s.jsonl" % tag)
    ctx.run(["x05drv", "-in", scn_file, "-out", out], timeout=900)
    by_id = {s["id"]: s for s in scns}
    traces = []
    with open(out) as f:
        for line in f:
            if line.strip():
                t = json.loads(line)
                traces.append({"id": t["id"], "events": t["events"], "header": t["header"], "meta": t.get("meta", {}),
                               "scenario": by_id[t["id"]]})
    if len(traces) != len(scns):
        raise vlib.ToolError("driver wrote %d traces for %d scenarios" % (len(traces), len(scns)))
    for t in traces:
        # token lifetimes are >= 60 s by the code's own minimum; a scenario takes milliseconds
        if t["meta"].get("elapsed_ms", 0) > 20000:
            raise vlib.ToolError("scenario %s took %s ms: token expiry could interfere" % (t["id"], t["meta"]["elapsed_ms"]))
    return traces


def drift_of(t):
    """does the real code end its requests differently from what (D) predicted? (evidence only)"""
    pred = t["scenario"].get("pred")
    if not pred or t["header"]["seq"] != 1:
        return False
    got = [[e["c"], e["res"]] for e in t["events"] if e["ev"] == "end"]
    return got != pred


def wire(t):
    return [(e["ev"], e.get("mood", e.get("reply", ""))) for e in t["events"] if e["ev"] in ("reg", "tok")]


def binding_demo(ctx, traces, ok_ids):
    """an accepted trace with one corrupted field must be rejected"""
    def first(pred):
        for t in traces:
            if t["id"] in ok_ids and pred(t):
                return copy.deepcopy(t)
        return None
    demos = []
    t = first(lambda t: any(e["ev"] == "tok" and len(e["scopes"]) >= 2 for e in t["events"]))
    if t:
        e = next(e for e in t["events"] if e["ev"] == "tok" and len(e["scopes"]) >= 2)
        e["scopes"] = e["scopes"][1:]
        demos.append(("demo-scope-removed-from-token-request", t))
    t = first(lambda t: any(e["ev"] == "reg" and e["akind"] == "bearer" and e["tknown"] == 1 for e in t["events"]))
    if t:
        e = next(e for e in t["events"] if e["ev"] == "reg" and e["akind"] == "bearer" and e["tknown"] == 1)
        e["tsvc"] = "svc-elsewhere.test"
        demos.append(("demo-token-of-other-service", t))
    t = first(lambda t: any(e["ev"] == "end" and e["res"] == "ok" for e in t["events"]) and
              all(e.get("mood", "std") == "std" and e.get("reply", "ok") == "ok" for e in t["events"]))
    if t:
        e = next(e for e in t["events"] if e["ev"] == "end" and e["res"] == "ok")
        e["res"] = "fail"
        demos.append(("demo-failure-with-cooperative-servers", t))
    t = first(lambda t: sum(1 for e in t["events"] if e["ev"] == "tok" and e["good"] == 1) >= 1 and
              t["header"]["seq"] == 1)
    if t:
        i = next(i for i, e in enumerate(t["events"]) if e["ev"] == "tok" and e["good"] == 1)
        t["events"].insert(i + 1, copy.deepcopy(t["events"][i]))
        demos.append(("demo-token-requested-twice", t))
    t = first(lambda t: any(e["ev"] == "tok" and e["rid"] != "" for e in t["events"][:-3]) and
              any(e["ev"] == "tok" and e["grant"] == "refresh_token" and e["rt"].startswith("rt-") for e in t["events"]))
    if t:
        e = next(e for e in t["events"] if e["ev"] == "tok" and e["grant"] == "refresh_token" and e["rt"].startswith("rt-"))
        e["grant"], e["rt"], e["rtsvc"], e["pw"], e["user"] = "", "", "", 1, "u-" + e["svc"][4:]
        demos.append(("demo-password-instead-of-refresh-token", t))
    if len(demos) < 4:
        raise vlib.ToolError("only %d binding demos could be built from the accepted traces" % len(demos))
    out = []
    for name, t in demos:
        rj = standard(ctx, name, t)
        if rj is None:
            raise vlib.ToolError("binding demo %s was accepted: the trace spec does not bind" % name)
        out.append("%s: %s" % (name, rj[1]))
    return out


def replay(ctx):
    with open(ctx.replay) as f:
        rp = json.load(f)
    s = rp["replay"]["scenario"]
    ctx.build("x05drv")
    traces = run_scenarios(ctx, [s], "replay")
    ok_ids, reports = judge(ctx, traces)
    cov = {"replayed": s["id"], "rejected": len(reports), "states": 0, "transitions": 0,
           "traces_validated_against_impl": len(ok_ids), "samples": [traces[0]["events"][:12]]}
    return "model_checking", cov, ["replay of one recorded scenario"]


def run(ctx):
    load_known_extra(ctx)
    if ctx.replay:
        return replay(ctx)
    ctx.build("x05drv")
    rng = random.Random(ctx.seed)
    thorough = ctx.thorough
    t0 = time.time()

    # ---- 1. model checking: (D) x (P)   (X05_SKIP_MC=1: only for trying breaking changes quickly)
    skip_mc = os.environ.get("X05_SKIP_MC") == "1" and vlib.REPO != "/repo"
    clean = [] if skip_mc else [ctx.tlc("TokenLifeMC", "X05_mc_seq.cfg", workers=8, label="1 thread, 3 requests on one repository, all moods and reply kinds, budget 2, repaired"),
             ctx.tlc("TokenLifeMC", "X05_mc_seq2.cfg", workers=8, label="1 thread, 3 requests, identity token, all moods and reply kinds, budget 2, repaired"),
             ctx.tlc("TokenLifeMC", "X05_mc_conc.cfg", workers=8, label="2 threads, 2 repositories, budget 1, repaired"),
             ctx.tlc("TokenLifeMC", "X05_mc_hosts.cfg", workers=8, label="2 threads, 2 registries, identity token, budget 1, repaired")]
    if thorough and not skip_mc:
        clean.append(ctx.tlc("TokenLifeMC", "X05_mc_t1.cfg", workers=8, timeout=2400,
                             label="2 threads x 2 requests, 2 repositories, budget 1, repaired"))
        clean.append(ctx.tlc("TokenLifeMC", "X05_mc_t2.cfg", workers=8, timeout=2400,
                             label="1 thread, 3 requests, 2 registries, all moods and kinds, budget 2, repaired"))
    expected = [] if skip_mc else [ctx.tlc("TokenLifeMC", "X05_mc_asfound.cfg", workers=4, allow_violation=True,
                                           label="(D) as found, Fix = {} (expected counterexample)")]
    for m in ([] if skip_mc else MUTANTS):
        expected.append(ctx.tlc("TokenLifeMC", "X05_mc_mut_%s.cfg" % m, workers=4, allow_violation=True,
                                label="design mutant %s (expected counterexample)" % m))
    for r in expected:
        if not r["violated"]:
            raise vlib.ToolError("%s: no counterexample; (D) x (P) no longer shows it" % r["label"])
    states = sum(r["distinct"] for r in clean)
    trans = sum(r["generated"] for r in clean)
    vlib.log("X05: model checking done after %.0fs" % (time.time() - t0))

    # ---- 2. scenarios from TLC ((D) as the tree is: Fix = {})
    per_gen = {}
    scns = []

    def gen(cfg, label, keep, **kw):
        g = ctx.tlc_scenarios("TokenLifeGen", cfg, workers=1, label="generator " + label, timeout=1200, **kw)
        uniq = {}
        for s in g["scenarios"]:
            d = to_driver(s)
            uniq.setdefault(json.dumps(d, sort_keys=True), d)
        lst = [uniq[k] for k in sorted(uniq)]
        per_gen[label] = len(lst)
        if not lst:
            raise vlib.ToolError("generator %s produced no scenario" % label)
        lst = vlib.sample(rng, lst, keep)
        per_gen[label + "-run"] = len(lst)
        for i, s in enumerate(lst):
            s["id"] = "%s-%d" % (label, i)
            scns.append(s)

    sim = ["-seed", str(ctx.seed)]
    gen("X05_gen_seq.cfg", "seq", 1500 if thorough else 260)
    gen("X05_gen_sim.cfg", "sim", 4000 if thorough else 300, simulate="num=%d" % (3000 if thorough else 300), depth=120, extra=sim)
    gen("X05_gen_conc.cfg", "conc", 1500 if thorough else 120, simulate="num=%d" % (1500 if thorough else 150), depth=150, extra=sim)
    for s in scns:
        if len(s["threads"]) > 1:
            s["gate"] = 1
            s["sseed"] = rng.randrange(1 << 30)
    for i, s in enumerate(FIXED):
        s = copy.deepcopy(s)
        s["id"] = "fixed-%d" % i
        s.setdefault("sseed", ctx.seed)
        scns.append(s)
    # the concurrent scenarios again, ungated and with other release orders
    extra = []
    for s in scns:
        if len(s["threads"]) > 1:
            for k in range(3 if thorough else 1):
                s2 = copy.deepcopy(s)
                s2["id"] = "%s-o%d" % (s["id"], k)
                s2["gate"] = 0 if k == 0 else 1
                s2["sseed"] = rng.randrange(1 << 30)
                extra.append(s2)
    scns += extra
    vlib.log("X05: generators done after %.0fs (%d scenarios)" % (time.time() - t0, len(scns)))

    # ---- 3. the real code, 4. trace validation
    traces = run_scenarios(ctx, scns, "main")
    ok_ids, reports = judge(ctx, traces)
    vlib.log("X05: validation done after %.0fs" % (time.time() - t0))
    drift = sum(1 for t in traces if drift_of(t))
    first_drift = next((t["id"] for t in traces if drift_of(t)), None)

    # ---- 5. binding demo
    demos = binding_demo(ctx, traces, ok_ids)

    kinds = {"reg": 0, "tok": 0, "call": 0, "end": 0}
    moods, replies, obl = {}, {}, {}
    for t in traces:
        for e in t["events"]:
            if e["ev"] in kinds:
                kinds[e["ev"]] += 1
            if e["ev"] == "reg":
                moods[e["mood"]] = moods.get(e["mood"], 0) + 1
            if e["ev"] == "tok":
                replies[e["reply"]] = replies.get(e["reply"], 0) + 1
    for r in reports:
        obl[r["sig"]] = obl.get(r["sig"], 0) + 1
    never = [k for k, v in kinds.items() if v == 0]
    if never or len(moods) < 5 or len(replies) < 8:
        raise vlib.ToolError("traces do not exercise the alphabets: %s %s %s" % (never, moods, replies))
    sample = [{"id": t["id"], "events": t["events"][:8]} for t in traces[:1] + traces[-1:]]
    cov = {
        "states": states, "transitions": trans,
        "traces_validated_against_impl": len(ok_ids),
        "evaluations": len(traces), "scenarios_per_generator": per_gen,
        "concurrent_traces": sum(1 for t in traces if t["header"]["seq"] == 0),
        "distinct_nontrivial": len({json.dumps(wire(t)) for t in traces}),
        "events_per_kind": kinds, "registry_moods_served": moods, "token_replies_served": replies,
        "rejected_observations": len(reports), "rejected_by_signature": obl,
        "model_drift": drift, "model_drift_first": first_drift,
        "expected_counterexamples": [r["label"] + ": " + str(r["violated"]) for r in expected],
        "binding_demos_rejected": demos,
        "samples": sample,
        "rule": "a trace = one TLC generated scenario (1-3 threads of 1-4 API requests on 1-2 registries, a script of "
                "registry moods and token reply kinds) executed on the real reghttp.Client + auth.Auth; distinct = "
                "distinct sequences of (wire event, mood / reply kind)",
        "exhaustive": False,
        "repairs_assumed_present": [],
        "entry_points": ["reghttp.Client.Do (Resp.next)", "auth.Auth.AddScope", "auth.Auth.UpdateRequest",
                         "auth.Auth.HandleResponse", "bearerHandler.* (through Auth)", "basicHandler.* (through Auth)"],
    }
    assumptions = [
        "finite universes: 2 registries, 2 repositories, methods GET/PUT/DELETE, 7 registry moods, 11 token reply kinds",
        "token expiry by the passing of time is out of reach (time.Now() has no injection point): covered is only what "
        "validateResponse decides at issue (issued_at in the past / future / missing, expires_in below the minimum)",
        "TLC and the model registry / token service of the driver are trusted; concurrent release orders are a seeded sample",
        "jwtHubHandler, mirrors, redirects, RepoAuth and scopes the code cannot parse are not covered",
    ]
    if drift:
        vlib.log("X05: design-spec drift (not a violation): %d traces, first %s" % (drift, first_drift))
    return "model_checking", cov, assumptions

"""C20 - remote or archive content never causes writes outside the chosen directory.

spec/PathSafe.tla is a segment-level path model (hostile names as class sequences, lexical and
physical resolution over a model file system, the cleaning steps of regctl artifact get /
archive.Extract / the ocidir digest-to-file mapping); PathSafeMC checks containment on it for the
whole scenario space, PathSafeGen emits the scenarios.  c20drv executes them on the real code
(regctl binary, archive.Extract, ImageImport, every ocidir operation) under strace; this runner
turns every successful mutating system call of the operation phase, the before/after listings and
the victim check into log lines, and TLC validates each line against the monitor PathSafeProp
(PathSafeTrace).  A rejected line is reported, its scenario neutralised, validation continues.
"""
import concurrent.futures
import json
import os
import random
import re
import shutil
import subprocess
import threading
import time

import vlib

TRACE_SET = ("openat,open,creat,mkdirat,mkdir,unlinkat,unlink,rmdir,renameat,renameat2,rename,linkat,"
             "symlinkat,link,symlink,truncate,ftruncate,chmod,fchmodat,fchmod,chdir,fchdir,mknod,mknodat")
MARK = "/VERIF-C20-MARK/"
WRITE_FLAGS = ("O_WRONLY", "O_RDWR", "O_CREAT", "O_TRUNC", "O_APPEND", "O_TMPFILE")
LONG300 = "L" * 300
INV_LEX = {"nm": "name", "xf": "xfile", "xd": "xdir", LONG300: "long", "bs\\..\\..\\w": "bslash", "victim": "victim",
           "pwned.txt": "pwn", "out2": "sib2", "out.bak": "sibbak", "out-evil": "sibdir", "output.txt": "sibtxt"}
SIB = ("sib2", "sibbak", "sibdir", "sibtxt")
INV_LEX.update({".wh...": "whdd", ".wh..": "whdot", ".wh.": "wh", ".wh..wh..opq": "whopq", ".wh.xf": "whxf", ".. ": "ddsp",
                "...": "dots3", "nm.": "tdot"})
TRANSFORM = ("whdd", "whdot", "wh", "whopq", "whxf", "ddsp", "dots3", "tdot")
HEX64 = re.compile(r"^([0-9a-f]{64}|[0-9a-f]{128})$")
FIELDS = ("ep", "segs", "lead", "trail", "unpack", "strip", "ents", "op", "h", "place", "wm", "chk", "opt", "odir", "comp", "hdr", "pos")
DIMS_OF = {"art": ("odir", "comp", "hdr", "pos"), "tar": ("odir", "comp", "hdr"), "lnk": ("odir", "comp", "hdr"),
           "imp": ("odir", "comp", "hdr"), "lay": ("odir",)}
DEFAULT_DIMS = {"odir": "abs", "comp": "none", "hdr": "pax", "pos": "only"}


# ---------------------------------------------------------------------------- strace parsing
def unhex(s):
    return re.sub(r"\\x([0-9a-f]{2})", lambda m: chr(int(m.group(1), 16)), s)


def lex_segs(p):
    out = []
    for s in p.split("/"):
        if s in ("", "."):
            continue
        if s == "..":
            if out:
                out.pop()
            continue
        out.append(s)
    return out


def phys_path(p, follow_last):
    """physical location of p at parse time (the scratch tree still exists): parent resolved through
    links, last component kept unless the call follows it."""
    p = "/" + "/".join(x for x in p.split("/") if x != "") if p.startswith("/") else p
    base = os.path.basename(p)
    if follow_last or base in ("", ".", ".."):
        return os.path.realpath(p)
    return os.path.join(os.path.realpath(os.path.dirname(p)), base)


RET = re.compile(r"\)\s+= ")
TOK_FD = re.compile(r"^(AT_FDCWD|-?\d+)(?:<(.*)>)?$")
TOK_STR = re.compile(r'^"(.*)"(\.\.\.)?$')

# call -> (list of (dirfd arg index or None, path arg index), follow last component)
CALLS = {
    "mkdirat": ([(0, 1)], False), "mkdir": ([(None, 0)], False),
    "unlinkat": ([(0, 1)], False), "unlink": ([(None, 0)], False), "rmdir": ([(None, 0)], False),
    "renameat": ([(0, 1), (2, 3)], False), "renameat2": ([(0, 1), (2, 3)], False), "rename": ([(None, 0), (None, 1)], False),
    "linkat": ([(0, 1), (2, 3)], False), "link": ([(None, 0), (None, 1)], False),
    "symlinkat": ([(1, 2)], False), "symlink": ([(None, 1)], False),
    "mknodat": ([(0, 1)], False), "mknod": ([(None, 0)], False),
    "truncate": ([(None, 0)], True), "chmod": ([(None, 0)], True), "fchmodat": ([(0, 1)], True), "creat": ([(None, 0)], True),
}


def parse_strace(fn):
    """yield (call, ret_ok, [abs path strings], mode, fdpath) for path-taking calls; mode 'w' or 'r'; marker calls are
    yielded as ('MARK', n, what)."""
    pending = {}
    cwd = {}
    with open(fn, errors="replace") as f:
        for line in f:
            line = line.rstrip("\n")
            sp = line.find(" ")
            if sp < 0:
                continue
            tid, rest = line[:sp], line[sp:].lstrip()
            if rest.startswith(("+++", "---")):
                continue
            if rest.endswith("<unfinished ...>"):
                pending[tid] = rest[:-len("<unfinished ...>")].rstrip()
                continue
            if rest.startswith("<... "):
                k = rest.find("resumed>")
                if k < 0 or tid not in pending:
                    continue
                rest = pending.pop(tid) + rest[k + len("resumed>"):]
            par = rest.find("(")
            eqs = list(RET.finditer(rest))
            if par < 0 or not eqs:
                continue
            call = rest[:par]
            args = rest[par + 1:eqs[-1].start()].split(", ")
            ret = rest[eqs[-1].end():].strip()
            ok = not ret.startswith("-1") and not ret.startswith("?")

            def fdpath(tok):
                m = TOK_FD.match(tok.strip())
                if not m:
                    return None
                if m.group(2) is not None:
                    p = unhex(m.group(2))
                    if m.group(1) == "AT_FDCWD":
                        cwd[tid] = p
                    return p
                return cwd.get(tid) if m.group(1) == "AT_FDCWD" else None

            def strarg(tok):
                m = TOK_STR.match(tok.strip())
                return unhex(m.group(1)) if m else None

            def absolute(dfd_i, p_i):
                if p_i >= len(args):
                    return None
                p = strarg(args[p_i])
                if p is None:
                    return None
                if p.startswith("/"):
                    if dfd_i is not None and dfd_i < len(args):
                        fdpath(args[dfd_i])
                    return p
                base = fdpath(args[dfd_i]) if dfd_i is not None and dfd_i < len(args) else cwd.get(tid)
                if base is None:
                    base = cwd.get("*", "/")
                return base.rstrip("/") + "/" + p

            if call in ("chdir",) and ok:
                p = strarg(args[0])
                if p and p.startswith("/"):
                    cwd[tid] = p
                    cwd["*"] = p
                continue
            if call in ("openat", "open"):
                di, pi, fi = (0, 1, 2) if call == "openat" else (None, 0, 1)
                p = absolute(di, pi)
                if p is None:
                    continue
                flags = args[fi] if fi < len(args) else ""
                mode = "w" if any(x in flags for x in WRITE_FLAGS) else "r"
                real = None
                m = re.match(r"^(\d+)<(.*)>", ret)
                if m:
                    real = unhex(m.group(2))
                    if real.endswith(" (deleted)"):
                        real = real[:-len(" (deleted)")]
                yield (call, ok, [p], mode, real)
                continue
            if call in ("ftruncate", "fchmod"):
                p = fdpath(args[0])
                if p:
                    yield (call, ok, [p], "w", p)
                continue
            if call in CALLS:
                specs, _ = CALLS[call]
                paths = [absolute(d, p) for d, p in specs]
                if call in ("mkdirat", "mkdir") and paths[0] and paths[0].startswith(MARK):
                    parts = paths[0][len(MARK):].split("/")
                    if len(parts) == 2 and parts[0].isdigit():
                        yield ("MARK", int(parts[0]), parts[1], None, None)
                    continue
                paths = [p for p in paths if p]
                if paths:
                    yield (call, ok, paths, "w", None)


def events_for_chunk(args):
    """Build the log lines of one driver run.  Returns dict(lines=[...], stats)."""
    strace_fns, facts_fns, scn_by_id, tree_root, have_strace = args
    facts = {}
    for facts_fn in facts_fns:
        with open(facts_fn) as f:
            for ln in f:
                try:
                    x = json.loads(ln)
                except ValueError:
                    continue            # torn last line of a crashed driver
                if x.get("pre") and x["id"] in facts:
                    continue
                facts[x["id"]] = x
    missing = sorted(set(scn_by_id) - set(facts))
    if missing:
        raise vlib.ToolError("no record for scenarios %s" % missing[:10])
    for x in facts.values():
        if x.get("pre"):
            # the process died inside this operation: no listing; the victim's bytes are read here
            x["crashed"] = 1
            try:
                with open(os.path.join(x["guard"], "victim")) as vf:
                    x["victim_same"] = 1 if vf.read() == "VICTIM %d" % x["id"] else 0
            except OSError:
                x["victim_same"] = 0
    per = {}   # id -> list of sys/rd events
    stats = {"syscalls_seen": 0, "mutating_in_op": 0, "failed_mutating_in_op": 0, "reads_in_op": 0}
    if have_strace:
        cur, inop = None, False
        seen = set()
        for rec in (r for fn in strace_fns for r in list(parse_strace(fn)) + [("MARK", -1, "op-end", None, None)]):
            if rec[0] == "MARK":
                _, n, what, _, _ = rec
                if what == "op-begin":
                    cur, inop, seen = n, True, set()
                elif what == "op-end":
                    inop = False
                continue
            stats["syscalls_seen"] += 1
            if not inop:
                continue
            call, ok, paths, mode, real = rec
            if mode == "w" and not ok:
                stats["failed_mutating_in_op"] += 1
                continue
            if not ok:
                continue
            follow = call in ("openat", "open") or (call in CALLS and CALLS[call][1])
            for p in paths:
                if mode == "r":
                    ph = real or phys_path(p, True)
                    if not (ph == tree_root or ph.startswith(tree_root + "/")):
                        continue   # system files read by the runtime are not facts about the layout
                    key = ("rd", ph)
                    if key in seen:
                        continue
                    seen.add(key)
                    stats["reads_in_op"] += 1
                    per.setdefault(cur, []).append({"ev": "rd", "n": cur, "phys": lex_segs(ph), "raw": p})
                    continue
                ph = real if (real and call in ("openat", "open")) else phys_path(p, follow)
                key = (call, ph, p)
                if key in seen:
                    continue
                seen.add(key)
                stats["mutating_in_op"] += 1
                per.setdefault(cur, []).append({"ev": "sys", "n": cur, "call": call, "phys": lex_segs(ph), "lex": lex_segs(p), "raw": p})
    lines = []
    for sid in sorted(facts):
        fa = facts[sid]
        s = scn_by_id[sid]
        if fa.get("skipped"):
            raise vlib.ToolError("driver skipped scenario %d: %s" % (sid, fa["skipped"]))
        # the designated directory as the kernel sees it and as it was spelled (they differ when a parent is a link)
        allow = []
        for a in fa["allow"]:
            for form in (lex_segs(os.path.realpath(a)), lex_segs(a)):
                if form not in allow:
                    allow.append(form)
        hdr = {"ev": "scn", "n": sid, "allow": allow}
        for k in FIELDS:
            hdr[k] = s[k]
        lines.append(hdr)
        evs = per.get(sid, [])
        guard = os.path.realpath(fa["guard"])
        touched = []
        for e in evs:
            if e["ev"] == "rd" and s["ep"] not in ("lay", "imp"):
                continue
            lines.append(e)
            if e["ev"] == "sys":
                ph = "/" + "/".join(e["phys"])
                if ph == guard or ph.startswith(guard + "/"):
                    rel = [x for x in ph[len(guard):].split("/") if x]
                    mp = ["G"] + [("digest" if HEX64.match(x) else INV_LEX.get(x, x)) for x in rel]
                else:
                    mp = ["OUTSIDE"] + e["phys"]
                if mp not in touched:
                    touched.append(mp)
        for ch in fa.get("changes") or []:
            lines.append({"ev": "chg", "n": sid, "what": ch["what"], "path": lex_segs(os.path.realpath(os.path.dirname(ch["path"])) + "/" + os.path.basename(ch["path"]))})
        lines.append({"ev": "vic", "n": sid, "same": fa["victim_same"]})
        # (a tar header cannot carry a NUL: the code sees a truncated name, so those archives are not compared)
        nul_in_tar = s["ep"] in ("tar", "lnk") and any("nul" in e["n"] for e in s["ents"])
        if have_strace and s["ep"] in ("art", "tar", "lnk") and not nul_in_tar:
            lines.append({"ev": "obs", "n": sid, "touched": touched})
    return {"lines": lines, "stats": stats, "facts": facts}


# ---------------------------------------------------------------------------- the check
def strace_usable(ctx):
    if os.environ.get("VERIF_C20_NOSTRACE"):
        return False, "disabled by VERIF_C20_NOSTRACE (test of the fallback)"
    if not shutil.which("strace"):
        return False, "strace not installed"
    probe = ctx.path("c20", "probe.txt")
    try:
        r = subprocess.run(["strace", "-f", "--seccomp-bpf", "-y", "-xx", "-o", probe, "-e", "trace=mkdirat,mkdir", "mkdir",
                            ctx.path("c20", "probe-dir")], capture_output=True, text=True, timeout=30)
    except (OSError, subprocess.TimeoutExpired) as e:
        return False, "strace failed: %s" % e
    if r.returncode != 0 or not os.path.exists(probe) or "mkdir" not in open(probe).read():
        return False, "strace cannot trace here: " + r.stderr[-200:]
    return True, ""


def dummy_scn(allow):
    """a scenario header that only ends the previous scenario (scan logs, harness-tree facts)"""
    h = {"ev": "scn", "n": 0, "allow": allow, "ep": "-", "segs": [], "lead": 0, "trail": 0, "unpack": 0, "strip": 0, "ents": [],
         "op": "-", "h": "-", "place": "-", "wm": "-", "chk": 0, "opt": "-"}
    h.update(DEFAULT_DIMS)
    return h


def sig_of(s, detail):
    cls = detail.split(":")[0]
    if s["ep"] == "lay":
        return "lay:%s:%s/%s:%s" % (s["op"], s["place"], "wm" if s["wm"] != "none" else "nowm", cls)
    if s["ep"] == "art":
        return "art:unpack%d-strip%d:%s" % (s["unpack"], s["strip"], cls)
    if s["ep"] == "imp":
        return "imp:%s:%s" % (s["place"], cls)
    if s["ep"] == "lnk":
        return "extract:links:%s:%s" % ("+".join(e["k"] for e in s["ents"]), cls)
    return "extract:%s:%s" % (s["ents"][-1]["k"], cls)


def run(ctx):
    rng = random.Random(ctx.seed)
    ctx.build("c20drv")
    ctx.build_repo_cmd("./cmd/regctl", "regctl")
    have_strace, why = strace_usable(ctx)
    if not have_strace:
        vlib.log("C20: strace unavailable (%s); falling back to directory listings only" % why)

    # ---- (D): model checking in the background while scenarios are generated and executed
    mc_res = {}

    def mc():
        try:
            mc_res["main"] = ctx.tlc("PathSafeMC", "C20_mc.cfg" if ctx.thorough else "C20_mc_quick.cfg", workers=6,
                                     label="PathSafeMC: containment + step/closed-form agreement, whole scenario space", timeout=1500)
            for cfg, lab in (("C20_mc_s15.cfg", "switch: ManifestDelete without Validate (variant before fix 3b8373e, S15)"),
                             ("C20_mc_links.cfg", "what-if: links materialised behind a lexical guard"),
                             ("C20_mc_stripdots.cfg", "what-if: title cleaned by stripping leading ../"),
                             ("C20_mc_sibling.cfg", "what-if: Extract guards entries with a string prefix test"),
                             ("C20_mc_whiteout.cfg", "what-if: Extract applies whiteout markers by stripping the prefix")):
                r = ctx.tlc("PathSafeMC", cfg, workers=2, label=lab, allow_violation=True, timeout=600)
                if r["violated"] != "Containment":
                    raise vlib.ToolError("%s: the model no longer shows the expected containment violation" % cfg)
        except Exception as e:  # surfaced after join
            mc_res["error"] = e
    ctx._specdir()   # create the scratch copy of spec/ before threads race for it
    th = threading.Thread(target=mc)
    th.start()

    with concurrent.futures.ThreadPoolExecutor(max_workers=6) as ex:
        f_gen = ex.submit(ctx.tlc_scenarios, "PathSafeGen", "C20_gen.cfg" if ctx.thorough else "C20_gen_quick.cfg", workers=4,
                          label="scenario space of PathSafe", timeout=1500)
        f_links = ex.submit(ctx.tlc_scenarios, "PathSafeGen", "C20_gen_links.cfg", workers=2, label="link archives, verdict if materialised")
        f_dims = ex.submit(ctx.tlc_scenarios, "PathSafeGen", "C20_gen_dims.cfg", workers=1, label="secondary input dimensions")
        f_lay = ex.submit(ctx.tlc_scenarios, "PathSafeGen", "C20_gen_lay.cfg", workers=2,
                          label="layout scenarios, verdict of the model of the code")
        f_asis = ex.submit(ctx.tlc_scenarios, "PathSafeGen", "C20_gen_lay_asis.cfg", workers=2,
                           label="layout scenarios, verdict of the variant before the ManifestDelete fix (switch)")
        f_lex = ex.submit(ctx.tlc_scenarios, "PathSafeGen", "C20_gen_links_lex.cfg", workers=2,
                          label="link archives, verdict if materialised behind a lexical guard")
        gen, raw_links, asis, lex_links, lay = f_gen.result(), f_links.result(), f_asis.result(), f_lex.result(), f_lay.result()
    space = gen["scenarios"]
    combos = [{k: d[k] for k in DEFAULT_DIMS} for d in f_dims.result()["scenarios"]]
    combos.sort(key=lambda d: json.dumps(d, sort_keys=True))
    if len(combos) < 90:
        raise vlib.ToolError("secondary dimension space too small: %d" % len(combos))
    vlib.log("C20: %d scenarios generated at %.0fs" % (len(space), time.time() - ctx.t0))
    dangerous = {json.dumps(s["ents"], sort_keys=True) for s in raw_links["scenarios"] if s["esc"] == 1}
    subtle = {json.dumps(s["ents"], sort_keys=True) for s in lex_links["scenarios"] if s["esc"] == 1}
    if not subtle or not subtle <= dangerous or len(dangerous) < 500:
        raise vlib.ToolError("link archive classification by the model looks wrong: %d dangerous, %d subtle" % (len(dangerous), len(subtle)))
    asis_esc = {(s["op"], s["h"], s["place"], s["wm"], s["chk"]) for s in asis["scenarios"] if s["esc"] == 1}
    model_esc = {(s["op"], s["h"], s["place"], s["wm"], s["chk"]) for s in lay["scenarios"] if s["esc"] == 1}
    if model_esc or len(lay["scenarios"]) != len(asis["scenarios"]):
        raise vlib.ToolError("the model of the code says a layout scenario escapes: %s" % sorted(model_esc)[:3])
    if not asis_esc:
        raise vlib.ToolError("the ManifestDelete switch of the model no longer produces an escape")
    by = {}
    for s in space:
        by.setdefault(s["ep"], []).append(s)
    total = {k: len(v) for k, v in by.items()}
    if total.get("lay", 0) < 500 or total.get("art", 0) < 20000 or total.get("lnk", 0) < 5000:
        raise vlib.ToolError("scenario space too small: %s" % total)
    if any(s["esc"] for s in asis["scenarios"] if s["op"] != "ManifestDelete"):
        raise vlib.ToolError("the variant before the fix says a layout operation other than ManifestDelete escapes")

    def short(s):
        # always run: names of <= 2 segments and every name that reaches a sibling of the designated directory
        # ... and every name that is hostile only after a transformation (without the leading-slash duplicates)
        if any(c in TRANSFORM for c in s["segs"]):
            # (artifact get costs a process start: only the bare names there, the unpacked layer carries ".wh..." anyway)
            return s["lead"] == 0 and (s["ep"] != "art" or len(s["segs"]) == 1)
        return len(s["segs"]) <= 2 or any(c in SIB for c in s["segs"])
    if ctx.thorough:
        n_art, n_tar, n_lnk, n_imp = 14000, 12000, 0, 4000
    else:
        n_art, n_tar, n_lnk, n_imp = 500, 500, 200, 150
    chosen = list(by["lay"])
    chosen += [s for s in by["art"] if short(s)] + vlib.sample(rng, [s for s in by["art"] if not short(s)], n_art)
    chosen += [s for s in by["tar"] if short(s)] + vlib.sample(rng, [s for s in by["tar"] if not short(s)], n_tar)
    def key(s):
        return json.dumps(s["ents"], sort_keys=True)
    if ctx.thorough:
        chosen += by["lnk"]
    else:
        # every archive that defeats a lexical guard, every dangerous two-entry archive and every dangerous hard-link archive,
        # a sample of the dangerous chains, a sample of the harmless rest
        must_have = [s for s in by["lnk"] if key(s) in subtle or (key(s) in dangerous and (len(s["ents"]) == 2 or s["ents"][0]["k"] == "hard"))]
        chains = [s for s in by["lnk"] if key(s) in dangerous and s not in must_have]
        chosen += must_have + vlib.sample(rng, chains, 250) + vlib.sample(rng, [s for s in by["lnk"] if key(s) not in dangerous], n_lnk)
    imp_sib = [s for s in by["imp"] if s["lead"] == 0 and s["trail"] == 0 and
               (any(c in SIB for c in s["segs"]) or (len(s["segs"]) == 1 and s["segs"][0] in TRANSFORM))]
    chosen += imp_sib + vlib.sample(rng, [s for s in by["imp"] if s not in imp_sib], n_imp)
    rng.shuffle(chosen)
    # ---- secondary dimensions (spelling of the designated directory, compression, tar header format, layer position):
    # every scenario gets one combination of SecondaryDims (cycling through a seeded shuffle: each value of each dimension
    # and each pair of values meets many different names); the core scenarios additionally meet every spelling (quick)
    # or the whole product (thorough)
    rng.shuffle(combos)
    for i, s in enumerate(chosen):
        c = combos[i % len(combos)]
        for k in DIMS_OF[s["ep"]]:
            s[k] = c[k]

    def plain(s):
        return s["lead"] == 0 and s["trail"] == 0 and (len(s["segs"]) <= 1 or (len(s["segs"]) == 2 and s["segs"][1] in SIB))
    core = [s for s in chosen if (s["ep"] in ("art", "tar") and plain(s) and s["place"] == "-") or
            (s["ep"] == "lay" and (ctx.thorough or (s["op"] in ("BlobDelete", "BlobPut", "ManifestDelete", "ManifestPut") and
                                                    s["h"] in ("dd_enc", "dd_alg", "dd_enc5"))))]
    extra = []
    seen_variant = set()
    for s in core:
        dims = DIMS_OF[s["ep"]]
        if ctx.thorough:
            variants = {tuple(c[k] for k in dims) for c in combos}
        else:
            variants = {tuple(v if k == "odir" else DEFAULT_DIMS[k] for k in dims) for v in ("abs", "rel", "dot", "slash", "vialink")}
            variants |= {tuple(v if k == d else DEFAULT_DIMS[k] for k in dims) for d in dims for v in {c[d] for c in combos}}
        base = {k: v for k, v in s.items() if k not in DEFAULT_DIMS and k != "id"}
        for v in sorted(variants):
            if v == tuple(s[k] for k in dims):
                continue
            key2 = (json.dumps(base, sort_keys=True), v)
            if key2 in seen_variant:
                continue
            seen_variant.add(key2)
            t = dict(s)
            t.update(dict(zip(dims, v)))
            extra.append(t)
    chosen += extra
    rng.shuffle(chosen)
    for i, s in enumerate(chosen):
        s["id"] = i + 1
    scn_by_id = {s["id"]: s for s in chosen}

    # ---- execute under strace, one driver per chunk
    nchunks = 14 if ctx.thorough else 12
    tree_root = os.path.realpath(ctx.path("c20", "fs", "x"))[:-2]
    os.makedirs(tree_root, exist_ok=True)
    chunks = [chosen[i::nchunks] for i in range(nchunks)]
    jobs = []

    crashes = []

    def drive(i):
        ch = chunks[i]
        remaining = list(ch)
        sts, fcts = [], []
        for attempt in range(12):
            fn = ctx.path("c20", "scn-%d-%d.jsonl" % (i, attempt))
            with open(fn, "w") as f:
                for s in remaining:
                    f.write(json.dumps(s) + "\n")
            facts = ctx.path("c20", "facts-%d-%d.jsonl" % (i, attempt))
            st = ctx.path("c20", "strace-%d-%d.txt" % (i, attempt))
            argv = [os.path.join(ctx.bin, "c20drv"), "-in", fn, "-out", facts, "-root", os.path.join(tree_root, "w%d" % (i + 100 * attempt), "r"),
                    "-regctl", os.path.join(ctx.bin, "regctl")]
            if have_strace:
                argv = ["strace", "-f", "--seccomp-bpf", "-y", "-xx", "-s", "4300", "-o", st, "-e", "trace=" + TRACE_SET] + argv
            r = ctx.run(argv, timeout=3000, cwd=ctx.path("c20", "x")[:-2], check=False)
            sts.append(st)
            fcts.append(facts)
            if r.returncode == 0:
                break
            # the driver died (a panic in a goroutine of the code under test kills the process): not a verdict about
            # containment; note it, skip that scenario, go on with the rest
            last = None
            if os.path.exists(facts):
                for ln in open(facts):
                    try:
                        last = json.loads(ln)
                    except ValueError:
                        pass
            if last is None or not last.get("pre"):
                raise vlib.ToolError("driver failed rc=%d outside an operation:\n%s" % (r.returncode, r.stderr[-3000:]))
            crashes.append({"scenario": last["id"], "stderr": r.stderr[:400]})
            ids = [s["id"] for s in remaining]
            remaining = remaining[ids.index(last["id"]) + 1:]
            if not remaining:
                break
        else:
            raise vlib.ToolError("driver of chunk %d died more than 12 times" % i)
        return (sts, fcts, {s["id"]: s for s in ch}, tree_root, have_strace)

    with concurrent.futures.ThreadPoolExecutor(max_workers=nchunks) as ex:
        jobs = list(ex.map(drive, range(nchunks)))
    vlib.log("C20: %d scenarios executed at %.0fs" % (len(chosen), time.time() - ctx.t0))
    with concurrent.futures.ProcessPoolExecutor(max_workers=min(nchunks, 8)) as ex:
        built = list(ex.map(events_for_chunk, jobs))
    # nothing may have appeared next to the per-driver roots
    stray = sorted(x for x in os.listdir(tree_root) if not re.match(r"^w\d+$", x))
    if crashes:
        vlib.log("C20: the driver process died in %d scenarios (recorded, not judged): %s" % (len(crashes), crashes[0]["stderr"][:200]))

    # ---- validate: every log line against the monitor; rejected scenarios are neutralised
    stats = {"syscalls_seen": 0, "mutating_in_op": 0, "failed_mutating_in_op": 0, "reads_in_op": 0}
    logs = []
    all_facts = {}
    nlogs = 8 if ctx.thorough else 6
    merged = [[] for _ in range(nlogs)]
    for i, b in enumerate(built):
        for k in stats:
            stats[k] += b["stats"][k]
        all_facts.update(b["facts"])
        merged[i % nlogs] += b["lines"]
    for i, raw in enumerate(merged):
        if i == 0 and stray:
            raw.append(dummy_scn([lex_segs(tree_root) + ["w0"]]))
            for x in stray:
                raw.append({"ev": "chg", "n": 0, "what": "new", "path": lex_segs(tree_root) + [x]})
        lines = [{k: v for k, v in e.items() if k != "raw"} for e in raw]
        log = ctx.path("c20", "log-%d.ndjson" % i)
        with open(log, "w") as f:
            for e in lines:
                f.write(json.dumps(e, sort_keys=True) + "\n")
        logs.append((log, lines, raw))
    vlib.log("C20: %d log lines built at %.0fs" % (sum(len(x[1]) for x in logs), time.time() - ctx.t0))

    def write_log(fn, lines):
        with open(fn, "w") as f:
            for x in lines:
                f.write(json.dumps(x, sort_keys=True) + "\n")

    def scenario_span(lines, k):
        n = lines[k].get("n")
        a = k
        while a > 0 and lines[a].get("ev") != "scn":
            a -= 1
        b = k
        while b < len(lines) and lines[b].get("n") == n and (b == a or lines[b].get("ev") != "scn"):
            b += 1
        return a, b

    confirmed = {}          # signature -> True once a representative was rejected under the invariant configuration
    conf_lock = threading.Lock()

    def validate_log(item):
        """Standard validation (invariant).  On rejection: record it, then ONE scan pass over the rest of the log lists
        every further scenario whose latch TLC sets; per new signature one representative is confirmed under the
        invariant configuration, the others are counted under the confirmed signature."""
        log, lines, rawlines = item
        out, st, tr, drift = [], 0, 0, set()
        v = ctx.validate("PathSafeTrace", "C20_trace.cfg", log, timeout=3000)
        st += v["distinct"]
        tr += v["generated"]
        drift |= {int(x) for x in re.findall(r'<<"DRIFT", (\d+)>>', v["output"])}
        if v["accepted"]:
            return out, st, tr, drift, 0
        k = v["line"] - 1
        e = rawlines[k]
        detail = (v.get("detail") or v["reason"]).strip('"')
        n = e.get("n")
        out.append((detail, e, [x for x in rawlines if x.get("n") == n and x["ev"] in ("sys", "chg", "vic", "rd")], "invariant"))
        if n in scn_by_id:
            with conf_lock:
                confirmed[sig_of(scn_by_id[n], detail)] = True
        a, b = scenario_span(lines, k)
        rest = lines[b:]
        if not rest:
            return out, st, tr, drift, 1
        scan = log + ".scan"
        write_log(scan, rest + [dummy_scn([["-"]])])
        v2 = ctx.validate("PathSafeTrace", "C20_trace_scan.cfg", scan, timeout=3000)
        st += v2["distinct"]
        tr += v2["generated"]
        drift |= {int(x) for x in re.findall(r'<<"DRIFT", (\d+)>>', v2["output"])}
        if not v2["accepted"]:
            raise vlib.ToolError("scan pass did not reach the end of the log:\n" + v2["output"][-2000:])
        flagged = []
        for m in re.finditer(r'"REJECT\|(\d+)\|(\d+)\|(.*)"', v2["output"]):
            if (int(m.group(1)), m.group(3), int(m.group(2))) not in flagged:
                flagged.append((int(m.group(1)), m.group(3), int(m.group(2))))
        runs = 2
        for n2, detail2, at in flagged:
            idx = next(i for i, x in enumerate(lines) if x.get("n") == n2 and x["ev"] == "scn")
            a2, b2 = scenario_span(lines, idx)
            sg = sig_of(scn_by_id[n2], detail2) if n2 in scn_by_id else "harness-tree:stray"
            with conf_lock:
                need = sg not in confirmed
                confirmed[sg] = True
            how = "scan (signature confirmed under the invariant on another scenario)"
            ev = None
            if need:
                one = log + ".one"
                write_log(one, lines[a2:b2])
                v3 = ctx.validate("PathSafeTrace", "C20_trace.cfg", one, timeout=600)
                runs += 1
                st += v3["distinct"]
                tr += v3["generated"]
                if v3["accepted"]:
                    raise vlib.ToolError("scenario %d flagged by the scan pass is accepted under the invariant" % n2)
                ev = rawlines[a2 + v3["line"] - 1]
                detail2 = (v3.get("detail") or v3["reason"]).strip('"')
                how = "invariant"
            if ev is None:
                ev = rawlines[b + at - 1]       # the line at which TLC set the latch (scan log starts at lines[b])
            out.append((detail2, ev, [x for x in rawlines[a2:b2] if x["ev"] in ("sys", "chg", "vic", "rd")], how))
        return out, st, tr, drift, runs

    with concurrent.futures.ThreadPoolExecutor(max_workers=8) as ex:
        results = list(ex.map(validate_log, logs))
    vlib.log("C20: validated at %.0fs" % (time.time() - ctx.t0))
    th.join()
    vlib.log("C20: model checking joined at %.0fs" % (time.time() - ctx.t0))
    if "error" in mc_res:
        raise mc_res["error"]

    states = sum(r["distinct"] for r in ctx.tlc_runs)
    trans = sum(r["generated"] for r in ctx.tlc_runs)
    nlines = sum(len(x[1]) for x in logs)
    rejected_scn = set()
    drift = set()
    observed_escape_lay = set()
    for rej, st, tr, dr, _ in results:
        states += st
        trans += tr
        drift |= dr
    allrej = [x for res in results for x in res[0]]
    allrej.sort(key=lambda x: 0 if x[3] == "invariant" else 1)      # replay files come from invariant rejections
    for _ in (1,):
        for detail, e, same, how in allrej:
            if detail.startswith("tooling"):
                raise vlib.ToolError("malformed trace line: %s %s" % (detail, json.dumps(e)[:300]))
            n = e["n"]
            rejected_scn.add(n)
            if n == 0:
                ctx.report("harness-tree:stray", "new entries next to the driver roots: %s" % stray, {"stray": stray})
                continue
            s = scn_by_id[n]
            fa = all_facts[n]
            if s["ep"] == "lay":
                observed_escape_lay.add((s["op"], s["h"], s["place"], s["wm"], s["chk"]))
            hostile = bytes.fromhex(fa["input"]).decode("utf-8", "replace")
            where = e.get("raw") or "/" + "/".join(e.get("phys") or e.get("path") or [])
            what = "%s [%s %s on %r; designated %s]" % (detail, e["ev"], e.get("call", e.get("what", "")), where, fa["out"])
            scn_small = {k: s[k] for k in FIELDS}
            dims = " ".join("%s=%s" % (k, s[k]) for k in DIMS_OF[s["ep"]] if s[k] != DEFAULT_DIMS[k]) or "default dimensions"
            ctx.report(sig_of(s, detail), "%s; hostile input %r; %s" % (what, hostile[:120], dims),
                       {"scenario": scn_small, "hostile_input": hostile[:400], "rejected_event": e, "error_returned": fa["err"],
                        "designated": fa["out"], "facts_of_scenario": same[:40], "rejected_by": how})
    # agreement of the model of the code with the real code on layout scenarios (information, not a verdict); escapes the
    # code shows are matched against the switch DeleteValidates = FALSE (the variant before fix 3b8373e) to explain them
    model_vs_code = {"model_predicts_escape": len(model_esc), "code_escaped": len(observed_escape_lay),
                     "predicted_and_observed": len(model_esc & observed_escape_lay),
                     "observed_not_predicted": sorted(map(list, observed_escape_lay - model_esc))[:10],
                     "predicted_not_observed": sorted(map(list, model_esc - observed_escape_lay))[:10],
                     "switch_before_fix_predicts_escape": len(asis_esc),
                     "observed_explained_by_switch_before_fix": len(asis_esc & observed_escape_lay),
                     "observed_matches_switch_exactly": bool(observed_escape_lay) and observed_escape_lay == asis_esc}

    # ---- binding demos: corrupt one accepted fact, the monitor must reject
    clean = logs

    demo_lines = []
    demo_names = []

    def demo(name, pred, edit):
        lines = clean[0][1]
        for i, e in enumerate(lines):
            if pred(e):
                hdr = dict(next(x for x in reversed(lines[:i]) if x["ev"] == "scn"))
                hdr["n"] = 900000 + len(demo_names)
                e2 = json.loads(json.dumps(e))
                e2["n"] = hdr["n"]
                edit(e2, hdr)
                demo_lines.extend([hdr, e2])
                demo_names.append(name)
                return
        raise vlib.ToolError("binding demo %s: nothing to corrupt" % name)
    if have_strace:
        demo("sibling", lambda e: e["ev"] == "sys", lambda e, h: e.update(phys=h["allow"][0][:-1] + ["victim"]))
        demo("prefix-name", lambda e: e["ev"] == "sys", lambda e, h: e.update(phys=h["allow"][0][:-1] + [h["allow"][0][-1] + "2", "x"]))
        demo("lexical", lambda e: e["ev"] == "sys", lambda e, h: e.update(lex=["etc", "passwd"]))
        demo("read", lambda e: e["ev"] == "rd", lambda e, h: e.update(phys=h["allow"][0][:-1] + ["victim"]))
    demo("victim", lambda e: e["ev"] == "vic", lambda e, h: e.update(same=0))
    demo("listing", lambda e: e["ev"] == "chg", lambda e, h: e.update(path=h["allow"][0][:-1] + ["pwned.txt"]))
    p1 = ctx.path("c20", "demo-first.ndjson")
    write_log(p1, demo_lines[:2])
    if ctx.validate("PathSafeTrace", "C20_trace.cfg", p1)["accepted"]:
        raise vlib.ToolError("binding demo %s accepted under the invariant: the trace spec does not bind" % demo_names[0])
    p2 = ctx.path("c20", "demo-all.ndjson")
    write_log(p2, demo_lines + [dict(demo_lines[0], n=0)])
    vd = ctx.validate("PathSafeTrace", "C20_trace_scan.cfg", p2)
    got = {int(x) for x in re.findall(r'"REJECT\|(\d+)\|', vd["output"])}
    for i, name in enumerate(demo_names):
        if 900000 + i not in got:
            raise vlib.ToolError("binding demo %s not rejected: the trace spec does not bind" % name)

    ran = {}
    for s in chosen:
        ran[s["ep"]] = ran.get(s["ep"], 0) + 1
    panics = sorted({(scn_by_id[n]["op"], scn_by_id[n]["h"]) for n, fa in all_facts.items() if fa["panicked"]})
    errs = sum(1 for fa in all_facts.values() if fa["err"])
    samples = []
    for ep in ("art", "lnk", "lay"):
        s = next(x for x in chosen if x["ep"] == ep)
        samples.append({"scenario": {k: s[k] for k in FIELDS},
                        "hostile_input": bytes.fromhex(all_facts[s["id"]]["input"]).decode("utf-8", "replace")[:200],
                        "error_returned": all_facts[s["id"]]["err"][:160]})
    cov = {
        "states": states, "transitions": trans,
        "traces_validated_against_impl": len(chosen) - len(rejected_scn),
        "samples": samples,
        "evaluations": nlines,
        "distinct_nontrivial": len(chosen),
        "rule": "scenario = (entry point, hostile name as a class sequence <= 5 with leading / trailing slash flags | archive of "
                "<= 3 entries with symbolic / hard links | layout operation x hostile digest or tag class x placement x "
                "caller-supplied manifest) emitted by TLC from PathSafe; quick runs every layout scenario, every name of <= 2 "
                "segments, every link archive sample the model marks dangerous-if-materialised and a seeded sample of the rest; "
                "one log line per successful mutating system call of the operation phase (strace), per changed listing entry, "
                "per victim check",
        "exhaustive": False,
        "scenario_space": total, "scenarios_run": ran,
        "strace": bool(have_strace), "strace_note": "" if have_strace else "strace unavailable (%s): listings and victim check only" % why,
        "syscall_stats": stats, "operations_returning_error": errs,
        "panics_recorded_not_judged": [list(p) for p in panics],
        "process_crashes_recorded_not_judged": [dict(c, scenario={k: scn_by_id[c["scenario"]][k] for k in ("ep", "op", "h", "place", "wm")})
                                                for c in crashes[:10]],
        "drift_scenarios_vs_design_model": len(drift), "drift_sample": sorted(drift)[:10],
        "model_vs_code_layout": model_vs_code,
        "entry_points": ["regctl artifact get --output [--strip-dirs] (binary)", "archive.Extract", "regclient.ImageImport -> ocidir",
                         "ocidir via RegClient: BlobGet BlobHead BlobPut BlobDelete ManifestGet ManifestHead ManifestPut "
                         "ManifestDelete(+WithManifest, +WithManifestCheckReferrers) TagDelete TagList ReferrerList Close ImageCopy"],
    }
    assumptions = ["Linux path semantics; the designated directory contains no links placed there by the user (statement)",
                   "hostile strings are instances of the classes of PathSafe.tla (one lexeme per class); names longer than 5 "
                   "segments and other lexemes of a class are not tried",
                   "failed system calls outside the directory (e.g. ENOENT on a removed victim) are counted, not judged",
                   "reads are judged only for layout / import entry points and only below the harness tree"]
    return "model_checking", cov, assumptions

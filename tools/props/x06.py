"""X06 - base image check: regclient.ImageCheckBase / `regctl image check-base` (extra area).

(D) spec/CheckBase.tla transcribes the decision procedure of /repo/image.go ImageCheckBase branch by
branch over an abstract world of two small image graphs; the MEANING of the answer (spec/CheckBaseMeaning.tla:
Allowed / Judge, written from the statement) is checked by TLC to agree with the transcription on every
world within the bounds; three configurations re-create the as-found behaviour of the findings X06-1..3 and
four re-create design mutants - all seven must keep producing counterexamples.  spec/CheckBaseGen.tla
prints worlds (exhaustive core + a seeded random sample) with the design's expectation;
harness/cmd/x06drv builds each world on model registries, runs the REAL ImageCheckBase and records the
facts, the requests and the result; TLC validates all traces against the monitor (P)
spec/CheckBaseProp.tla through spec/CheckBaseTrace.tla.  Verdicts come only from rejected traces;
differences to the design's expectation are drift (evidence only).
"""
import concurrent.futures
import copy
import json
import os
import random
import re

import vlib

SANITY = {
    "X06_mc_known_fewer.cfg": "as found (X06-1): base longer than the image is a plain error",
    "X06_mc_known_created.cfg": "as found (X06-2): history entry without created panics",
    "X06_mc_known_noplat.cfg": "as found (X06-3): index entry without platform panics",
    "X06_mc_mut_lengthonly.cfg": "mutant: only the number of layers is compared",
    "X06_mc_mut_prefixreversed.cfg": "mutant: prefix test reversed",
    "X06_mc_mut_ignoreplatform.cfg": "mutant: first index entry instead of the platform",
    "X06_mc_mut_nohistory.cfg": "mutant: history never compared",
}
D_ACTIONS = ("AOpts", "AAnnot", "AParseRef", "ADigest", "AGetImg", "APlatImg", "AIsList", "ARetNext", "AGetBase",
             "APlatBase", "ACmpLayers", "ACfgImg", "ACfgBase", "ACmpHist")


def load_known_extra(ctx):
    """known.d/X06.json is merged into KNOWN_FINDINGS.json by tools/mkmanifest; until that has been
    run the fragment is read directly (same semantics: only status known suppresses)."""
    orig = ctx.load_known

    def merged():
        k = orig()
        try:
            with open(os.path.join(vlib.VERIF, "known.d", "X06.json")) as f:
                frag = json.load(f)
        except (OSError, ValueError):
            frag = []
        have = {x.get("id") for x in k.get("findings", [])}
        return {"findings": list(k.get("findings", [])) + [x for x in frag if x.get("id") not in have]}
    ctx.load_known = merged


def slug(s):
    return re.sub(r"[^a-z0-9]+", "-", s.lower()).strip("-")


def err_class(t):
    """input class of a rejected call: the error text of the real code with every name, digest and number
    removed (stable per return statement of ImageCheckBase), or for a panic which kind of content was there"""
    w = t["scenario"]["w"]
    e = t["meta"].get("err", "")
    if e.startswith("panic"):
        g = [w["img"], w["base"]]
        if any(h["nc"] == 1 for x in g for en in x["ents"] for h in en["hist"]) and "nil pointer" in e:
            if any(en["plat"] == "" for en in w["img"]["ents"]) and w["img"]["kind"] == "index":
                return "panic-nil-platform-or-created"
            return "panic-history-without-created"
        if any(en["plat"] == "" for en in w["img"]["ents"]) and w["img"]["kind"] == "index":
            return "panic-index-entry-without-platform"
        return "panic-other"
    if not e:
        return "nil"
    e = re.sub(r"sha256:[0-9a-f]+", "", e)
    e = re.sub(r"(img|base)\.test/\S*", "", e)
    e = re.sub(r"platform \S+ mismatch: ", "", e)
    e = re.sub(r"[\[{].*", "", e)
    e = re.sub(r"\d+", "", e)
    return slug(e)[:60] or "error"


def features(s, t):
    w = s["w"]
    f = {"img:" + w["img"]["kind"], "base:" + w["base"]["kind"], "fault:" + w["fault"], "rk:" + s["rk"],
         "opt.ref:%d" % w["opt"]["ref"], "opt.dig:" + (w["opt"]["dig"] or "-"), "opt.skip:%d" % w["opt"]["skip"],
         "opt.plat:" + (w["opt"]["plat"] or "-"), "ann:" + w["img"]["ann"]}
    f.add("result:" + [e for e in t["events"] if e["ev"] == "done"][0]["res"])
    return f


def run(ctx):
    load_known_extra(ctx)
    rng = random.Random(ctx.seed)
    ctx.build("x06drv")
    thorough = ctx.thorough
    lvl = "2" if thorough else ""

    # 1. TLC: the transcription agrees with the meaning; model sanity; generators
    n_rand = 9000 if thorough else 900
    jobs = {
        "mc": lambda: ctx.tlc("CheckBase", "X06_mc_quick.cfg", workers=4,
                              label="(D) agrees with the meaning on every world, pools of level 1, repaired behaviour"),
        "core": lambda: ctx.tlc_scenarios("CheckBaseGen", "X06_gen_core%s.cfg" % lvl, workers=1, extra=["-coverage", "1"],
                                          label="generator: every world without refusal / digest option"),
        "rand": lambda: ctx.tlc_scenarios("CheckBaseGen", "X06_gen_rand%s.cfg" % lvl, workers=1,
                                          simulate="num=%d" % n_rand, depth=40, extra=["-seed", str(ctx.seed)],
                                          label="generator: random worlds (refusals, digest options)"),
    }
    if thorough:
        jobs["mc2"] = lambda: ctx.tlc("CheckBase", "X06_mc_t1.cfg", workers=6, timeout=3000,
                                      label="(D) agrees with the meaning on every world, pools of level 2")
    for cfg in SANITY:
        jobs[cfg] = (lambda c: lambda: ctx.tlc("CheckBase", c, workers=2, allow_violation=True, record=False,
                                               label="expected counterexample " + c))(cfg)
    res = {}
    with concurrent.futures.ThreadPoolExecutor(max_workers=3) as ex:      # shared machine: few JVMs at a time
        futs = {k: ex.submit(f) for k, f in jobs.items()}
        for k, f in futs.items():
            res[k] = f.result()
    mcs = [res[k] for k in ("mc", "mc2") if k in res]
    states = sum(r["distinct"] for r in mcs)
    trans = sum(r["generated"] for r in mcs)
    sanity = {}
    for cfg in SANITY:
        r = res[cfg]
        if r["violated"] != "Holds":
            raise vlib.ToolError("model sanity: %s did not violate Holds (%s)" % (cfg, r["violated"]))
        m = re.findall(r'/\\ res = "([^"]*)"', r["output"])
        sanity[cfg] = "%s; design answers %s" % (SANITY[cfg], m[-1] if m else "?")
    taken = {}
    for m in re.findall(r"^<(A[A-Za-z]+) line [^>]*>: \d+:(\d+)", res["core"]["output"], re.M):
        taken[m[0]] = taken.get(m[0], 0) + int(m[1])
    never = [a for a in D_ACTIONS if taken.get(a, 0) == 0]
    if never:
        raise vlib.ToolError("actions of the design spec never taken: %s" % never)

    # 2. worlds
    seen = set()
    scns = []
    for src in ("core", "rand"):
        for s in res[src]["scenarios"]:
            k = json.dumps(s["w"], sort_keys=True)
            if k in seen:
                continue
            seen.add(k)
            s["src"] = src
            scns.append(s)
    if not thorough:
        # quick: a seeded half of the exhaustive core (every world with a history without created / an entry
        # without platform / a base longer than the image is kept: the classes of the recorded findings)
        def directed(w):
            g = [w["img"], w["base"]]
            return (any(h["nc"] == 1 for x in g for en in x["ents"] for h in en["hist"])
                    or (w["img"]["kind"] == "index" and any(en["plat"] == "" for en in w["img"]["ents"]))
                    or any(len(en["layers"]) > 2 for en in w["base"]["ents"]))
        scns = [s for s in scns if s["src"] != "core" or directed(s["w"]) or rng.random() < 0.5]
    if len(scns) < 500:
        raise vlib.ToolError("generator produced only %d worlds" % len(scns))
    for i, s in enumerate(scns):
        s["id"] = "%s-%d" % (s["src"], i)
        s["rk"] = "dig" if rng.random() < 0.3 else "tag"
    fin = ctx.path("x06", "worlds.jsonl")
    with open(fin, "w") as f:
        for s in scns:
            f.write(json.dumps({"id": s["id"], "rk": s["rk"], "w": s["w"]}) + "\n")
    out = ctx.path("x06", "traces.jsonl")
    ctx.run(["x06drv", "-in", fin, "-out", out, "-workers", str(min(8, os.cpu_count() or 4))], timeout=1200)

    # 3. traces; drift against the design's expectation
    by_id = {s["id"]: s for s in scns}
    traces, errors = [], []
    drift, drift_samples = {}, []
    hist_res = {}
    cov = set()
    nreq = 0
    with open(out) as f:
        for line in f:
            if not line.strip():
                continue
            t = json.loads(line)
            s = by_id[t["id"]]
            if t.get("meta", {}).get("error"):
                errors.append("%s: %s" % (t["id"], t["meta"]["error"][:300]))
                continue
            done = [e for e in t["events"] if e["ev"] == "done"][0]
            hist_res[done["res"]] = hist_res.get(done["res"], 0) + 1
            nreq += len(t["events"]) - 1
            cov |= features(s, t)
            # the world read back from the registries is the world asked for (else the driver is broken)
            for g in ("img", "base"):
                want = copy.deepcopy(s["w"][g])
                if g == "base":
                    want["ann"] = "none"
                elif s["w"]["base"]["kind"] == "missing":
                    # nothing is current when the base reference resolves to nothing: the driver reads "old"
                    want["ann"] = "old" if want["ann"] == "cur" else want["ann"]
                    for en in want["ents"]:
                        en["ann"] = "old" if en["ann"] == "cur" else en["ann"]
                if t["header"][g] != want:
                    errors.append("%s: world read back differs in %s: %s vs %s" % (t["id"], g, t["header"][g], want))
            d = None
            if done["res"] != s["exp"]["res"]:
                d = "result:%s-for-%s" % (done["res"], s["exp"]["res"])
            elif t["meta"]["reqs"] != s["exp"]["reqs"]:
                d = "requests"
            if d:
                drift[d] = drift.get(d, 0) + 1
                if len(drift_samples) < 6:
                    drift_samples.append({"id": t["id"], "drift": d, "reqs": t["meta"]["reqs"], "exp": s["exp"]})
            traces.append({"id": t["id"], "header": t["header"], "events": t["events"], "meta": t["meta"],
                           "scenario": {"id": s["id"], "rk": s["rk"], "w": s["w"], "exp": s["exp"]}})
    if errors:
        raise vlib.ToolError("driver could not run %d worlds, e.g. %s" % (len(errors), "; ".join(errors[:3])))
    if len(traces) != len(scns):
        raise vlib.ToolError("driver returned %d traces for %d worlds" % (len(traces), len(scns)))

    # traces the design expects to be rejected (classes of the recorded findings) go into a batch of their own,
    # capped: every rejection costs one TLC run
    def expected_bad(t):
        return t["scenario"]["exp"]["res"] == "panic" or err_class(t) in (
            "image-has-fewer-layers-than-base-image", "image-has-fewer-history-entries-than-base-image")
    kf = [t for t in traces if expected_bad(t)]
    kf_run = []
    per_class = {}
    for t in kf:
        c = err_class(t)
        per_class[c] = per_class.get(c, 0) + 1
        if per_class[c] <= (6 if thorough else 2):
            kf_run.append(t)
    rest = [t for t in traces if not expected_bad(t)]
    accepted, rejected = ctx.validate_batch("CheckBaseTrace", "X06_trace.cfg", rest, timeout=3000, max_reports=30)
    if kf_run:
        a2, r2 = ctx.validate_batch("CheckBaseTrace", "X06_trace.cfg", kf_run, timeout=3000, max_reports=60)
        accepted += a2
        rejected += r2
    for r in rejected:
        t = r["trace"]
        ob = (r["detail"] or "").strip('"') or r["reason"]
        sig = "x06:%s:%s" % (ob, err_class(t))
        w = t["scenario"]["w"]
        what = "%s: ImageCheckBase(%s, opt=%s) answered %s (%s); image %s/%s, base %s, refusal %s (trace %s)" % (
            ob, t["meta"]["ref"], json.dumps(w["opt"], sort_keys=True), t["events"][-1]["res"], t["meta"]["err"][:160],
            w["img"]["kind"], w["img"]["ann"], w["base"]["kind"], w["fault"], t["id"])
        ctx.report(sig, what, {"scenario": t["scenario"], "header": t["header"], "events": t["events"],
                               "rejected_at": r["line"], "cmd": "tools/check X06 --replay <this file>"})

    # 4. binding demo: corrupted traces must be rejected
    rej_ids = {r["trace"]["id"] for r in rejected}

    def pick(pred):
        for t in rest:
            if t["id"] not in rej_ids and pred(t):
                return t
        raise vlib.ToolError("no accepted trace for a binding demo")

    def res_of(t):
        return t["events"][-1]["res"]

    def demo(name, base, fn):
        m = copy.deepcopy(base)
        m["id"] = "demo-" + name
        fn(m)
        a, rj = ctx.validate_batch("CheckBaseTrace", "X06_trace.cfg", [m])
        if not rj:
            raise vlib.ToolError("binding demo %s was accepted: the trace spec does not bind" % name)
        return 1

    nofault = lambda t: t["scenario"]["w"]["fault"] == "none"      # noqa: E731
    demos = 0
    demos += demo("mismatch-reported-as-nil", pick(lambda t: res_of(t) == "mismatch" and nofault(t)),
                  lambda m: m["events"][-1].update(res="nil"))
    demos += demo("nil-reported-as-mismatch", pick(lambda t: res_of(t) == "nil"),
                  lambda m: m["events"][-1].update(res="mismatch"))
    demos += demo("write-request", pick(lambda t: res_of(t) == "nil"),
                  lambda m: m["events"][0].update(method="PUT"))
    if thorough:
        demos += demo("refusal-ignored", pick(lambda t: any(e.get("refused") == 1 for e in t["events"])),
                      lambda m: m["events"][-1].update(res="nil"))
        demos += demo("registry-changed", pick(lambda t: res_of(t) == "nil"),
                      lambda m: m["events"][-1].update(mutated=1))
        demos += demo("other-platform-layer", pick(lambda t: res_of(t) == "nil" and t["scenario"]["w"]["opt"]["dig"] == ""
                                                   and t["header"]["img"]["ann"] in ("none", "name") and nofault(t)),
                      lambda m: [e.update(layers=["q"] + e["layers"]) for e in m["header"]["base"]["ents"]])

    sample = [{"id": t["id"], "ref": t["meta"]["ref"], "opt": t["scenario"]["w"]["opt"], "requests": t["meta"]["reqs"],
               "result": res_of(t), "error": t["meta"]["err"][:120]} for t in traces[:1] + traces[-1:]]
    coverage = {
        "states": states, "transitions": trans,
        "traces_validated_against_impl": accepted,
        "rejected": len(rejected),
        "evaluations": len(traces),
        "worlds_by_source": {k: sum(1 for s in scns if s["src"] == k) for k in ("core", "rand")},
        "requests_observed": nreq,
        "result_histogram": hist_res,
        "known_finding_traces": {"found": per_class, "validated": len(kf_run)},
        "coverage_classes": sorted(cov),
        "design_drift": drift, "design_drift_samples": drift_samples,
        "model_sanity_counterexamples": sanity,
        "design_actions_taken": taken,
        "binding_demos_rejected": demos,
        "samples": sample,
        "rule": "a trace = one call of the real ImageCheckBase in one world (image graph, base graph, options, refused "
                "resource class) built on two model registries",
        "exhaustive": False,
        "entry_points": ["regclient.ImageCheckBase"],
    }
    assumptions = [
        "exhaustive only within the pools of CheckBase.tla (level 1: 4 single images, 2 two-platform indexes, 6+5 base graphs, "
        "4 annotation states; level 2 in the thorough tier) - layers over a six letter alphabet, histories of <= 4 entries",
        "one base reference; platforms are three distinct os/arch pairs compared exactly (variant compatibility: C16)",
        "a refusal is persistent: every request for a resource of the chosen class is answered 403",
        "nested indexes, docker schema1/2 media types and ocidir:// references are not in the worlds",
    ]
    if drift:
        vlib.log("X06: design-spec drift (not a violation): %s" % drift)
    return "model_checking", coverage, assumptions

"""C14 - copy transfers only what the target lacks.

(D) spec/ImageCopy.tla is model checked fault-free with the request counters of (P) for every
subset of the image pre-existing at the target, every pairing and mount granted / refused;
TLC-generated schedules and a matrix over shapes, pairings, pre-existing subsets and tag states
(default options, plus the other option sets for the rules that are independent of them) run on the
real regclient.ImageCopy; the request log of the model registries is judged by TLC against the
C14 obligations of (P) spec/CopyProp.tla (counters at the end of every successful fault-free run).
See design.d/C03-C04-C14.md.
"""
from props import copy_common as cc
import vlib


def run(ctx):
    e = cc.Engine(ctx, "C14")
    e.setup()
    cc.check_shapes(e)
    if ctx.replay:
        pairs, acc, rej = cc.replay(e)
        return "model_checking", {"traces_validated_against_impl": acc, "rejected": len(rej), "replayed": 1,
                                  "states": 0, "transitions": 0}, []
    th = ctx.thorough
    rng = e.rng

    runs = [("ImageCopyMC", "C14_mc_quick.cfg", "img / empty / schema1 / inline: every pre-existing subset x 6 pairings x mount on/off x 3 tag states, reduced", {}),
            ("ImageCopyMC", "C14_mc_quick2.cfg", "dup / idx2 / docker: corner targets x 3 registry pairings x mount on/off x 3 tag states, reduced", {}),
            ("ImageCopyMC", "C14_mc_opts.cfg", "idx2 / dtag: referrers / digest tags / both / platforms / fast-check x corner targets (incl. the identical image) x 2 tag states, reduced", {})]
    if th:
        runs += [("ImageCopyMC", "C14_mc_t3.cfg", "img / schema1, every pre-existing subset, mount on/off, 1 fault (transient faults absorbed), full interleaving", {"timeout": 3000}),
                 ("ImageCopyMC", "C14_mc_t1.cfg", "6 shapes incl. idx2 / docker: every pre-existing subset x 6 pairings x mount on/off x 3 tag states, reduced", {"timeout": 3000}),
                 ("ImageCopyMC", "C14_mc_t2.cfg", "14 shapes x 6 pairings x mount on/off x corner targets x 3 tag states, reduced", {"timeout": 3000})]
    mc, states, trans = cc.run_mc(ctx, runs)

    scripts = cc.tlc_scripts(e, "C14_gen.cfg", 1200 if th else 250, "tlc")
    default_only = lambda o: not o
    mx = e.matrix(e.shapes, cc.PAIRS, 64 if th else 10, ["random", "fifo", "ungated"], "min", opt_filter=default_only, full=th)
    mx2 = e.matrix(e.shapes, cc.PAIRS, 4, ["random", "ungated"], "min-opts", opt_filter=lambda o: bool(o))
    keyf = [lambda s: (s["shape"], s["pair"], s["mount"]), lambda s: (s["shape"], s["tag0"], len(s["init"])),
            lambda s: (s["shape"], cc.optsig(s)), lambda s: (s["pair"], s["mode"], s["conc"])]
    mx = cc.cover_sample(rng, mx, 16000 if th else 1650, keyf)
    mx2 = cc.cover_sample(rng, mx2, 3000 if th else 400, keyf)
    # the corner cases the statement names: retag, identical image, everything mountable
    extra = []
    for sh in e.shapes:
        allnames = e.names(sh)
        for tag0 in ("none", "stale", "same"):
            extra.append(e.scn(sh, "samerepo", "retag", tag0=tag0))
        for pr in ("tworeg", "samereg", "reg2dir", "dir2reg", "dir2dir"):
            extra.append(e.scn(sh, pr, "identical", init=allnames, tag0="same"))
            extra.append(e.scn(sh, pr, "all-but-tag", init=allnames, tag0="stale"))
        for m in (0, 1):
            extra.append(e.scn(sh, "samereg", "mount", mount=m))
    # transient, retryable faults (429 / 500 / connection reset, fewer than the retry limit) have to be absorbed
    # without changing what is transferred: one such fault at every request position of runs whose target already
    # holds some / all of the blobs
    base = []
    for sh in e.shapes:
        blobs = [n["name"] for n in e.cat[sh]["nodes"] if n["kind"] == "blob"]
        for pr in ("tworeg", "samereg", "dir2reg", "reg2dir"):
            for init in ([blobs, blobs[::2]] if th else [rng.choice([blobs, blobs[::2], blobs[1::2] or blobs])]):
                base.append(e.scn(sh, pr, "tbase", init=sorted(init), mode="fifo", mount=rng.choice([0, 1]),
                                  tag0=rng.choice(["none", "stale"])))
    # (round 5) ... nor may they turn a mount the registry grants into a transfer, or make a copy onto the identical
    # image write: same registry with every mount granted (target empty / holding some blobs), and the repeat copy
    for sh in e.shapes:
        blobs = [n["name"] for n in e.cat[sh]["nodes"] if n["kind"] == "blob"]
        for init in ([[], blobs[::2]] if th else [rng.choice([[], [], blobs[1::2]])]):
            base.append(e.scn(sh, "samereg", "tbase-mount", init=sorted(init), mode="fifo", mount=1, mirror="", prior="",
                              tag0=rng.choice(["none", "stale"]), conc=rng.choice([1, 3, 16])))
        if th or sh in cc.INDEX_SHAPES + ["img", "art"]:
            opts = rng.choice([{}, {"referrers": 1}, {"dtags": 1}])
            base.append(e.scn(sh, rng.choice(["tworeg", "samereg", "dir2reg"]), "tbase-repeat", opts=opts, prior="recopy-other", wipe="",
                              mode="fifo", mirror="", cache=0))
    bres = e.run(base, "transient baselines")
    tr = e.sweep(bres, lambda p: cc.RETRYABLE_ALL if p["class"] == "mount_post" else [rng.choice(cc.RETRYABLE), rng.choice(cc.RETRYABLE_ALL)],
                 "transient", cancel=False, death=False)
    tr = cc.cover_sample(rng, tr, 9000 if th else 800,
                         [lambda s: (s["shape"], s["pair"], s["faults"][0]["class"]), lambda s: (s["faults"][0]["class"], s["faults"][0]["kind"]),
                          lambda s: (s["shape"], s["faults"][0]["class"] == "blob_head", s["faults"][0]["n"]),
                          lambda s: (s["shape"], s["faults"][0]["class"] == "mount_post", s["faults"][0]["n"]),
                          lambda s: (s["origin"], s["shape"] in cc.INDEX_SHAPES, s["faults"][0]["kind"])])
    # a registry that decides mounts per request: declines the k-th mount it sees, or the mount of one blob,
    # and grants the others - every mount it would grant has to be asked for
    mp = []
    for sh in e.shapes:
        blobs = [n["name"] for n in e.cat[sh]["nodes"] if n["kind"] == "blob"]
        for k in ([1, 2, 3] if th else [1, 2]):
            for conc in (1, 3, 16):
                mp.append(e.scn(sh, "samereg", "mountpolicy", mount=1, mount_decline_k=[k], conc=conc,
                                mode=rng.choice(["random", "fifo", "ungated"]), tag0=rng.choice(["none", "stale"])))
        for b in (blobs if th else rng.sample(blobs, min(2, len(blobs)))):
            mp.append(e.scn(sh, "samereg", "mountpolicy", mount=1, mount_decline_n=[b], conc=rng.choice([1, 3, 16]),
                            mode=rng.choice(["random", "fifo", "ungated"])))
    # (round 5) the periodic re-sync: every shape x option set copied a second time onto the result of the first
    rp = e.repeats("repeat") + (e.repeats("repeat") + e.repeats("repeat") if th else [])
    res = bres + e.run(scripts + mx + mx2 + extra + tr + mp + rp + e.round4("round4"), "minimal")

    acc, rej = e.validate(res, "C14", max_reports=40)
    e.check_stalls()
    demos = e.binding_demo(res) if not ctx.violations else []

    cov = cc.summarize(res)
    cov["preparation_copies_that_did_not_return"] = {"count": len(e.prior_hangs), "first": e.prior_hangs[:3]}
    cov.update({
        "states": states, "transitions": trans, "traces_validated_against_impl": acc, "rejected": len(rej),
        "samples": cc.samples_of(res), "evaluations": len(res), "distinct_nontrivial": cov.pop("distinct"),
        "rule": "an evaluation = one fault-free ImageCopy on the real code whose complete request log (model registries) is "
                "counted: source blob GETs, blob pushes, mounts, manifest PUTs, writes; distinct = distinct (configuration, "
                "request sequence)",
        "exhaustive": False, "model_vs_code": cc.model_agreement(res), "binding_demos": demos,
        "entry_points": cc.ENTRY_POINTS,
    })
    return "model_checking", cov, cc.ASSUMPTIONS

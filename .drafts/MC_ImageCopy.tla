---- MODULE MC ----
EXTENDS ImageCopy
CONSTANTS I, M1, M2, C1, C2, L
IsManifestC == (I :> TRUE) @@ (M1 :> TRUE) @@ (M2 :> TRUE) @@ (C1 :> FALSE) @@ (C2 :> FALSE) @@ (L :> FALSE)
ChildrenC == (I :> {M1, M2}) @@ (M1 :> {C1, L}) @@ (M2 :> {C2, L}) @@ (C1 :> {}) @@ (C2 :> {}) @@ (L :> {})
====

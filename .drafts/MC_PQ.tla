---- MODULE MC_PQ ----
EXTENDS PQueue
CONSTANTS p1, p2, p3, q1, q2
MaxC == (q1 :> 1) @@ (q2 :> 1)
WantC == (p1 :> <<q1, q2>>) @@ (p2 :> <<q2, q1>>) @@ (p3 :> <<q1>>)
ModeC == (p1 :> "multi") @@ (p2 :> "multi") @@ (p3 :> "acq")
====

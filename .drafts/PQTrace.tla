---- MODULE PQTrace ----
EXTENDS PQueue, Json
CONSTANTS p1, p2, p3, q1, q2
MaxC == (q1 :> 1) @@ (q2 :> 1)
WantC == (p1 :> <<q1>>) @@ (p2 :> <<q1>>) @@ (p3 :> <<q1>>)
ModeC == (p1 :> "acq") @@ (p2 :> "acq") @@ (p3 :> "acq")
PM == [p1 |-> p1, p2 |-> p2, p3 |-> p3]
TraceLog == ndJsonDeserialize("trace.ndjson")
VARIABLE l
tvars == <<vars, l>>
TInit == Init /\ l = 1
Ev(k) == l <= Len(TraceLog) /\ TraceLog[l].ev = k /\ l' = l + 1
P == PM[TraceLog[l].p]
TNext ==
  \/ Ev("enter") /\ AcqEnter(P) /\ Cardinality(active'[q1]) = TraceLog[l].active /\ Len(queued'[q1]) = TraceLog[l].queued
  \/ Ev("wake") /\ RecvWake(P)
  \/ Ev("release") /\ Release(P) /\ Cardinality(active'[q1]) = TraceLog[l].active
  \/ Ev("cancel_rm") /\ CancelCS(P) /\ pc'[P] = "failed"
  \/ Ev("cancel_pass") /\ CancelCS(P) /\ pc'[P] = "passon"
  \/ Ev("passon") /\ PassOn(P)
  \* unlogged: ctx cancellation and the select taking the ctx branch
  \/ (\E p \in Procs : Cancel(p) \/ SelectCancel(p)) /\ UNCHANGED l
TSpec == TInit /\ [][TNext]_tvars
HW == TLCSet(1, IF TLCGet(1) > l THEN TLCGet(1) ELSE l)
Accepted == TLCGet(1) = Len(TraceLog) + 1
ASSUME TLCSet(1, 0)
====

------------------------------ MODULE ImageCopy ------------------------------
EXTENDS Naturals, FiniteSets, Sequences, TLC
CONSTANTS Nodes, IsManifest, Children, Root, InitTgt, InitTag, MaxFaults, None
VARIABLES pc, owner, seen, tgt, tag, faults, cancelled, log
vars == <<pc, owner, seen, tgt, tag, faults, cancelled, log>>

Top == <<None, Root>>
Tasks == {Top} \cup {<<p, c>> : p \in {n \in Nodes : IsManifest[n]}, c \in Nodes} 
RealTasks == {Top} \cup {t \in Tasks : t[1] # None /\ t[2] \in Children[t[1]]}
Node(t) == t[2]
Kids(t) == {<<Node(t), c>> : c \in Children[Node(t)]}
Fin == {"ret_ok", "ret_err"}
\* spawner of a task: the (unique running) task whose node is t[1] and that reached spawn
Parent(t) == CHOOSE s \in RealTasks : Node(s) = t[1] /\ pc[s] \in {"wait", "put", "ret_ok", "ret_err"} /\ owner[Node(s)] = s
Ancestors(t) == LET RECURSIVE A(_)
                    A(x) == IF x = Top THEN {} ELSE {Parent(x)} \cup A(Parent(x))
                IN A(t)
EffCancel(t) == \E a \in Ancestors(t) \cup {t} : cancelled[a]

Init == /\ pc = [t \in RealTasks |-> IF t = Top THEN "head" ELSE "idle"]
        /\ owner = [n \in Nodes |-> None]
        /\ seen = [n \in Nodes |-> "none"]
        /\ tgt = InitTgt
        /\ tag = InitTag
        /\ faults = 0
        /\ cancelled = [t \in RealTasks |-> FALSE]
        /\ log = <<>>

\* a request either succeeds, or fails by injected fault, or fails because ctx is cancelled
ReqOK(t) == ~EffCancel(t)
MayFault == faults < MaxFaults
Fail(t) == /\ pc' = [pc EXCEPT ![t] = "ret_err"]
           /\ seen' = IF owner[Node(t)] = t THEN [seen EXCEPT ![Node(t)] = "none"] ELSE seen
           /\ owner' = IF owner[Node(t)] = t THEN [owner EXCEPT ![Node(t)] = None] ELSE owner

SeenStep(t) ==
  /\ pc[t] = "seen"
  /\ LET n == Node(t) IN
     CASE seen[n] = "none" -> /\ seen' = [seen EXCEPT ![n] = "inprog"]
                              /\ owner' = [owner EXCEPT ![n] = t]
                              /\ pc' = [pc EXCEPT ![t] = "head"]
       [] seen[n] = "ok"   -> /\ pc' = [pc EXCEPT ![t] = "ret_ok"] /\ UNCHANGED <<seen, owner>>
       [] seen[n] = "inprog" -> /\ pc' = [pc EXCEPT ![t] = "wait_seen"] /\ UNCHANGED <<seen, owner>>
  /\ UNCHANGED <<tgt, tag, faults, cancelled, log>>

WaitSeen(t) ==
  /\ pc[t] = "wait_seen"
  /\ \/ /\ seen[Node(t)] = "ok" /\ pc' = [pc EXCEPT ![t] = "ret_ok"]
     \/ /\ seen[Node(t)] = "none" /\ pc' = [pc EXCEPT ![t] = "ret_err"]  \* copier failed
     \/ /\ EffCancel(t) /\ pc' = [pc EXCEPT ![t] = "ret_err"]
  /\ UNCHANGED <<owner, seen, tgt, tag, faults, cancelled, log>>

HeadTgt(t) ==
  /\ pc[t] = "head"
  /\ \/ /\ ReqOK(t)
        /\ IF t = Top
           THEN pc' = [pc EXCEPT ![t] = IF tag = Root THEN "ret_ok" ELSE "get"]  \* head src folded in
           ELSE pc' = [pc EXCEPT ![t] = IF Node(t) \in tgt THEN "done_ok" ELSE "get"]
        /\ UNCHANGED <<seen, owner, faults>>
     \/ /\ (MayFault \/ EffCancel(t)) /\ Fail(t) /\ faults' = IF EffCancel(t) THEN faults ELSE faults + 1
  /\ UNCHANGED <<tgt, tag, cancelled, log>>

GetSrc(t) ==
  /\ pc[t] = "get"
  /\ \/ /\ ReqOK(t)
        /\ pc' = [pc EXCEPT ![t] = IF IsManifest[Node(t)] THEN "spawn" ELSE "upload"]
        /\ UNCHANGED <<seen, owner, faults>>
     \/ /\ (MayFault \/ EffCancel(t)) /\ Fail(t) /\ faults' = IF EffCancel(t) THEN faults ELSE faults + 1
  /\ UNCHANGED <<tgt, tag, cancelled, log>>

Spawn(t) ==
  /\ pc[t] = "spawn"
  /\ pc' = [x \in RealTasks |-> IF x = t THEN "wait" ELSE IF x \in Kids(t) THEN "seen" ELSE pc[x]]
  /\ owner' = IF t = Top THEN [owner EXCEPT ![Root] = t] ELSE owner
  /\ UNCHANGED <<seen, tgt, tag, faults, cancelled, log>>

\* first error seen: cancel own context
WaitErr(t) ==
  /\ pc[t] = "wait" /\ ~cancelled[t]
  /\ \E k \in Kids(t) : pc[k] = "ret_err"
  /\ cancelled' = [cancelled EXCEPT ![t] = TRUE]
  /\ UNCHANGED <<pc, owner, seen, tgt, tag, faults, log>>

WaitDone(t) ==
  /\ pc[t] = "wait"
  /\ \A k \in Kids(t) : pc[k] \in Fin
  /\ IF \E k \in Kids(t) : pc[k] = "ret_err"
     THEN Fail(t)
     ELSE pc' = [pc EXCEPT ![t] = "put"] /\ UNCHANGED <<seen, owner>>
  /\ UNCHANGED <<tgt, tag, faults, cancelled, log>>

Put(t) ==
  /\ pc[t] \in {"put", "upload"}
  /\ \/ /\ ReqOK(t)
        /\ tgt' = tgt \cup {Node(t)}
        /\ tag' = IF t = Top THEN Root ELSE tag
        /\ log' = Append(log, Node(t))
        /\ pc' = [pc EXCEPT ![t] = "done_ok"]
        /\ UNCHANGED <<seen, owner, faults>>
     \/ /\ (MayFault \/ EffCancel(t)) /\ Fail(t) /\ faults' = IF EffCancel(t) THEN faults ELSE faults + 1
        /\ UNCHANGED <<tgt, tag, log>>
  /\ UNCHANGED cancelled

DoneOK(t) ==
  /\ pc[t] = "done_ok"
  /\ pc' = [pc EXCEPT ![t] = "ret_ok"]
  /\ seen' = IF owner[Node(t)] = t /\ t # Top THEN [seen EXCEPT ![Node(t)] = "ok"] ELSE seen
  /\ UNCHANGED <<owner, tgt, tag, faults, cancelled, log>>

Step(t) == SeenStep(t) \/ WaitSeen(t) \/ HeadTgt(t) \/ GetSrc(t) \/ Spawn(t) \/ WaitErr(t)
           \/ WaitDone(t) \/ Put(t) \/ DoneOK(t)
Idle == pc[Top] \in Fin /\ (\A t \in RealTasks : pc[t] \in Fin \cup {"idle"}) /\ UNCHANGED vars
Next == (\E t \in RealTasks : Step(t)) \/ Idle
Spec == Init /\ [][Next]_vars

RECURSIVE Closure(_)
Closure(n) == {n} \cup UNION {Closure(c) : c \in Children[n]}
\* closure that stops at manifests trusted because they pre-existed
RECURSIVE TClosure(_)
TClosure(n) == IF n \in InitTgt /\ IsManifest[n] THEN {n}
               ELSE {n} \cup UNION {TClosure(c) : c \in Children[n]}
ChildrenFirst == \A n \in tgt \ InitTgt : Children[n] \subseteq tgt
TagLast == tag # InitTag => (tag = Root /\ TClosure(Root) \subseteq tgt)
FailKeepsTag == pc[Top] = "ret_err" => tag = InitTag
SuccessComplete == pc[Top] = "ret_ok" => (tag = Root /\ TClosure(Root) \subseteq tgt)
View == <<pc, owner, seen, tgt, tag, faults, cancelled>>
=============================================================================

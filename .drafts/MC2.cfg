CONSTANTS
 p1 = p1
 p2 = p2
 p3 = p3
 p4 = p4
 p5 = p5
 q1 = q1
 q2 = q2
 q3 = q3
 Procs = {p1, p2, p3, p4, p5}
 Queues = {q1, q2, q3}
 Max <- MaxC
 Want <- WantC
 Mode <- ModeC
 CanCancel = {p1, p3, p4}
INIT Init
NEXT Next
INVARIANTS Bound NoOrphan QueuedWait FailedClean QuiescentNoWaiters

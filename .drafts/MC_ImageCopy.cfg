CONSTANTS
 I = I
 M1 = M1
 M2 = M2
 C1 = C1
 C2 = C2
 L = L
 None = None
 Nodes = {I, M1, M2, C1, C2, L}
 IsManifest <- IsManifestC
 Children <- ChildrenC
 Root = I
 InitTgt = {}
 InitTag = None
 MaxFaults = 1
INIT Init
NEXT Next
VIEW View
INVARIANTS ChildrenFirst TagLast FailKeepsTag SuccessComplete

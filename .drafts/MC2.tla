---- MODULE MC2 ----
EXTENDS PQueue
CONSTANTS p1, p2, p3, p4, p5, q1, q2, q3
MaxC == (q1 :> 1) @@ (q2 :> 2) @@ (q3 :> 1)
WantC == (p1 :> <<q1, q2>>) @@ (p2 :> <<q2, q3, q1>>) @@ (p3 :> <<q1>>) @@ (p4 :> <<q3, q2>>) @@ (p5 :> <<q2>>)
ModeC == (p1 :> "multi") @@ (p2 :> "multi") @@ (p3 :> "acq") @@ (p4 :> "multi") @@ (p5 :> "try")
====

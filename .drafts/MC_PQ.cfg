CONSTANTS
 p1 = p1
 p2 = p2
 p3 = p3
 q1 = q1
 q2 = q2
 Procs = {p1, p2, p3}
 Queues = {q1, q2}
 Max <- MaxC
 Want <- WantC
 Mode <- ModeC
 CanCancel = {p1, p3}
INIT Init
NEXT Next
INVARIANTS Bound NoOrphan QueuedWait FailedClean QuiescentNoWaiters
